//! Shared pieces of the queuing-sink monitors: event log, gated/scripted wrapped sink, error-handler
//! recorder, bounded-progress waits decided by logical evidence (/proc thread state), and the watchdog
//! that turns a library call which blocks for good into a verdict.

use crate::json::Json;
use crate::procmon::{self, Quiescence};
use cadence::MetricSink;
use std::collections::BTreeSet;
use std::io;
use std::sync::{Arc, Condvar, Mutex};
use std::time::{Duration, Instant};

#[derive(Clone, Debug, PartialEq)]
pub enum Out {
    Ok,
    Err(u8),
    Panic,
    /// only as a request: emit the k-th blank string (the wrapped sink accepts it like any Ok metric)
    Blank(u8),
}

pub const ERR_KINDS: &[io::ErrorKind] = &[
    io::ErrorKind::ConnectionRefused,
    io::ErrorKind::WouldBlock,
    io::ErrorKind::Interrupted,
    io::ErrorKind::Other,
    io::ErrorKind::TimedOut,
    io::ErrorKind::PermissionDenied,
    io::ErrorKind::BrokenPipe,
    io::ErrorKind::WriteZero,
    io::ErrorKind::InvalidInput,
    io::ErrorKind::UnexpectedEof,
];

/// errno for the kinds that have one (index-aligned with ERR_KINDS; 0 = none)
const ERR_ERRNO: &[i32] = &[111, 11, 4, 0, 110, 13, 32, 0, 22, 0];

/// Custom error payload: the handler must get THE error the wrapped sink returned, not a copy rebuilt from its kind
/// and text (a copy loses the payload's type and an OS error's code).
#[derive(Debug)]
pub struct ScriptedErr {
    pub metric: String,
}

impl std::fmt::Display for ScriptedErr {
    fn fmt(&self, f: &mut std::fmt::Formatter<'_>) -> std::fmt::Result {
        write!(f, "scripted-error:{}", self.metric)
    }
}

impl std::error::Error for ScriptedErr {}

/// The error the scripted wrapped sink returns for `metric`: by metric hash a plain message, a typed payload, or (for
/// kinds that have an errno) a raw OS error.
pub fn scripted_error(k: u8, metric: &str) -> io::Error {
    let i = k as usize % ERR_KINDS.len();
    match crate::rng::hash_str(metric) / 7 % 3 {
        0 => io::Error::new(ERR_KINDS[i], ScriptedErr { metric: metric.to_string() }),
        1 if ERR_ERRNO[i] != 0 => io::Error::from_raw_os_error(ERR_ERRNO[i]),
        _ => io::Error::new(ERR_KINDS[i], format!("scripted-error:{}", metric)),
    }
}

/// What the handler recorder must log for that error (text + identity markers).
pub fn describe_error(e: &io::Error) -> String {
    let mut s = e.to_string();
    if e.get_ref().map(|r| r.is::<ScriptedErr>()).unwrap_or(false) {
        s.push_str(" [payload:ScriptedErr]");
    }
    if let Some(c) = e.raw_os_error() {
        s.push_str(&format!(" [os:{}]", c));
    }
    s
}

pub fn expected_handler_msg(k: u8, metric: &str) -> String {
    describe_error(&scripted_error(k, metric))
}

/// Blank but distinct metric strings: legal through `MetricSink::emit`, never produced by `StatsdClient`.
pub const BLANKS: &[&str] = &["", " ", "\n", "  ", "\t", " \n", "\r\n", "   "];

pub fn metric_text(id: &str, out: &Out, pad: usize) -> String {
    if let Out::Blank(k) = out {
        return BLANKS[*k as usize % BLANKS.len()].to_string();
    }
    let tail = match out {
        Out::Ok => "ok".to_string(),
        Out::Err(k) => format!("err{}", k),
        Out::Panic => "panic".to_string(),
        Out::Blank(_) => unreachable!(),
    };
    // the queue must hand every string over untouched: some carry leading/trailing blanks, newlines, NUL or long tails
    let h = crate::rng::hash_str(id);
    let (pre, post): (&str, String) = match h % 11 {
        0 => (" ", String::new()),
        1 => ("\n", String::new()),
        2 => ("\u{0}", String::new()),
        3 => ("", "\u{feff}é🎉".to_string()),
        4 => ("\t ", String::new()),
        5 if pad > 0 => ("", "L".repeat(3000)),
        // long multi-byte tails: byte offsets like 48 or 64 fall inside a character for some of them
        6 => ("", "é🎉ж".repeat(8 + (h / 11 % 12) as usize)),
        7 => ("", format!("{}{}", "a".repeat((h / 13 % 5) as usize), "中文".repeat(15))),
        _ => ("", String::new()),
    };
    format!("{}{}{}{}|{}", pre, id, "x".repeat(pad), post, tail)
}

pub fn outcome_of(metric: &str) -> Out {
    match metric.rsplit('|').next() {
        Some("panic") => Out::Panic,
        Some(t) if t.starts_with("err") => Out::Err(t[3..].parse().unwrap_or(0)),
        _ => Out::Ok,
    }
}

#[derive(Clone, Debug, PartialEq)]
pub enum Ev {
    /// client boundary
    Call { h: usize, metric: String, tid: u32 },
    Ret { h: usize, metric: String, ok: Result<usize, String> },
    CloneH { from: usize, to: usize },
    DropCall { h: usize },
    DropRet { h: usize },
    /// wrapped sink boundary
    /// `on_harness_thread` is evaluated at the moment of the call (tids are reused, a later lookup could lie)
    Enter { metric: String, tid: u32, on_harness_thread: bool },
    Exit { metric: String, out: Out, tid: u32 },
    Handler { msg: String, kind: io::ErrorKind, tid: u32, on_harness_thread: bool },
    SinkDrop { tid: u32 },
    /// schedule point of hook H2 passed by a library thread (only in builds with --cfg cadence_verif)
    Point { name: &'static str, tid: u32 },
    /// harness actions
    Release,
    OpenAll,
    Note(String),
}

impl Ev {
    pub fn short(&self) -> String {
        match self {
            Ev::Call { h, metric, tid } => format!("CALL emit(h{}, {}) t{}", h, crate::json::clip(metric, 40), tid),
            Ev::Ret { h, metric, ok } => format!("RET emit(h{}, {}) = {:?}", h, crate::json::clip(metric, 40), ok),
            Ev::CloneH { from, to } => format!("clone(h{}) -> h{}", from, to),
            Ev::DropCall { h } => format!("CALL drop(h{})", h),
            Ev::DropRet { h } => format!("RET drop(h{})", h),
            Ev::Enter { metric, tid, on_harness_thread } => format!("ENTER {} t{}{}", crate::json::clip(metric, 40), tid, if *on_harness_thread { " (a harness/caller thread!)" } else { "" }),
            Ev::Exit { metric, out, tid } => format!("EXIT {} {:?} t{}", crate::json::clip(metric, 40), out, tid),
            Ev::Handler { msg, kind, tid, .. } => format!("HANDLER {:?} {} t{}", kind, msg, tid),
            Ev::SinkDrop { tid } => format!("SINK_DROP t{}", tid),
            Ev::Point { name, tid } => format!("point {} t{}", name, tid),
            Ev::Release => "release".into(),
            Ev::OpenAll => "open-all-gates".into(),
            Ev::Note(s) => format!("note: {}", s),
        }
    }
}

pub struct St {
    /// flush() of the wrapped sink waits while one of its emits is in progress and panics once an emit has panicked -
    /// exactly what the library's own buffered sinks do (Mutex held across emit, lock().unwrap() in flush)
    pub flush_like_buffered_sink: bool,
    /// flush() of the wrapped sink fails with an error of its own (nobody but a caller's flush may ever see it: the
    /// queuing sink's thread has no business flushing, and a flush failure is not a failure of a queued metric)
    pub flush_fails: bool,
    /// flush() of the wrapped sink blocks until the gate is opened for good (`open_all`); `in_flush` counts the
    /// callers currently inside it
    pub flush_blocks: bool,
    pub in_flush: usize,
    /// number of EXIT events in `log` (kept next to it: the "everything delivered?" predicates are evaluated at every poll)
    pub n_exit: usize,
    pub log: Vec<Ev>,
    pub permits: usize,
    pub open: bool,
    pub in_call: usize,
    /// micro-sleep inside the wrapped sink (concurrent mode), in microseconds: (min, max)
    pub sleep_us: (u64, u64),
}

pub struct Shared {
    pub st: Mutex<St>,
    pub cv: Condvar,
}

impl Shared {
    pub fn new(gated: bool) -> Arc<Shared> {
        Arc::new(Shared { st: Mutex::new(St { flush_like_buffered_sink: false, flush_fails: false, flush_blocks: false, in_flush: 0, n_exit: 0, log: Vec::new(), permits: 0, open: !gated, in_call: 0, sleep_us: (0, 0) }), cv: Condvar::new() })
    }
    pub fn push(&self, e: Ev) {
        let mut g = self.st.lock().unwrap_or_else(|e| e.into_inner());
        if matches!(e, Ev::Exit { .. }) {
            g.n_exit += 1;
        }
        g.log.push(e);
        self.cv.notify_all();
    }
    pub fn log(&self) -> Vec<Ev> {
        self.st.lock().unwrap_or_else(|e| e.into_inner()).log.clone()
    }
    pub fn release_one(&self) {
        let mut g = self.st.lock().unwrap_or_else(|e| e.into_inner());
        g.permits += 1;
        g.log.push(Ev::Release);
        self.cv.notify_all();
    }
    pub fn open_all(&self) {
        let mut g = self.st.lock().unwrap_or_else(|e| e.into_inner());
        g.open = true;
        g.log.push(Ev::OpenAll);
        self.cv.notify_all();
    }
    pub fn count(&self, f: impl Fn(&Ev) -> bool) -> usize {
        self.st.lock().unwrap_or_else(|e| e.into_inner()).log.iter().filter(|e| f(e)).count()
    }
}

/// The wrapped sink: logs ENTER, waits at the gate, logs EXIT, then acts as the metric text dictates.
pub struct GatedSink {
    pub sh: Arc<Shared>,
}

impl MetricSink for GatedSink {
    fn emit(&self, metric: &str) -> io::Result<usize> {
        let tid = procmon::gettid();
        let out = outcome_of(metric);
        let sleep;
        {
            let mut g = self.sh.st.lock().unwrap_or_else(|e| e.into_inner());
            let on_harness_thread = procmon::is_harness_tid(tid);
            g.log.push(Ev::Enter { metric: metric.to_string(), tid, on_harness_thread });
            g.in_call += 1;
            self.sh.cv.notify_all();
            while !(g.open || g.permits > 0) {
                g = self.sh.cv.wait(g).unwrap_or_else(|e| e.into_inner());
            }
            if !g.open {
                g.permits -= 1;
            }
            sleep = g.sleep_us;
        }
        if sleep.1 > 0 {
            // deterministic pseudo-random micro-sleep derived from the metric text
            let h = crate::rng::hash_str(metric);
            let us = sleep.0 + h % (sleep.1 - sleep.0 + 1);
            if us > 0 {
                std::thread::sleep(Duration::from_micros(us));
            }
        }
        if out == Out::Panic {
            // identify this thread beyond its tid (tids are reused within a second on a busy machine): whoever sees
            // the EXIT event and calls await_thread_gone() must find this thread's entry, not an earlier thread's
            match procmon::task_starttime(tid) {
                Some(st) => PANICKING.lock().unwrap_or_else(|e| e.into_inner()).insert(tid, st),
                None => PANICKING.lock().unwrap_or_else(|e| e.into_inner()).remove(&tid),
            };
        }
        {
            let mut g = self.sh.st.lock().unwrap_or_else(|e| e.into_inner());
            g.log.push(Ev::Exit { metric: metric.to_string(), out: out.clone(), tid });
            g.n_exit += 1;
            g.in_call -= 1;
            self.sh.cv.notify_all();
        }
        match out {
            // the value a wrapped sink returns with Ok is its own business (NopMetricSink returns 0): vary it
            Out::Ok => Ok(match crate::rng::hash_str(metric) % 7 {
                0 => 0,
                1 => usize::MAX,
                2 => 1,
                3 => metric.len().saturating_sub(1),
                4 => metric.len() / 2,
                _ => metric.len(),
            }),
            Out::Err(k) => Err(scripted_error(k, metric)),
            Out::Panic => panic!("scripted-panic:{}", metric),
            Out::Blank(_) => Ok(metric.len()),
        }
    }

    fn flush(&self) -> io::Result<()> {
        self.flush_impl()
    }
}

impl GatedSink {
    fn flush_impl(&self) -> io::Result<()> {
        let mut g = self.sh.st.lock().unwrap_or_else(|e| e.into_inner());
        if g.flush_blocks {
            g.in_flush += 1;
            while !g.open {
                g = self.sh.cv.wait(g).unwrap_or_else(|e| e.into_inner());
            }
            g.in_flush -= 1;
            return Ok(());
        }
        if g.flush_fails {
            return Err(io::Error::new(io::ErrorKind::BrokenPipe, "scripted-flush-failure"));
        }
        if !g.flush_like_buffered_sink {
            return Ok(());
        }
        while g.in_call > 0 {
            g = self.sh.cv.wait(g).unwrap_or_else(|e| e.into_inner());
        }
        if g.log.iter().any(|e| matches!(e, Ev::Exit { out: Out::Panic, .. })) {
            drop(g);
            panic!("scripted-panic: flush on a sink whose lock was poisoned by an earlier panic");
        }
        Ok(())
    }
}

impl Drop for GatedSink {
    fn drop(&mut self) {
        let tid = procmon::gettid();
        self.sh.push(Ev::SinkDrop { tid });
    }
}

pub fn handler_for(sh: Arc<Shared>) -> impl Fn(io::Error) + Sync + Send + std::panic::RefUnwindSafe + 'static {
    let sh = std::panic::AssertUnwindSafe(sh);
    move |e: io::Error| {
        let tid = procmon::gettid();
        let on_harness_thread = procmon::is_harness_tid(tid);
        sh.push(Ev::Handler { msg: describe_error(&e), kind: e.kind(), tid, on_harness_thread });
    }
}

#[derive(Clone, Debug, PartialEq)]
pub enum Stuck {
    /// No library thread exists any more: the awaited event can never happen.
    NoLibraryThread,
    /// Every library thread is parked for good with nobody left to wake it.
    Parked { tids: Vec<u32>, samples: u32, span_ms: u64 },
    /// The generous wall-clock watchdog fired: inconclusive, never a violation.
    Watchdog,
    /// A library thread burns CPU time without anything happening at the wrapped sink / handler / hooks.
    Spinning { tid: u32, cpu_ms: u64 },
}

impl Stuck {
    pub fn describe(&self) -> String {
        match self {
            Stuck::NoLibraryThread => "no library thread exists any more".into(),
            Stuck::Parked { tids, samples, span_ms } => format!("library thread(s) {:?} parked for good: state S, context-switch counters unchanged over {} samples / {} ms, nothing left that could wake them", tids, samples, span_ms),
            Stuck::Watchdog => "wall-clock watchdog expired (inconclusive)".into(),
            Stuck::Spinning { tid, cpu_ms } => format!("library thread {} has consumed {} ms of CPU time while no event was logged at the wrapped sink, the handler or the schedule points: it spins without making progress", tid, cpu_ms),
        }
    }
    pub fn is_verdict(&self) -> bool {
        !matches!(self, Stuck::Watchdog)
    }
}

/// Zombie library threads left behind by an earlier (violating) scenario are excluded from later verdicts. They are
/// identified by (tid, start time): the kernel reuses tids, and a later library thread must not inherit the label.
static ZOMBIES: Mutex<BTreeSet<(u32, u64)>> = Mutex::new(BTreeSet::new());

pub fn adopt_zombies() {
    let mut z = ZOMBIES.lock().unwrap();
    for t in procmon::library_tids() {
        if let Some(st) = procmon::task_starttime(t) {
            z.insert((t, st));
        }
    }
}

fn zombie_tids() -> BTreeSet<u32> {
    let mut z = ZOMBIES.lock().unwrap();
    // forget zombies that have exited (or whose tid now belongs to another thread)
    z.retain(|(t, st)| procmon::task_starttime(*t) == Some(*st));
    z.iter().map(|(t, _)| *t).collect()
}

pub fn live_library_tids() -> Vec<u32> {
    let z = zombie_tids();
    procmon::library_tids().into_iter().filter(|t| !z.contains(t)).collect()
}

pub const PARK_SAMPLES: u32 = 150;
pub const PARK_SPAN: Duration = Duration::from_millis(1500);
pub const WATCHDOG: Duration = Duration::from_secs(120);
pub const BUSY_TICKS: u64 = 30;
pub const WAIT_SAMPLES: u32 = 25;
pub const WAIT_SPAN: Duration = Duration::from_millis(700);

/// Wait until `pred(log)` holds. The success path is signalled by the wrapped sink's own events through the
/// condvar; the failure path is decided by logical evidence about the library threads.
pub fn await_log(sh: &Shared, pred: impl Fn(&St) -> bool) -> Result<(), Stuck> {
    let start = Instant::now();
    // fast path
    {
        let mut g = sh.st.lock().unwrap_or_else(|e| e.into_inner());
        let t0 = Instant::now();
        loop {
            if pred(&g) {
                return Ok(());
            }
            if t0.elapsed() > Duration::from_millis(200) {
                break;
            }
            let (g2, _) = sh.cv.wait_timeout(g, Duration::from_millis(20)).unwrap_or_else(|e| e.into_inner());
            g = g2;
        }
    }
    // slow path: watch the library threads
    let check = || {
        let g = sh.st.lock().unwrap_or_else(|e| e.into_inner());
        pred(&g)
    };
    let zombies: BTreeSet<u32> = zombie_tids();
    let progress = || sh.st.lock().unwrap_or_else(|e| e.into_inner()).log.len() as u64;
    let r = watch_excluding_p(check, &zombies, PARK_SAMPLES, PARK_SPAN, WATCHDOG.saturating_sub(start.elapsed()), Some(&progress));
    match r {
        None => Ok(()),
        Some(Quiescence::NoLibraryThread) => Err(Stuck::NoLibraryThread),
        Some(Quiescence::ParkedForGood { tids, samples, span_ms }) => Err(Stuck::Parked { tids, samples, span_ms }),
        Some(Quiescence::Active) => Err(Stuck::Watchdog),
        Some(Quiescence::Spinning { tid, cpu_ms }) => Err(Stuck::Spinning { tid, cpu_ms }),
    }
}

/// Wait until no (non-zombie) library thread exists.
pub fn await_no_library_thread() -> Result<(), Stuck> {
    let t0 = Instant::now();
    loop {
        // (three listings in a row: a single one can miss a thread that is being replaced)
        if live_library_tids().is_empty() && live_library_tids().is_empty() && live_library_tids().is_empty() {
            return Ok(());
        }
        if t0.elapsed() > Duration::from_millis(300) {
            break;
        }
        std::thread::yield_now();
    }
    let zombies: BTreeSet<u32> = zombie_tids();
    match watch_excluding(|| live_library_tids().is_empty(), &zombies, PARK_SAMPLES, PARK_SPAN, WATCHDOG) {
        None => Ok(()),
        Some(Quiescence::NoLibraryThread) => Ok(()),
        Some(Quiescence::ParkedForGood { tids, samples, span_ms }) => Err(Stuck::Parked { tids, samples, span_ms }),
        Some(Quiescence::Active) => Err(Stuck::Watchdog),
        Some(Quiescence::Spinning { tid, cpu_ms }) => Err(Stuck::Spinning { tid, cpu_ms }),
    }
}

/// (tid -> start time) of the threads on which the wrapped sink panicked last.
static PANICKING: Mutex<std::collections::BTreeMap<u32, u64>> = Mutex::new(std::collections::BTreeMap::new());

/// Wait until the given thread (the one that panicked inside the wrapped sink with this tid) no longer exists. A later
/// thread that got the same tid is somebody else: threads are identified by (tid, start time).
pub fn await_thread_gone(tid: u32) -> Result<(), Stuck> {
    let st0 = PANICKING.lock().unwrap_or_else(|e| e.into_inner()).get(&tid).copied();
    let gone = || match (st0, procmon::task_starttime(tid)) {
        (_, None) => true,
        (Some(a), Some(b)) => a != b,
        (None, Some(_)) => false,
    };
    let t0 = Instant::now();
    loop {
        if gone() {
            return Ok(());
        }
        if t0.elapsed() > Duration::from_millis(300) {
            break;
        }
        std::thread::yield_now();
    }
    let zombies: BTreeSet<u32> = zombie_tids();
    match watch_excluding(gone, &zombies, PARK_SAMPLES, PARK_SPAN, WATCHDOG) {
        None => Ok(()),
        Some(Quiescence::NoLibraryThread) => Ok(()),
        Some(Quiescence::ParkedForGood { tids, samples, span_ms }) => Err(Stuck::Parked { tids, samples, span_ms }),
        Some(Quiescence::Active) => Err(Stuck::Watchdog),
        Some(Quiescence::Spinning { tid, cpu_ms }) => Err(Stuck::Spinning { tid, cpu_ms }),
    }
}

fn watch_excluding(done: impl FnMut() -> bool, zombies: &BTreeSet<u32>, min_samples: u32, min_span: Duration, watchdog: Duration) -> Option<Quiescence> {
    watch_excluding_p(done, zombies, min_samples, min_span, watchdog, None)
}

/// CPU time one library thread may consume without any event being logged before it counts as spinning (a
/// worker that does its job logs an event every few microseconds of CPU time; 3 s of CPU time, not of wall-clock time).
const SPIN_CPU_TICKS: u64 = 300;

/// Set once a library thread was found spinning: it goes on burning CPU time, the driver should wind up.
pub static SPIN_SEEN: std::sync::atomic::AtomicBool = std::sync::atomic::AtomicBool::new(false);

/// As `watch_excluding`; with `progress` (a counter that moves whenever the library does something observable) a third
/// logical verdict is possible: a library thread that consumes SPIN_CPU_TICKS of CPU time while the counter stands still.
fn watch_excluding_p(mut done: impl FnMut() -> bool, zombies: &BTreeSet<u32>, min_samples: u32, min_span: Duration, watchdog: Duration, progress: Option<&dyn Fn() -> u64>) -> Option<Quiescence> {
    use std::collections::BTreeMap;
    let mut start = Instant::now();
    let mut last_progress: Option<u64> = None;
    let mut cpu_base: BTreeMap<u32, u64> = BTreeMap::new();
    let mut spin_probe = 0u32;
    let mut last: BTreeMap<u32, procmon::TaskStatus> = BTreeMap::new();
    let mut stable_since = Instant::now();
    let mut stable_samples = 0u32;
    loop {
        if done() {
            return None;
        }
        let tids: Vec<u32> = procmon::library_tids().into_iter().filter(|t| !zombies.contains(t)).collect();
        if tids.is_empty() {
            if done() {
                return None;
            }
            // one listing of /proc/self/task is not an atomic snapshot: a worker that hands over to its successor
            // while the directory is being read can be missed. The verdict needs the fact to be stable.
            if !procmon::confirm_no_library_thread(zombies) {
                continue;
            }
            if done() {
                return None;
            }
            return Some(Quiescence::NoLibraryThread);
        }
        let mut cur = BTreeMap::new();
        let mut all_sleeping = true;
        for t in &tids {
            match procmon::task_status(*t) {
                Some(st) => {
                    if st.state != 'S' {
                        all_sleeping = false;
                    }
                    cur.insert(*t, st);
                }
                None => all_sleeping = false,
            }
        }
        if all_sleeping && cur == last {
            stable_samples += 1;
        } else {
            stable_samples = 0;
            stable_since = Instant::now();
            last = cur;
        }
        if stable_samples >= min_samples && stable_since.elapsed() >= min_span {
            if done() {
                return None;
            }
            return Some(Quiescence::ParkedForGood { tids, samples: stable_samples, span_ms: stable_since.elapsed().as_millis() as u64 });
        }
        if let Some(p) = progress {
            spin_probe += 1;
            if spin_probe % 20 == 0 {
                let now = p();
                if last_progress != Some(now) {
                    last_progress = Some(now);
                    cpu_base.clear();
                    // the wall-clock watchdog measures time WITHOUT observable progress: a backlog of millions of
                    // entries on a loaded machine takes as long as it takes
                    start = Instant::now();
                }
                for t in &tids {
                    if let Some(c) = procmon::task_cpu_ticks(*t) {
                        let base = *cpu_base.entry(*t).or_insert(c);
                        if c.saturating_sub(base) >= SPIN_CPU_TICKS {
                            if done() {
                                return None;
                            }
                            if p() == now {
                                SPIN_SEEN.store(true, std::sync::atomic::Ordering::SeqCst);
                                return Some(Quiescence::Spinning { tid: *t, cpu_ms: (c - base) * 10 });
                            }
                        }
                    }
                }
                cpu_base.retain(|t, _| tids.contains(t));
            }
        }
        if start.elapsed() > watchdog {
            return Some(Quiescence::Active);
        }
        std::thread::sleep(Duration::from_millis(if stable_samples < 3 { 1 } else { 10 }));
    }
}

// ------------------------------------------------------------------------------------------------
// Watchdog for library calls that block the calling harness thread for good
// ------------------------------------------------------------------------------------------------

pub struct InCall {
    pub what: String,
    pub tid: u32,
    pub since: Instant,
    pub context: Json,
}

pub static IN_CALL: Mutex<Option<InCall>> = Mutex::new(None);

/// Run a library call on the current harness thread; a monitor thread (see `spawn_call_watchdog`) decides
/// if it blocks for good.
pub fn in_call<R>(what: &str, context: impl FnOnce() -> Json, f: impl FnOnce() -> R) -> R {
    {
        let mut g = IN_CALL.lock().unwrap();
        *g = Some(InCall { what: what.to_string(), tid: procmon::gettid(), since: Instant::now(), context: context() });
    }
    let r = f();
    *IN_CALL.lock().unwrap() = None;
    r
}

/// Spawns the monitor. `on_blocked(what, context, evidence)` must write the report and exit the process: the
/// blocked thread can never be resumed.
pub fn spawn_call_watchdog(on_blocked: impl Fn(&str, &Json, String) + Send + 'static) {
    std::thread::Builder::new()
        .name("call-watchdog".into())
        .spawn(move || {
            procmon::register_current();
            let mut last: Option<(u32, procmon::TaskStatus, Instant)> = None;
            let mut samples = 0u32;
            let mut stable_since = Instant::now();
            // second criterion: the calling thread is WAITING (state S: sleep, lock, channel) sample after sample while it
            // is inside a call that never waits for anything. A thread that is merely starved of CPU is runnable (R), one
            // that pages is D: neither counts. (Catches waits that end on their own: grace periods, polling loops.)
            let mut sleeping: Option<(Instant, Instant, u32, u32)> = None; // (call instance, first sample, S samples, samples)
            let mut busy: Option<(Instant, u64)> = None; // (call instance, CPU ticks when first seen)
            loop {
                std::thread::sleep(Duration::from_millis(10));
                let g = IN_CALL.lock().unwrap();
                let c = match g.as_ref() {
                    Some(c) if c.since.elapsed() > Duration::from_millis(300) => c,
                    _ => {
                        samples = 0;
                        last = None;
                        sleeping = None;
                        busy = None;
                        continue;
                    }
                };
                let st = match procmon::task_status(c.tid) {
                    Some(s) => s,
                    None => continue,
                };
                // (waiting in at least nine samples out of ten: a polling loop is caught awake now and then)
                sleeping = match sleeping {
                    Some((inst, first, n, total)) if inst == c.since => Some((inst, first, n + (st.state == 'S') as u32, total + 1)),
                    _ => Some((c.since, Instant::now(), (st.state == 'S') as u32, 1)),
                };
                // third criterion: the call burns CPU (spin / yield loop): CPU time of the calling thread since the call was
                // first seen, not wall time - a starved thread does not accumulate any
                match (&busy, procmon::task_cpu_ticks(c.tid)) {
                    (Some((inst, t0)), Some(now)) if *inst == c.since => {
                        if now.saturating_sub(*t0) >= BUSY_TICKS {
                            let ev = format!("calling thread {} has consumed {} ms of CPU time inside one `{}` call ({} ms after it was invoked): it spins waiting for something; emit, flush and drop on a queuing sink never wait", c.tid, (now - t0) * 10, c.what, c.since.elapsed().as_millis());
                            on_blocked(&c.what, &c.context, ev);
                            return;
                        }
                    }
                    (_, Some(now)) => busy = Some((c.since, now)),
                    _ => {}
                }
                if let Some((_, first, n, total)) = sleeping {
                    if total >= WAIT_SAMPLES && n * 10 >= total * 9 && first.elapsed() >= WAIT_SPAN {
                        let ev = format!(
                            "calling thread {} has been inside `{}` for {} ms and was found waiting (state S) in {} of {} samples over {} ms; emit, flush and drop on a queuing sink never wait for anything",
                            c.tid,
                            c.what,
                            c.since.elapsed().as_millis(),
                            n,
                            total,
                            first.elapsed().as_millis()
                        );
                        on_blocked(&c.what, &c.context, ev);
                        return;
                    }
                }
                let same = matches!(&last, Some((t, s, since)) if *t == c.tid && *s == st && *since == c.since);
                if same && st.state == 'S' {
                    samples += 1;
                } else {
                    samples = 0;
                    stable_since = Instant::now();
                    last = Some((c.tid, st.clone(), c.since));
                }
                if samples >= PARK_SAMPLES && stable_since.elapsed() >= PARK_SPAN {
                    let ev = format!(
                        "calling thread {} has been inside `{}` for {} ms, state S, context-switch counters unchanged over {} samples / {} ms; the harness holds every gate, so nothing can wake it",
                        c.tid,
                        c.what,
                        c.since.elapsed().as_millis(),
                        samples,
                        stable_since.elapsed().as_millis()
                    );
                    on_blocked(&c.what, &c.context, ev);
                    return;
                }
            }
        })
        .unwrap();
}

// ------------------------------------------------------------------------------------------------
// Hook H2: schedule points are logged into the event log of the scenario that is currently running
// ------------------------------------------------------------------------------------------------

static CURRENT: Mutex<Option<Arc<Shared>>> = Mutex::new(None);

pub fn set_current(sh: Option<Arc<Shared>>) {
    *CURRENT.lock().unwrap_or_else(|e| e.into_inner()) = sh;
}

/// Installs a point handler that logs every point passed through. Returns false when the library was built
/// without the hooks (then rest detection falls back to the wrapped sink's own events).
pub fn install_point_logger() -> bool {
    #[cfg(cadence_verif)]
    {
        cadence::verif::set_point_handler(Some(Arc::new(|name: &'static str| {
            let cur = CURRENT.lock().unwrap_or_else(|e| e.into_inner()).clone();
            if let Some(sh) = cur {
                let tid = procmon::gettid();
                sh.push(Ev::Point { name, tid });
            }
            park_if_armed(name);
        })));
        true
    }
    #[cfg(not(cadence_verif))]
    {
        false
    }
}

/// Heuristic settle (never a verdict): give library threads the chance to finish whatever the last call may
/// have triggered, until each is asleep with stable counters for a few samples or gone.
pub fn settle() {
    let mut stable = 0;
    let mut last: Vec<(u32, Option<procmon::TaskStatus>)> = Vec::new();
    let t0 = Instant::now();
    while t0.elapsed() < Duration::from_millis(50) {
        let cur: Vec<(u32, Option<procmon::TaskStatus>)> = live_library_tids().into_iter().map(|t| (t, procmon::task_status(t))).collect();
        let asleep = cur.iter().all(|(_, s)| s.as_ref().map(|s| s.state == 'S').unwrap_or(false));
        if cur.is_empty() {
            return;
        }
        if asleep && cur == last {
            stable += 1;
            if stable >= 3 {
                return;
            }
        } else {
            stable = 0;
            last = cur;
        }
        std::thread::sleep(Duration::from_micros(300));
    }
}

// ------------------------------------------------------------------------------------------------
// Schedule forcing: park the next thread that passes a named point until released
// ------------------------------------------------------------------------------------------------

#[derive(Default)]
pub struct ParkState {
    /// point name -> number of arrivals still to be parked
    armed: std::collections::BTreeMap<&'static str, u32>,
    /// point names at which a thread is currently parked
    parked: Vec<(&'static str, u32)>,
    /// point names released (tokens)
    released: Vec<&'static str>,
}

pub struct ParkCtl {
    pub st: Mutex<ParkState>,
    pub cv: Condvar,
}

pub static PARK: ParkCtl = ParkCtl { st: Mutex::new(ParkState { armed: std::collections::BTreeMap::new(), parked: Vec::new(), released: Vec::new() }), cv: Condvar::new() };

fn park_if_armed(name: &'static str) {
    let mut g = PARK.st.lock().unwrap_or_else(|e| e.into_inner());
    match g.armed.get_mut(name) {
        Some(n) if *n > 0 => {
            *n -= 1;
        }
        _ => return,
    }
    let tid = procmon::gettid();
    g.parked.push((name, tid));
    PARK.cv.notify_all();
    loop {
        if let Some(i) = g.released.iter().position(|n| *n == name) {
            g.released.remove(i);
            if let Some(j) = g.parked.iter().position(|(n, t)| *n == name && *t == tid) {
                g.parked.remove(j);
            }
            PARK.cv.notify_all();
            return;
        }
        g = PARK.cv.wait(g).unwrap_or_else(|e| e.into_inner());
    }
}

/// Park the next thread that reaches `name`.
pub fn arm(name: &'static str) {
    let mut g = PARK.st.lock().unwrap_or_else(|e| e.into_inner());
    *g.armed.entry(name).or_insert(0) += 1;
}

pub fn disarm_all() {
    let mut g = PARK.st.lock().unwrap_or_else(|e| e.into_inner());
    g.armed.clear();
    let names: Vec<&'static str> = g.parked.iter().map(|(n, _)| *n).collect();
    for n in names {
        g.released.push(n);
    }
    PARK.cv.notify_all();
}

/// Wait until some thread is parked at `name` (bounded by a generous wall-clock watchdog: false = not reached).
pub fn await_parked(name: &'static str, max: Duration) -> bool {
    let t0 = Instant::now();
    let mut g = PARK.st.lock().unwrap_or_else(|e| e.into_inner());
    loop {
        if g.parked.iter().any(|(n, _)| *n == name) {
            return true;
        }
        if t0.elapsed() > max {
            return false;
        }
        let (g2, _) = PARK.cv.wait_timeout(g, Duration::from_millis(20)).unwrap_or_else(|e| e.into_inner());
        g = g2;
    }
}

pub fn release(name: &'static str) {
    let mut g = PARK.st.lock().unwrap_or_else(|e| e.into_inner());
    g.released.push(name);
    PARK.cv.notify_all();
}
