//! Seeded generators of numeric values, durations, packed lists, decorations and whole call specs.

use crate::callengine::{CallSpec, ClientCfg, Deco, Form, Val};
use crate::refmodel::{Kind, Tag, ALL_KINDS};
use crate::rng::Rng;
use crate::strgen::{self, StrClass};
use cadence::ext::MetricValue;
use std::time::Duration;

pub const I64_EDGES: &[i64] = &[
    0, 1, -1, 2, -2, 9, 10, 11, -9, -10, -11, 99, 100, 101, 127, 128, 255, 256, 32767, 32768, 65535, 65536,
    i32::MAX as i64, i32::MAX as i64 + 1, i32::MIN as i64, i32::MIN as i64 - 1, u32::MAX as i64, u32::MAX as i64 + 1,
    999_999_999, 1_000_000_000, 1_000_000_001, 9_999_999_999, 10_000_000_000, 9_007_199_254_740_991, 9_007_199_254_740_992,
    9_007_199_254_740_993, 999_999_999_999_999_999, 1_000_000_000_000_000_000, i64::MAX, i64::MAX - 1, i64::MIN, i64::MIN + 1,
];

pub const U64_EDGES: &[u64] = &[
    0, 1, 2, 9, 10, 11, 99, 100, 255, 256, 65535, 65536, i32::MAX as u64, i32::MAX as u64 + 1, u32::MAX as u64, u32::MAX as u64 + 1,
    9_999_999_999, 10_000_000_000, 9_007_199_254_740_992, 9_007_199_254_740_993, i64::MAX as u64, i64::MAX as u64 + 1,
    9_999_999_999_999_999_999, 10_000_000_000_000_000_000, u64::MAX - 1, u64::MAX,
];

pub fn gen_i64(r: &mut Rng) -> i64 {
    match r.below(10) {
        0..=2 => *r.pick(I64_EDGES),
        3 => {
            // 2^k +- 1, 10^k +- 1
            let k = r.below(63) as u32;
            let base = if r.chance(1, 2) { 1i64 << k } else { 10i64.checked_pow((k % 19) as u32).unwrap_or(i64::MAX) };
            let d = r.range(0, 2) as i64 - 1;
            let v = base.saturating_add(d);
            if r.chance(1, 2) {
                v
            } else {
                v.checked_neg().unwrap_or(i64::MIN)
            }
        }
        _ => r.i64_any_width(),
    }
}

pub fn gen_i32(r: &mut Rng) -> i32 {
    match r.below(6) {
        0 => *r.pick(&[0, 1, -1, i32::MAX, i32::MIN, i32::MAX - 1, i32::MIN + 1, 999_999_999, 1_000_000_000, -1_000_000_000]),
        1 => {
            let k = r.below(31) as u32;
            let v = (1i32 << k).saturating_add(r.range(0, 2) as i32 - 1);
            if r.chance(1, 2) {
                v
            } else {
                v.checked_neg().unwrap_or(i32::MIN)
            }
        }
        _ => {
            let w = r.below(33) as u32;
            let v = if w == 0 { 0u32 } else if w == 32 { r.next_u64() as u32 } else { (1u32 << (w - 1)) | (r.next_u64() as u32 & ((1u32 << (w - 1)) - 1)) };
            v as i32
        }
    }
}

pub fn gen_u64(r: &mut Rng) -> u64 {
    match r.below(10) {
        0..=2 => *r.pick(U64_EDGES),
        3 => {
            let k = r.below(64) as u32;
            let base = if r.chance(1, 2) { 1u64 << k } else { 10u64.checked_pow(k % 20).unwrap_or(u64::MAX) };
            match r.below(3) {
                0 => base.saturating_sub(1),
                1 => base,
                _ => base.saturating_add(1),
            }
        }
        _ => r.u64_any_width(),
    }
}

pub fn gen_u32(r: &mut Rng) -> u32 {
    match r.below(6) {
        0 => *r.pick(&[0, 1, u32::MAX, u32::MAX - 1, i32::MAX as u32, i32::MAX as u32 + 1, 999_999_999, 1_000_000_000, 4_000_000_000]),
        _ => {
            let w = r.below(33) as u32;
            if w == 0 {
                0
            } else if w == 32 {
                r.next_u64() as u32
            } else {
                (1u32 << (w - 1)) | (r.next_u64() as u32 & ((1u32 << (w - 1)) - 1))
            }
        }
    }
}

pub const F64_EDGES: &[f64] = &[
    0.0, -0.0, 1.0, -1.0, 0.5, 0.1, 0.2, 0.3, 1.5, 2.5, 1e-7, 1e-5, 1e15, 1e16, 1e17, 1e21, 1e22, 1e23, 1e300, -1e300, 1e-300,
    f64::MAX, f64::MIN, f64::MIN_POSITIVE, f64::EPSILON, 5e-324, 4.9406564584124654e-324, 2.2250738585072009e-308,
    9007199254740991.0, 9007199254740992.0, 9007199254740993.0, 0.30000000000000004, 123456789.12345679, 1.7976931348623157e308,
    8.41e21, 9.5367431640625e-7, 2.98023223876953125e-8, 5.764607523034235e39, 1.152921504606847e40, 2.305843009213694e40,
    3.14159, 2.718281828459045, 100.0, 1000000.0, 0.000001, 4294967296.0, 18446744073709551615.0, 1e100,
];

/// Finite f64 from a uniformly random bit pattern, edge table, or a chosen exponent class.
pub fn gen_f64_finite(r: &mut Rng) -> f64 {
    loop {
        let v = match r.below(10) {
            0 | 1 => *r.pick(F64_EDGES),
            2 => {
                // subnormal
                f64::from_bits(r.next_u64() & 0x800F_FFFF_FFFF_FFFF)
            }
            3 => {
                // "nice" decimal
                let m = r.below(1_000_000) as f64;
                let e = r.below(12) as i32 - 6;
                m * 10f64.powi(e)
            }
            4 => {
                // integer-valued around 2^53
                (9007199254740992u64.wrapping_add(r.below(64)).wrapping_sub(32)) as f64
            }
            5 => r.f64_unit(),
            _ => f64::from_bits(r.next_u64()),
        };
        if v.is_finite() {
            return v;
        }
    }
}

pub fn gen_f64_any(r: &mut Rng) -> f64 {
    match r.below(40) {
        0 => f64::NAN,
        1 => f64::INFINITY,
        2 => f64::NEG_INFINITY,
        _ => gen_f64_finite(r),
    }
}

pub const MAX_SECS_MS: u64 = 18_446_744_073_709_551; // largest secs whose ms count can fit (with nanos <= 615_999_999)
pub const MAX_SECS_NS: u64 = 18_446_744_073; // largest secs whose ns count can fit (with nanos <= 709_551_615)

/// Durations biased to the exact 64-bit overflow boundaries of the ms (timer) and ns (histogram) conversions.
pub fn gen_duration(r: &mut Rng, kind: Kind) -> Duration {
    let sub = |r: &mut Rng| -> u32 {
        match r.below(6) {
            0 => 0,
            1 => 999_999_999,
            2 => *r.pick(&[1, 999_999, 1_000_000, 1_000_001, 1_999_999, 500_000, 499_999, 999_000_000, 615_999_999, 616_000_000, 709_551_615, 709_551_616]),
            _ => r.below(1_000_000_000) as u32,
        }
    };
    match r.below(12) {
        0 => Duration::new(0, 0),
        1 => Duration::new(u64::MAX, 999_999_999),
        2 | 3 => {
            // around the boundary of this kind
            if kind == Kind::Timer {
                let nanos = *r.pick(&[615_999_999u32, 616_000_000, 615_000_000, 615_999_998, 616_000_001, 616_999_999, 0, 999_999_999]);
                let secs = MAX_SECS_MS.wrapping_add(r.range(0, 2)).wrapping_sub(1);
                Duration::new(secs, nanos)
            } else {
                let nanos = *r.pick(&[709_551_615u32, 709_551_616, 709_551_614, 0, 999_999_999, 709_551_617]);
                let secs = MAX_SECS_NS.wrapping_add(r.range(0, 2)).wrapping_sub(1);
                Duration::new(secs, nanos)
            }
        }
        4 => {
            // around the *other* kind's boundary (must not matter)
            if kind == Kind::Timer {
                Duration::new(MAX_SECS_NS + r.range(0, 2) - 1, sub(r))
            } else {
                Duration::new(MAX_SECS_MS + r.range(0, 2) - 1, sub(r))
            }
        }
        5 => Duration::new(r.u64_any_width(), sub(r)),
        6 => Duration::new(r.below(4), sub(r)),
        _ => Duration::new(r.below(100_000), sub(r)),
    }
}

pub fn gen_len(r: &mut Rng, allow_empty: bool) -> usize {
    // rarely a list longer than any 8- or 16-bit counter could hold
    if r.chance(1, 400) {
        return *r.pick(&[257usize, 65535, 65536, 65537, 70000]);
    }
    loop {
        let n = match r.below(12) {
            0 => 0,
            1 | 2 => 1,
            3 | 4 => 2,
            5 | 6 => 3,
            7 | 8 => r.range(4, 12) as usize,
            9 => r.range(13, 60) as usize,
            10 => *r.pick(&[100usize, 255, 256, 300]),
            _ => r.range(1, 5) as usize,
        };
        if n == 0 && !allow_empty {
            continue;
        }
        return n;
    }
}

/// A value of the given built-in type tag for `kind`.
pub fn gen_val(r: &mut Rng, kind: Kind, type_tag: &str, allow_empty: bool, finite_only: bool) -> Val {
    let f = |r: &mut Rng| if finite_only { gen_f64_finite(r) } else { gen_f64_any(r) };
    match type_tag {
        "i64" => Val::I64(gen_i64(r)),
        "i32" => Val::I32(gen_i32(r)),
        "u64" => Val::U64(gen_u64(r)),
        "u32" => Val::U32(gen_u32(r)),
        "f64" => Val::F64(f(r)),
        "Duration" => Val::Dur(gen_duration(r, kind)),
        "Vec<u64>" => {
            let n = gen_len(r, allow_empty);
            Val::VU64((0..n).map(|_| gen_u64(r)).collect())
        }
        "Vec<f64>" => {
            let n = gen_len(r, allow_empty);
            Val::VF64((0..n).map(|_| f(r)).collect())
        }
        "Vec<Duration>" => {
            let n = gen_len(r, allow_empty);
            // mostly in-range elements, with an offending one at a random position sometimes
            let mut v: Vec<Duration> = (0..n).map(|_| Duration::new(r.below(100_000), r.below(1_000_000_000) as u32)).collect();
            if n > 0 && r.chance(1, 3) {
                let i = r.usize_below(n);
                v[i] = gen_duration(r, kind);
            }
            Val::VDur(v)
        }
        "incr" => Val::Incr,
        "decr" => Val::Decr,
        "user:Err" => Val::UserErr,
        t if t.starts_with("user:") => {
            let n = gen_len(r, allow_empty);
            Val::User(match &t[5..] {
                "Signed" => MetricValue::Signed(gen_i64(r)),
                "Unsigned" => MetricValue::Unsigned(gen_u64(r)),
                "Float" => MetricValue::Float(f(r)),
                "PackedSigned" => MetricValue::PackedSigned((0..n).map(|_| gen_i64(r)).collect()),
                "PackedUnsigned" => MetricValue::PackedUnsigned((0..n).map(|_| gen_u64(r)).collect()),
                "PackedFloat" => MetricValue::PackedFloat((0..n).map(|_| f(r)).collect()),
                other => panic!("unknown user variant {}", other),
            })
        }
        other => panic!("unknown type tag {}", other),
    }
}

pub const USER_VARIANTS: &[&str] = &["user:Signed", "user:PackedSigned", "user:Unsigned", "user:PackedUnsigned", "user:Float", "user:PackedFloat"];

/// All entry points: 22 built-in, 7 kinds x 6 user variants (+ failing user type), incr, decr.
pub fn all_entry_points() -> Vec<(Kind, &'static str)> {
    let mut v: Vec<(Kind, &'static str)> = crate::callengine::BUILTIN.to_vec();
    for k in ALL_KINDS {
        for u in USER_VARIANTS {
            v.push((k, u));
        }
        v.push((k, "user:Err"));
    }
    v.push((Kind::Counter, "incr"));
    v.push((Kind::Counter, "decr"));
    v
}

pub fn gen_tag(r: &mut Rng, allow_dirty: bool) -> Tag {
    let vc = strgen::pick_class(r, allow_dirty, true);
    let shorten = r.chance(3, 4);
    let v = strgen::of_class(r, if vc == StrClass::Long && shorten { StrClass::CleanAscii } else { vc });
    if r.chance(2, 3) {
        let kc = strgen::pick_class(r, allow_dirty, true);
        let k = strgen::of_class(r, if kc == StrClass::Long { StrClass::CleanAscii } else { kc });
        (Some(k), v)
    } else {
        (None, v)
    }
}

pub fn gen_rate(r: &mut Rng, finite_only: bool) -> f64 {
    match r.below(8) {
        0 => *r.pick(&[0.0, 1.0, 1.0, 0.9999999999999999, 1.0000000000000002, 2.0, 100.0, -1.0, 0.5, 0.1, 0.25, 0.01, 1e-9, 0.999999999, 0.3333333333333333, 1e-300, 5e-324]),
        1 if !finite_only => gen_f64_any(r),
        2 => gen_f64_finite(r),
        _ => r.f64_unit(),
    }
}

/// Decorations: `mask` bit0 rate, bit1 tags, bit2 container, bit3 timestamp. Setters may repeat
/// (last rate/container/timestamp wins, tags accumulate) and are interleaved in random order.
pub fn gen_decos(r: &mut Rng, mask: u8, allow_dirty: bool, finite_only: bool) -> Vec<Deco> {
    let mut d: Vec<Deco> = Vec::new();
    if mask & 1 != 0 {
        for _ in 0..(if r.chance(1, 5) { 2 } else { 1 }) {
            d.push(Deco::Rate(gen_rate(r, finite_only)));
        }
    }
    if mask & 2 != 0 {
        let n = match r.below(6) {
            0 | 1 => 1,
            2 | 3 => 2,
            4 => 3,
            _ => {
                if r.chance(1, 60) {
                    *r.pick(&[255usize, 256, 257, 300])
                } else {
                    r.range(4, 6) as usize
                }
            }
        };
        for _ in 0..n {
            match gen_tag(r, allow_dirty) {
                (Some(k), v) => d.push(Deco::Tag(k, v)),
                (None, v) => d.push(Deco::TagValue(v)),
            }
        }
    }
    if mask & 4 != 0 {
        for _ in 0..(if r.chance(1, 5) { 2 } else { 1 }) {
            let c = strgen::pick_class(r, allow_dirty, true);
            d.push(Deco::Container(strgen::of_class(r, if c == StrClass::Long { StrClass::CleanAscii } else { c })));
        }
    }
    if mask & 8 != 0 {
        for _ in 0..(if r.chance(1, 5) { 2 } else { 1 }) {
            d.push(Deco::Timestamp(match r.below(4) {
                0 => *r.pick(&[0u64, 1, u64::MAX, 1_700_000_000, 9_999_999_999, 10_000_000_000]),
                _ => gen_u64(r),
            }));
        }
    }
    // shuffle (Fisher-Yates): relative order of tags is what matters, and it is preserved in `expectation`
    for i in (1..d.len()).rev() {
        let j = r.usize_below(i + 1);
        d.swap(i, j);
    }
    d
}

pub fn gen_key(r: &mut Rng, allow_dirty: bool) -> (String, &'static str) {
    let c = strgen::pick_class(r, allow_dirty, true);
    (strgen::of_class(r, c), c.tag())
}

pub fn gen_client_cfg(r: &mut Rng, allow_dirty: bool, with_defaults: bool) -> (ClientCfg, &'static str) {
    let (prefix_raw, pclass) = strgen::prefix(r, allow_dirty);
    let mut cfg = ClientCfg { prefix_raw, ..Default::default() };
    if with_defaults {
        let n = match r.below(8) {
            0 => 0,
            1 | 2 => 1,
            3 | 4 => 2,
            5 => 3,
            _ => r.range(4, 5) as usize,
        };
        for _ in 0..n {
            let t = gen_tag(r, allow_dirty);
            // duplicates allowed on purpose
            if !cfg.default_tags.is_empty() && r.chance(1, 6) {
                let dup = cfg.default_tags[r.usize_below(cfg.default_tags.len())].clone();
                cfg.default_tags.push(dup);
            } else {
                cfg.default_tags.push(t);
            }
        }
        if r.chance(1, 2) {
            let c = strgen::pick_class(r, allow_dirty, true);
            cfg.default_container = Some(strgen::of_class(r, if c == StrClass::Long { StrClass::CleanAscii } else { c }));
            if r.chance(1, 6) {
                cfg.earlier_containers.push(strgen::clean_ascii(r, 1, 6));
            }
        }
    }
    (cfg, pclass)
}

pub fn spec(kind: Kind, val: Val, key: &str, form: Form, decos: Vec<Deco>) -> CallSpec {
    CallSpec { kind, val, key: key.to_string(), form, decos: if form == Form::Plain { Vec::new() } else { decos } }
}
