//! Model-based checker for the line-buffering writer (C05, C06, C07, C19).
//!
//! Input: a history of API calls (`emit(metric)`, `flush`, `drop`), each with the ordered list of
//! attempts it made on the underlying writer `(bytes, ok | failed(id) | interrupted(id))` and its result.
//! The checker keeps `pending` = FIFO of accepted-but-unwritten lines (`metric ++ terminator`) and
//! `fill` = sum of their lengths, and validates every attempt and result against rules F1..F4:
//!
//!  F1 (C05) every attempt is the concatenation of the first k>=1 pending whole lines with total <= capacity, or
//!           exactly the current metric (alone, no terminator) when metric+terminator > capacity
//!  F2 (C06) Ok(n) => n == len; after flush Ok nothing pending and a second flush writes nothing; after a
//!           fault-free drop nothing is lost; nothing is written twice; an oversize metric is written in its own emit
//!  F3 (C07) a call returns Ok or the error of an attempt made in that call; an emit that returned Err is never
//!           written later; accepted lines stay pending across failures; no unwind
//!  F4 (C19) attempts happen only when the next line does not fit in the remaining space (then ALL pending is
//!           written), on the bypass, on flush/drop with data pending, or as the exact-fill write
//!
//! Latitude the properties leave (and the real code uses): an exact fill may be written at once or stay
//! buffered; std's BufWriter hands a piece as large as its whole empty buffer straight through; an oversize
//! metric may overtake buffered ones or be preceded by a flush of them; `Interrupted` may be retried.

use std::collections::VecDeque;

#[derive(Clone, Debug, PartialEq)]
pub enum AOut {
    Ok,
    Failed(u64),
    Interrupted(u64),
}

#[derive(Clone, Debug)]
pub struct Attempt {
    /// None = a failed attempt that could not be observed (far-end observation: only successes are visible).
    pub bytes: Option<Vec<u8>>,
    pub out: AOut,
}

#[derive(Clone, Debug)]
pub enum Op {
    Emit(Vec<u8>),
    Flush,
    Drop,
    /// a read-only call on the sink (`stats()`): must not write anything
    Query,
}

#[derive(Clone, Debug, PartialEq)]
pub enum Res {
    /// emit returned Ok(n)
    OkN(usize),
    /// flush returned Ok(())
    OkUnit,
    /// returned Err; the id of the injected failure it carries, if it could be identified
    Err(Option<u64>),
    /// drop returned (no result)
    Dropped,
    Panicked(String),
}

#[derive(Clone, Debug)]
pub struct Step {
    pub op: Op,
    pub attempts: Vec<Attempt>,
    pub res: Res,
}

#[derive(Clone, Debug)]
pub struct FrameViolation {
    pub rule: &'static str,
    pub class: &'static str,
    pub detail: String,
    pub step: usize,
    /// true if an injected failure happened at or before this step
    pub after_fault: bool,
}

#[derive(Clone, Debug, PartialEq, Eq, Hash)]
pub enum Outcome {
    Buffered,
    PreFlushBuffered,
    Bypass,
    FlushThenBypass,
    ExactFillWrite,
    PreFlushExactFillWrite,
    FlushEmpty,
    FlushWrite,
    DropEmpty,
    DropWrite,
    FailedPreFlush,
    FailedBypass,
    FailedDirect,
    FailedFlush,
    FailedDrop,
    Retried,
    Other,
}

impl Outcome {
    pub fn code(&self) -> char {
        match self {
            Outcome::Buffered => 'b',
            Outcome::PreFlushBuffered => 'P',
            Outcome::Bypass => 'Y',
            Outcome::FlushThenBypass => 'Z',
            Outcome::ExactFillWrite => 'X',
            Outcome::PreFlushExactFillWrite => 'Q',
            Outcome::FlushEmpty => 'f',
            Outcome::FlushWrite => 'F',
            Outcome::DropEmpty => 'd',
            Outcome::DropWrite => 'D',
            Outcome::FailedPreFlush => '1',
            Outcome::FailedBypass => '2',
            Outcome::FailedDirect => '3',
            Outcome::FailedFlush => '4',
            Outcome::FailedDrop => '5',
            Outcome::Retried => 'r',
            Outcome::Other => '?',
        }
    }
    pub fn nontrivial(&self) -> bool {
        !matches!(self, Outcome::Buffered | Outcome::FlushEmpty | Outcome::DropEmpty)
    }
}

struct Line {
    step: usize,
    bytes: Vec<u8>,
}

pub struct FrameChecker {
    pub cap: usize,
    pub term: Vec<u8>,
    pending: VecDeque<Line>,
    fill: usize,
    written: Vec<(usize, Vec<u8>)>,
    fault_seen: bool,
    /// false when failed attempts cannot be observed (their bytes are unknown)
    pub outcomes: Vec<Outcome>,
    pub accepted: usize,
    pub datagrams: usize,
    step_no: usize,
    dropped: bool,
    /// C07 runs: timing-of-writes (F4) deviations are not this property's business; count them and keep the model going
    pub tolerate_f4: bool,
    pub f4_tolerated: u64,
}

fn show(b: &[u8]) -> String {
    crate::json::clip_bytes(b, 120)
}

impl FrameChecker {
    pub fn new(cap: usize, term: &[u8]) -> FrameChecker {
        FrameChecker {
            cap,
            term: term.to_vec(),
            pending: VecDeque::new(),
            fill: 0,
            written: Vec::new(),
            fault_seen: false,
            outcomes: Vec::new(),
            accepted: 0,
            datagrams: 0,
            step_no: 0,
            dropped: false,
            tolerate_f4: false,
            f4_tolerated: 0,
        }
    }

    fn f4(&mut self, class: &'static str, detail: String) -> Result<(), FrameViolation> {
        if self.tolerate_f4 {
            self.f4_tolerated += 1;
            Ok(())
        } else {
            Err(self.viol("F4", class, detail))
        }
    }

    pub fn pending_len(&self) -> usize {
        self.pending.len()
    }

    pub fn fill(&self) -> usize {
        self.fill
    }

    fn concat_pending(&self, k: usize) -> Vec<u8> {
        let mut v = Vec::new();
        for l in self.pending.iter().take(k) {
            v.extend_from_slice(&l.bytes);
        }
        v
    }

    fn viol(&self, rule: &'static str, class: &'static str, detail: String) -> FrameViolation {
        FrameViolation { rule, class, detail, step: self.step_no, after_fault: self.fault_seen }
    }

    /// Classify bytes that are not what the model expects.
    fn classify_bad_write(&self, bytes: &[u8], cur_metric: Option<&[u8]>) -> (&'static str, &'static str, String) {
        if bytes.len() > self.cap && cur_metric.map(|m| m != bytes).unwrap_or(true) {
            if let Some(m) = cur_metric {
                let mut mt = m.to_vec();
                mt.extend_from_slice(&self.term);
                if mt == bytes && m.len() + self.term.len() > self.cap {
                    return ("F1", "bypass-with-terminator", format!("oversize metric written with its terminator appended: {:?}", show(bytes)));
                }
            }
            return ("F1", "exceeds-capacity", format!("write of {} bytes exceeds the capacity {}: {:?}", bytes.len(), self.cap, show(bytes)));
        }
        // a whole-line concatenation of lines already written => duplicate
        for (_, w) in &self.written {
            if w.len() > self.term.len() && bytes.len() >= w.len() && (bytes.starts_with(w) || bytes.ends_with(w)) {
                // crude but sufficient: contains an already written whole line at an edge
                if self.pending.iter().all(|l| l.bytes != *w) {
                    return ("F2", "written-twice", format!("write {:?} repeats the already written line {:?}", show(bytes), show(w)));
                }
            }
        }
        // proper prefix / part of the pending data => a line was cut
        let all = self.concat_pending(self.pending.len());
        if !bytes.is_empty() && all.starts_with(bytes) {
            return ("F1", "partial-line", format!("write {:?} ends inside a line (pending {:?})", show(bytes), show(&all)));
        }
        if let Some(m) = cur_metric {
            let mut with_cur = all.clone();
            with_cur.extend_from_slice(m);
            if with_cur.starts_with(bytes) || {
                let mut w2 = with_cur.clone();
                w2.extend_from_slice(&self.term);
                w2.starts_with(bytes)
            } {
                return ("F1", "partial-line", format!("write {:?} ends inside a line", show(bytes)));
            }
        }
        // out of order: some later pending line first
        for (i, l) in self.pending.iter().enumerate() {
            if i > 0 && !l.bytes.is_empty() && bytes.starts_with(&l.bytes) {
                return ("F2", "out-of-order", format!("write {:?} starts with pending line #{} instead of the oldest", show(bytes), i));
            }
        }
        ("F1", "alien-bytes", format!("write {:?} is neither whole pending lines nor the current oversize metric (pending {:?})", show(bytes), show(&all)))
    }

    /// Try to interpret an attempt as a buffer write of the first k pending lines. Returns k.
    fn match_buffer_write(&self, bytes: &[u8]) -> Option<usize> {
        let mut acc: Vec<u8> = Vec::new();
        for (i, l) in self.pending.iter().enumerate() {
            acc.extend_from_slice(&l.bytes);
            if acc.len() > bytes.len() {
                return None;
            }
            if acc == bytes {
                // empty lines (empty metric + empty terminator) make k ambiguous: take the largest k with equal bytes
                let mut k = i + 1;
                while k < self.pending.len() && self.pending[k].bytes.is_empty() {
                    k += 1;
                }
                return Some(k);
            }
        }
        None
    }

    fn commit_written(&mut self, k: usize) {
        for _ in 0..k {
            let l = self.pending.pop_front().unwrap();
            self.fill -= l.bytes.len();
            self.written.push((l.step, l.bytes));
        }
        self.datagrams += 1;
    }

    /// Consume buffer-write attempts (of pending data) from `attempts[*i..]`.
    /// Returns Ok(Some(id)) if a non-retried failure ended the sequence, Ok(None) if it ended with success or
    /// there were none; Err(violation) if an attempt has the wrong shape.
    fn consume_buffer_writes(&mut self, attempts: &[Attempt], i: &mut usize, cur_metric: Option<&[u8]>, wrote: &mut bool, retried: &mut bool) -> Result<Option<u64>, FrameViolation> {
        // an `Interrupted` attempt may be retried (next attempt carries the same bytes) or returned to the caller
        // (then it is the failure that ended the sequence)
        let mut interrupted: Option<u64> = None;
        let r = self.consume_buffer_writes_inner(attempts, i, cur_metric, wrote, retried, &mut interrupted)?;
        Ok(r.or(interrupted))
    }

    fn consume_buffer_writes_inner(
        &mut self,
        attempts: &[Attempt],
        i: &mut usize,
        cur_metric: Option<&[u8]>,
        wrote: &mut bool,
        retried: &mut bool,
        interrupted: &mut Option<u64>,
    ) -> Result<Option<u64>, FrameViolation> {
        while *i < attempts.len() {
            let a = &attempts[*i];
            match &a.bytes {
                None => {
                    // unobserved failed attempt
                    *i += 1;
                    self.fault_seen = true;
                    match a.out {
                        AOut::Failed(id) => return Ok(Some(id)),
                        AOut::Interrupted(id) => {
                            *retried = true;
                            *interrupted = Some(id);
                            continue;
                        }
                        AOut::Ok => unreachable!("unobserved attempts are failures"),
                    }
                }
                Some(bytes) => {
                    if self.pending.is_empty() {
                        return Ok(None);
                    }
                    let k = match self.match_buffer_write(bytes) {
                        Some(k) => k,
                        None => return Ok(None), // not a buffer write: let the caller interpret it
                    };
                    if bytes.len() > self.cap {
                        return Err(self.viol("F1", "exceeds-capacity", format!("buffer write of {} bytes exceeds the capacity {}", bytes.len(), self.cap)));
                    }
                    *i += 1;
                    match a.out {
                        AOut::Ok => {
                            let all = self.pending.len();
                            self.commit_written(k);
                            *wrote = true;
                            *interrupted = None;
                            if k < all {
                                // legal framing, but not greedy: the rest could have gone in the same datagram?
                                // only if it would still have fitted the capacity
                                let rest: usize = self.pending.iter().map(|l| l.bytes.len()).sum();
                                if bytes.len() + rest <= self.cap {
                                    self.f4("partial-flush", format!("buffer write carried {} of {} pending lines although all fitted in one datagram", k, all))?;
                                    // tolerated: the rest may follow in further writes of the same call
                                    continue;
                                }
                            }
                            let _ = cur_metric;
                            return Ok(None);
                        }
                        AOut::Failed(id) => {
                            self.fault_seen = true;
                            return Ok(Some(id));
                        }
                        AOut::Interrupted(id) => {
                            self.fault_seen = true;
                            *retried = true;
                            *interrupted = Some(id);
                            continue;
                        }
                    }
                }
            }
        }
        Ok(None)
    }

    pub fn step(&mut self, s: &Step) -> Result<Outcome, FrameViolation> {
        self.step_no += 1;
        if let Res::Panicked(msg) = &s.res {
            return Err(self.viol("F3", "panicked", format!("the call panicked: {}", msg)));
        }
        match &s.op {
            Op::Emit(m) => self.step_emit(m, s),
            Op::Flush => self.step_flush(s, false),
            Op::Drop => self.step_flush(s, true),
            Op::Query => {
                if let Some(a) = s.attempts.first() {
                    let d = format!("a step that gives no reason to write (a read-only call such as stats(), a pause, the drop of another client of the sink) was followed by {:?} on the socket", a.bytes.as_ref().map(|b| show(b)));
                    self.f4("write-on-query", d)?;
                    // tolerated: judge the writes as a flush would be judged
                    let s2 = Step { op: Op::Flush, attempts: s.attempts.clone(), res: Res::OkUnit };
                    return self.step_flush(&s2, false).map(|_| Outcome::Other).or(Ok(Outcome::Other));
                }
                Ok(Outcome::FlushEmpty)
            }
        }
    }

    fn check_err_identity(&self, res: &Res, failed: Option<u64>, what: &str) -> Result<(), FrameViolation> {
        match (res, failed) {
            (Res::Err(Some(id)), Some(f)) if *id == f => Ok(()),
            (Res::Err(None), Some(_)) => Ok(()), // error could not be identified (far-end observation)
            (Res::Err(Some(id)), Some(f)) => Err(self.viol("F3", "wrong-error", format!("{} returned the error of attempt {} but attempt {} is the one that failed", what, id, f))),
            (Res::Err(_), None) => Err(self.viol("F3", "spurious-error", format!("{} returned an error although no write attempt of this call failed", what))),
            _ => Ok(()),
        }
    }

    fn step_emit(&mut self, m: &[u8], s: &Step) -> Result<Outcome, FrameViolation> {
        let mut line = m.to_vec();
        line.extend_from_slice(&self.term);
        let req = line.len();
        let a = &s.attempts;
        let mut i = 0usize;
        let mut wrote = false;
        let mut retried = false;
        let fill_before = self.fill;

        if req > self.cap {
            // ---- bypass path (an optional flush of pending data first is tolerated: the line does not fit) ----
            let mut flushed_first = false;
            if !self.pending.is_empty() && a.len() > 1 {
                let failed = self.consume_buffer_writes(a, &mut i, Some(m), &mut wrote, &mut retried)?;
                if let Some(id) = failed {
                    self.check_err_identity(&s.res, Some(id), "emit")?;
                    if !matches!(s.res, Res::Err(_)) {
                        return Err(self.viol("F3", "failure-not-reported", "oversize emit returned Ok although flushing the pending data failed and nothing else was written".into()));
                    }
                    if i != a.len() {
                        return Err(self.viol("F3", "write-after-failure", "further write attempts after a failed flush in the same emit".into()));
                    }
                    return Ok(Outcome::FailedPreFlush);
                }
                flushed_first = wrote;
            }
            // the bypass attempt(s)
            let mut last_failed: Option<u64> = None;
            let mut done = false;
            while i < a.len() {
                let at = &a[i];
                i += 1;
                match &at.bytes {
                    None => {
                        self.fault_seen = true;
                        if let AOut::Failed(id) | AOut::Interrupted(id) = at.out {
                            last_failed = Some(id);
                        }
                    }
                    Some(b) => {
                        if b.as_slice() != m {
                            let (rule, class, detail) = self.classify_bad_write(b, Some(m));
                            return Err(self.viol(rule, class, detail));
                        }
                        match at.out {
                            AOut::Ok => {
                                if done {
                                    return Err(self.viol("F2", "written-twice", "the oversize metric was written twice in its own emit".into()));
                                }
                                done = true;
                                last_failed = None;
                                self.datagrams += 1;
                                self.written.push((self.step_no, m.to_vec()));
                            }
                            AOut::Failed(id) | AOut::Interrupted(id) => {
                                self.fault_seen = true;
                                last_failed = Some(id);
                            }
                        }
                    }
                }
            }
            return match (&s.res, done) {
                (Res::OkN(n), true) => {
                    if *n != m.len() {
                        return Err(self.viol("F2", "return-count", format!("emit returned Ok({}) for a metric of {} bytes", n, m.len())));
                    }
                    self.accepted += 1;
                    Ok(if flushed_first { Outcome::FlushThenBypass } else { Outcome::Bypass })
                }
                (Res::OkN(_), false) => Err(self.viol(
                    if self.fault_seen && last_failed.is_some() { "F3" } else { "F2" },
                    "oversize-not-written",
                    "emit of an oversize metric returned Ok but the metric was not written during the call".into(),
                )),
                (Res::Err(_), true) => Err(self.viol("F3", "err-but-written", "emit returned an error although its oversize metric was written".into())),
                (Res::Err(_), false) => {
                    self.check_err_identity(&s.res, last_failed, "emit")?;
                    Ok(Outcome::FailedBypass)
                }
                (r, _) => Err(self.viol("F3", "bad-result", format!("unexpected result {:?} for emit", r))),
            };
        }

        // ---- the line fits into an empty buffer ----
        if req == 0 {
            // empty metric with an empty terminator: there are no bytes to write, ever
            if !a.is_empty() {
                if let Some(b) = &a[0].bytes {
                    if self.match_buffer_write(b).is_some() {
                        return Err(self.viol("F4", "unneeded-flush", "data was written during the emit of an empty line".into()));
                    }
                    let (rule, class, detail) = self.classify_bad_write(b, Some(m));
                    return Err(self.viol(rule, class, detail));
                }
            }
            return match &s.res {
                Res::OkN(0) => {
                    self.accepted += 1;
                    Ok(Outcome::Buffered)
                }
                Res::OkN(n) => Err(self.viol("F2", "return-count", format!("emit returned Ok({}) for an empty metric", n))),
                Res::Err(_) => Err(self.viol("F3", "spurious-error", "emit returned an error although no write attempt of this call failed".into())),
                r => Err(self.viol("F3", "bad-result", format!("unexpected result {:?} for emit", r))),
            };
        }
        let need_flush = req > self.cap.saturating_sub(self.fill);
        // phase 1: pre-flush
        let before_i = i;
        let pending_before = self.pending.len();
        let failed = self.consume_buffer_writes(a, &mut i, Some(m), &mut wrote, &mut retried)?;
        let preflush_attempted = i > before_i;
        if preflush_attempted && !need_flush && pending_before > 0 {
            // a write happened although the line still fitted: allowed only as the exact-fill write AFTER buffering,
            // which would carry this line too - a write of the old pending alone is premature
            if wrote || failed.is_some() {
                self.f4("unneeded-flush", format!("buffered data was written although the next line ({} bytes incl. terminator) still fitted into the remaining {} bytes", req, self.cap - fill_before))?;
            }
        }
        if let Some(id) = failed {
            // failed pre-flush: the emit must report it, buffer nothing, write nothing more
            if let Res::OkN(_) = s.res {
                // tolerated by the letter of C07 only if the line is kept; the model then overflows and later writes are judged
                self.pending.push_back(Line { step: self.step_no, bytes: line });
                self.fill += req;
                self.accepted += 1;
                return Ok(Outcome::Other);
            }
            self.check_err_identity(&s.res, Some(id), "emit")?;
            if i != a.len() {
                return Err(self.viol("F3", "write-after-failure", "further write attempts after a failed flush in the same emit".into()));
            }
            return Ok(Outcome::FailedPreFlush);
        }
        let preflushed = wrote;
        // phase 2: buffer the line
        self.pending.push_back(Line { step: self.step_no, bytes: line.clone() });
        self.fill += req;
        // phase 3: optional exact-fill write (carries everything pending including this line)
        let mut exact = false;
        let mut direct_failed: Option<u64> = None;
        if i < a.len() {
            if self.fill == self.cap || (self.fill > self.cap) {
                let mut wrote2 = false;
                let f2 = self.consume_buffer_writes(a, &mut i, Some(m), &mut wrote2, &mut retried)?;
                exact = wrote2;
                direct_failed = f2;
            }
        }
        if i < a.len() {
            // unexplained attempt
            let at = &a[i];
            if let Some(b) = &at.bytes {
                // is it a premature write of pending data including the new line (flush after every write)?
                if self.match_buffer_write(b).is_some() {
                    self.f4("unneeded-flush", format!("data was written although {} bytes of room remained", self.cap.saturating_sub(self.fill)))?;
                    // tolerated: treat it as an (early) write of the pending data including this line
                    let mut w3 = false;
                    let f3 = self.consume_buffer_writes(a, &mut i, Some(m), &mut w3, &mut retried)?;
                    if let Some(id) = f3 {
                        return match &s.res {
                            Res::Err(_) => {
                                self.check_err_identity(&s.res, Some(id), "emit")?;
                                let l = self.pending.pop_back().unwrap();
                                self.fill -= l.bytes.len();
                                Ok(Outcome::FailedDirect)
                            }
                            _ => {
                                self.accepted += 1;
                                Ok(Outcome::Other)
                            }
                        };
                    }
                    if i == a.len() {
                        return match &s.res {
                            Res::OkN(n) if *n == m.len() => {
                                self.accepted += 1;
                                Ok(Outcome::Other)
                            }
                            Res::OkN(n) => Err(self.viol("F2", "return-count", format!("emit returned Ok({}) for a metric of {} bytes", n, m.len()))),
                            Res::Err(_) => Err(self.viol("F3", "spurious-error", "emit returned an error although no write attempt of this call failed".into())),
                            r => Err(self.viol("F3", "bad-result", format!("unexpected result {:?} for emit", r))),
                        };
                    }
                }
                // undo the buffering for classification purposes
                let (rule, class, detail) = self.classify_bad_write(b, Some(m));
                return Err(self.viol(rule, class, detail));
            }
            return Err(self.viol("F3", "unexplained-failure", "a failed write attempt that no rule explains".into()));
        }
        if let Some(id) = direct_failed {
            // the direct write of the just-buffered data failed
            match &s.res {
                Res::Err(_) => {
                    self.check_err_identity(&s.res, Some(id), "emit")?;
                    // the emit reported an error: its metric must not be pending any more
                    let l = self.pending.pop_back().unwrap();
                    self.fill -= l.bytes.len();
                    return Ok(Outcome::FailedDirect);
                }
                Res::OkN(n) => {
                    if *n != m.len() {
                        return Err(self.viol("F2", "return-count", format!("emit returned Ok({}) for a metric of {} bytes", n, m.len())));
                    }
                    self.accepted += 1;
                    return Ok(Outcome::Other);
                }
                r => return Err(self.viol("F3", "bad-result", format!("unexpected result {:?} for emit", r))),
            }
        }
        match &s.res {
            Res::OkN(n) => {
                if *n != m.len() {
                    return Err(self.viol("F2", "return-count", format!("emit returned Ok({}) for a metric of {} bytes", n, m.len())));
                }
                self.accepted += 1;
            }
            Res::Err(_) => {
                // no attempt failed, yet the emit failed
                return Err(self.viol("F3", "spurious-error", "emit returned an error although no write attempt of this call failed".into()));
            }
            r => return Err(self.viol("F3", "bad-result", format!("unexpected result {:?} for emit", r))),
        }
        Ok(match (preflushed, exact, retried) {
            (true, true, _) => Outcome::PreFlushExactFillWrite,
            (true, false, _) => Outcome::PreFlushBuffered,
            (false, true, _) => Outcome::ExactFillWrite,
            (false, false, true) => Outcome::Retried,
            (false, false, false) => Outcome::Buffered,
        })
    }

    fn step_flush(&mut self, s: &Step, is_drop: bool) -> Result<Outcome, FrameViolation> {
        let a = &s.attempts;
        let mut i = 0usize;
        let mut wrote = false;
        let mut retried = false;
        let what = if is_drop { "drop" } else { "flush" };
        let had_pending = !self.pending.is_empty();
        let mut failed: Option<u64> = None;
        // several successful writes are tolerated as long as each carries whole pending lines in order
        // (partial-flush is judged inside consume_buffer_writes)
        loop {
            let before = i;
            let f = self.consume_buffer_writes(a, &mut i, None, &mut wrote, &mut retried)?;
            if f.is_some() {
                failed = f;
                break;
            }
            if i == before || i >= a.len() {
                break;
            }
        }
        if i < a.len() {
            let at = &a[i];
            if let Some(b) = &at.bytes {
                if !had_pending || self.pending.is_empty() {
                    if self.written.iter().any(|(_, w)| w.len() > self.term.len() && b.ends_with(w)) {
                        return Err(self.viol("F2", "written-twice", format!("{} wrote {:?} although nothing was buffered", what, show(b))));
                    }
                    return Err(self.viol("F2", "flush-writes-when-empty", format!("{} wrote {:?} although nothing was buffered", what, show(b))));
                }
                let (rule, class, detail) = self.classify_bad_write(b, None);
                return Err(self.viol(rule, class, detail));
            }
            return Err(self.viol("F3", "unexplained-failure", format!("a failed write attempt in {} that no rule explains", what)));
        }
        if is_drop {
            self.dropped = true;
            if failed.is_none() && !self.pending.is_empty() {
                return Err(self.viol("F2", "lost-at-drop", format!("{} accepted line(s) were never written although the sink was dropped without any failure", self.pending.len())));
            }
            return Ok(if failed.is_some() { Outcome::FailedDrop } else if wrote { Outcome::DropWrite } else { Outcome::DropEmpty });
        }
        match (&s.res, failed) {
            (Res::OkUnit, None) => {
                if !self.pending.is_empty() {
                    return Err(self.viol("F2", "flush-left-data", format!("flush returned Ok but {} accepted line(s) were not written", self.pending.len())));
                }
                Ok(if wrote { Outcome::FlushWrite } else { Outcome::FlushEmpty })
            }
            (Res::OkUnit, Some(_)) => Ok(Outcome::Other), // tolerated by the letter of C07: data stays pending
            (Res::Err(_), f) => {
                self.check_err_identity(&s.res, f, "flush")?;
                Ok(Outcome::FailedFlush)
            }
            (r, _) => Err(self.viol("F3", "bad-result", format!("unexpected result {:?} for flush", r))),
        }
    }

    /// Number of datagrams in-order greedy packing would need for what has been written successfully,
    /// given where the explicit flushes were - reported as an observation only.
    pub fn written_lines(&self) -> usize {
        self.written.len()
    }
}

/// Which properties a frame violation is attributed to.
/// Fault-free histories: F1->C05, F2->C06, F4->C19, F3->C07. Histories with injected failures: F1/F2/F3
/// at or after the first failure -> C07 (F4 is not C07's business); "flush returned Ok but data is left" and
/// "lost at a drop whose own write did not fail" also -> C06, whose statement does not depend on earlier failures.
pub fn attribute(v: &FrameViolation) -> Vec<&'static str> {
    if v.after_fault {
        match (v.rule, v.class) {
            // C06 is unconditional about this: a flush that returns Ok leaves nothing buffered, a dropped sink has
            // written what it accepted unless the drop's own write failed - whatever failed earlier
            ("F2", "flush-left-data") | ("F2", "lost-at-drop") => vec!["C07", "C06"],
            // what a write may look like (whole lines within the capacity, or one metric that cannot fit, alone) does
            // not depend on what failed before either
            ("F1", _) => vec!["C07", "C05"],
            ("F2", _) | ("F3", _) => vec!["C07"],
            // "writes only when it must" holds whatever failed earlier: a refused write is no reason to write early later on
            ("F4", _) => vec!["C19"],
            _ => vec![],
        }
    } else {
        match (v.rule, v.class) {
            // a metric that cannot fit was not written in its own emit: it is now sitting in a buffer it does not fit
            // into (C05: "sent alone"), it was not written when it had to be (C19), and C06's "oversize in its own emit"
            ("F2", "oversize-not-written") => return vec!["C06", "C05", "C19"],
            _ => {}
        }
        match v.rule {
            "F1" => vec!["C05"],
            "F2" => vec!["C06"],
            "F3" => vec!["C07"],
            "F4" => vec!["C19"],
            _ => vec![],
        }
    }
}
