//! Drives every metric entry point of `StatsdClient` (22 built-in kind x value-type combinations,
//! user-defined value types for all 7 kinds, incr/decr) in the plain, tagged-try_send and quiet-send
//! forms, against a recording / scripted sink and a recording error handler, and computes from the
//! *supplied* pieces what must appear on the wire.

use crate::refmodel::{duration_ms, duration_ns, ref_name, Expect, Kind, Num, Tag};
use cadence::ext::{MetricValue, ToCounterValue, ToDistributionValue, ToGaugeValue, ToHistogramValue, ToMeterValue, ToSetValue, ToTimerValue};
use cadence::prelude::*;
use cadence::{ErrorKind, Metric, MetricBuilder, MetricError, MetricResult, MetricSink, StatsdClient};
use std::collections::VecDeque;
use std::io;
use std::sync::{Arc, Mutex};
use std::time::Duration;

// ------------------------------------------------------------------------------------------------
// Recording / scripted sink and error handler
// ------------------------------------------------------------------------------------------------

#[derive(Clone, Debug, PartialEq)]
pub enum SinkOutcome {
    Accept,
    Refuse(io::ErrorKind, String),
    /// Refuse with `scripted_refusal(shape, kind, msg)` (typed payloads, raw OS errors, a cadence error as payload ...).
    RefuseShape(u64, io::ErrorKind, String),
}

/// Payload type of its own for scripted refusals (an application's sink may wrap anything in an io::Error).
#[derive(Debug)]
pub struct ScriptedPayload(pub String);

impl std::fmt::Display for ScriptedPayload {
    fn fmt(&self, f: &mut std::fmt::Formatter<'_>) -> std::fmt::Result {
        write!(f, "{}", self.0)
    }
}

impl std::error::Error for ScriptedPayload {}

/// A refusal of shape `shape`: 0/1 message string, 2 typed payload, 3 a cadence `MetricError` (invalid-input kind) as
/// payload - what a relaying sink passes on when a second client refused -, 4 raw OS error, 5 an io::Error nested in
/// an io::Error. Whatever the shape, the caller must get an I/O-kind error carrying exactly this error.
pub fn scripted_refusal(shape: u64, kind: io::ErrorKind, msg: &str) -> io::Error {
    match shape % 6 {
        2 => io::Error::new(kind, ScriptedPayload(msg.to_string())),
        3 => {
            let inner: MetricError = MetricError::from((ErrorKind::InvalidInput, "scripted: u64 overflow"));
            io::Error::new(kind, inner)
        }
        4 => io::Error::from_raw_os_error([11, 111, 90, 105, 32, 2, 13, 4][(crate::rng::hash_str(msg) % 8) as usize]),
        5 => io::Error::new(kind, io::Error::new(io::ErrorKind::Other, msg.to_string())),
        _ => io::Error::new(kind, msg.to_string()),
    }
}

#[derive(Default, Debug)]
pub struct SinkLog {
    /// Every string handed to `emit`, with whether it was accepted.
    pub emits: Vec<(String, bool)>,
    /// Scripted outcomes for the next emits; when empty the sink accepts.
    pub script: VecDeque<SinkOutcome>,
    pub flushes: u64,
}

#[derive(Clone, Default)]
pub struct RecSink {
    pub log: Arc<Mutex<SinkLog>>,
}

impl RecSink {
    pub fn new() -> RecSink {
        RecSink::default()
    }
    pub fn emit_count(&self) -> usize {
        self.log.lock().unwrap().emits.len()
    }
    pub fn push_script(&self, o: SinkOutcome) {
        self.log.lock().unwrap().script.push_back(o);
    }
    pub fn emits_from(&self, from: usize) -> Vec<(String, bool)> {
        self.log.lock().unwrap().emits[from..].to_vec()
    }
    pub fn clear(&self) {
        let mut g = self.log.lock().unwrap();
        g.emits.clear();
        g.script.clear();
    }
}

/// Extra action run at the start of every `RecSink::emit` (e.g. a probe of what the calling thread still holds).
pub static EMIT_EXTRA: Mutex<Option<Arc<dyn Fn() + Send + Sync>>> = Mutex::new(None);

impl MetricSink for RecSink {
    fn emit(&self, metric: &str) -> io::Result<usize> {
        let extra = EMIT_EXTRA.lock().unwrap_or_else(|e| e.into_inner()).clone();
        if let Some(f) = extra {
            f();
        }
        let mut g = self.log.lock().unwrap();
        let o = g.script.pop_front().unwrap_or(SinkOutcome::Accept);
        match o {
            SinkOutcome::Accept => {
                g.emits.push((metric.to_string(), true));
                // what a sink returns with Ok is its own business (bytes, metrics taken, 0 ...): callers must not read
                // anything into it
                let len = metric.len();
                Ok(match crate::rng::hash_str(metric) % 6 {
                    0 => 0,
                    1 => 1,
                    2 => len.saturating_sub(1),
                    3 => len / 2,
                    4 => usize::MAX,
                    _ => len,
                })
            }
            SinkOutcome::Refuse(kind, msg) => {
                g.emits.push((metric.to_string(), false));
                Err(io::Error::new(kind, msg))
            }
            SinkOutcome::RefuseShape(shape, kind, msg) => {
                g.emits.push((metric.to_string(), false));
                Err(scripted_refusal(shape, kind, &msg))
            }
        }
    }
    fn flush(&self) -> io::Result<()> {
        self.log.lock().unwrap().flushes += 1;
        Ok(())
    }
}

/// What an error looked like from the outside.
#[derive(Clone, Debug, PartialEq)]
pub struct ErrInfo {
    pub kind: ErrorKind,
    /// kind and message of the io::Error found through `Error::source()`, if any.
    pub io: Option<(io::ErrorKind, String)>,
    pub text: String,
}

pub fn err_info(e: &MetricError) -> ErrInfo {
    let io = std::error::Error::source(e).and_then(|s| s.downcast_ref::<io::Error>()).map(|i| (i.kind(), i.to_string()));
    ErrInfo { kind: e.kind(), io, text: e.to_string() }
}

#[derive(Clone, Default)]
pub struct HandlerLog {
    pub log: Arc<Mutex<Vec<ErrInfo>>>,
}

impl HandlerLog {
    pub fn len(&self) -> usize {
        self.log.lock().unwrap().len()
    }
    pub fn from(&self, i: usize) -> Vec<ErrInfo> {
        self.log.lock().unwrap()[i..].to_vec()
    }
    pub fn clear(&self) {
        self.log.lock().unwrap().clear();
    }
}

/// Extra action run by the recording error handler after it logged the error.
pub static HANDLER_EXTRA: Mutex<Option<Arc<dyn Fn() + Send + Sync>>> = Mutex::new(None);

// ------------------------------------------------------------------------------------------------
// Client configuration
// ------------------------------------------------------------------------------------------------

#[derive(Clone, Debug, Default)]
pub struct ClientCfg {
    pub prefix_raw: String,
    pub default_tags: Vec<Tag>,
    pub default_container: Option<String>,
    /// Repeated with_container_id on the builder: the last one wins.
    pub earlier_containers: Vec<String>,
}

pub fn build_client(cfg: &ClientCfg, sink: RecSink, handler: Option<HandlerLog>) -> StatsdClient {
    build_client_on(cfg, sink, handler)
}

/// The same on any sink - in particular directly on the library's own sink types (a client may look at what it is built on).
pub fn build_client_on<S>(cfg: &ClientCfg, sink: S, handler: Option<HandlerLog>) -> StatsdClient
where
    S: MetricSink + Sync + Send + std::panic::RefUnwindSafe + 'static,
{
    // a client without any option is built through the short constructor
    if cfg.default_tags.is_empty() && cfg.default_container.is_none() && cfg.earlier_containers.is_empty() && handler.is_none() {
        return StatsdClient::from_sink(&cfg.prefix_raw, sink);
    }
    let mut b = StatsdClient::builder(&cfg.prefix_raw, sink);
    // the order of the builder calls must not matter (except among tags, whose order is their configured order):
    // the positions of the handler and of the container id among the tag calls are derived from the configuration
    let n = cfg.default_tags.len();
    let salt = crate::rng::hash_str(&cfg.prefix_raw) as usize ^ n.wrapping_mul(31) ^ cfg.default_container.as_deref().map(|c| c.len()).unwrap_or(7);
    let handler_pos = salt % (n + 1);
    let container_pos = (salt / 7) % (n + 1);
    let mut handler = handler;
    let mut put_container = cfg.default_container.clone();
    let mut earlier = cfg.earlier_containers.clone();
    let install_handler = |b: cadence::StatsdClientBuilder, h: HandlerLog| -> cadence::StatsdClientBuilder {
        b.with_error_handler(move |e: MetricError| {
            let info = err_info(&e);
            h.log.lock().unwrap().push(info);
            // optional extra action installed by a driver (e.g. the handler itself sending a metric)
            let f = HANDLER_EXTRA.lock().unwrap_or_else(|e| e.into_inner()).clone();
            if let Some(f) = f {
                f();
            }
        })
    };
    for i in 0..=n {
        if i == handler_pos {
            if let Some(h) = handler.take() {
                b = install_handler(b, h);
            }
        }
        if i == container_pos {
            // repeated with_container_id on the builder: the last one wins
            for c in earlier.drain(..) {
                b = b.with_container_id(c);
            }
            if let Some(c) = put_container.take() {
                b = b.with_container_id(c);
            }
        }
        if i < n {
            let (k, v) = &cfg.default_tags[i];
            b = match k {
                Some(k) => b.with_tag(k.as_str(), v.as_str()),
                None => b.with_tag_value(v.as_str()),
            };
        }
    }
    b.build()
}

// ------------------------------------------------------------------------------------------------
// Values and entry points
// ------------------------------------------------------------------------------------------------

/// A user-defined value type reaching every `MetricValue` variant for every kind.
#[derive(Clone, Debug)]
pub struct UserVal(pub MetricValue);

/// A user-defined value type whose conversion always fails.
#[derive(Clone, Debug)]
pub struct UserErr;

macro_rules! impl_user {
    ($($tr:ident),*) => {
        $(
            impl $tr for UserVal { fn try_to_value(self) -> MetricResult<MetricValue> { Ok(self.0) } }
            impl $tr for UserErr { fn try_to_value(self) -> MetricResult<MetricValue> {
                Err(MetricError::from((ErrorKind::InvalidInput, "user value rejected")))
            } }
        )*
    };
}
impl_user!(ToCounterValue, ToTimerValue, ToGaugeValue, ToMeterValue, ToHistogramValue, ToDistributionValue, ToSetValue);

#[derive(Clone, Debug)]
pub enum Val {
    I64(i64),
    I32(i32),
    U64(u64),
    U32(u32),
    F64(f64),
    Dur(Duration),
    VU64(Vec<u64>),
    VF64(Vec<f64>),
    VDur(Vec<Duration>),
    /// user-defined type producing the given MetricValue
    User(MetricValue),
    /// user-defined type whose conversion fails
    UserErr,
    /// `incr` / `decr` (CountedExt): no value argument
    Incr,
    Decr,
}

impl Val {
    pub fn type_tag(&self) -> &'static str {
        match self {
            Val::I64(_) => "i64",
            Val::I32(_) => "i32",
            Val::U64(_) => "u64",
            Val::U32(_) => "u32",
            Val::F64(_) => "f64",
            Val::Dur(_) => "Duration",
            Val::VU64(_) => "Vec<u64>",
            Val::VF64(_) => "Vec<f64>",
            Val::VDur(_) => "Vec<Duration>",
            Val::User(MetricValue::Signed(_)) => "user:Signed",
            Val::User(MetricValue::PackedSigned(_)) => "user:PackedSigned",
            Val::User(MetricValue::Unsigned(_)) => "user:Unsigned",
            Val::User(MetricValue::PackedUnsigned(_)) => "user:PackedUnsigned",
            Val::User(MetricValue::Float(_)) => "user:Float",
            Val::User(MetricValue::PackedFloat(_)) => "user:PackedFloat",
            Val::UserErr => "user:Err",
            Val::Incr => "incr",
            Val::Decr => "decr",
        }
    }
    pub fn to_json(&self) -> crate::Json {
        crate::Json::Str(crate::json::clip(&format!("{:?}", self), 200))
    }
}

/// The 22 built-in (kind, value type) entry points, by type tag.
pub const BUILTIN: &[(Kind, &str)] = &[
    (Kind::Counter, "i64"),
    (Kind::Counter, "i32"),
    (Kind::Counter, "u64"),
    (Kind::Counter, "u32"),
    (Kind::Timer, "u64"),
    (Kind::Timer, "Duration"),
    (Kind::Timer, "Vec<u64>"),
    (Kind::Timer, "Vec<Duration>"),
    (Kind::Gauge, "u64"),
    (Kind::Gauge, "f64"),
    (Kind::Meter, "u64"),
    (Kind::Histogram, "u64"),
    (Kind::Histogram, "f64"),
    (Kind::Histogram, "Duration"),
    (Kind::Histogram, "Vec<u64>"),
    (Kind::Histogram, "Vec<f64>"),
    (Kind::Histogram, "Vec<Duration>"),
    (Kind::Distribution, "u64"),
    (Kind::Distribution, "f64"),
    (Kind::Distribution, "Vec<u64>"),
    (Kind::Distribution, "Vec<f64>"),
    (Kind::Set, "i64"),
];

pub fn builtin_accepts(kind: Kind, tag: &str) -> bool {
    BUILTIN.iter().any(|(k, t)| *k == kind && *t == tag)
}

#[derive(Clone, Copy, Debug, PartialEq, Eq, Hash)]
pub enum Form {
    /// `client.count(key, v)` - returns the result
    Plain,
    /// `client.count_with_tags(key, v)...try_send()`
    Tagged,
    /// `client.count_with_tags(key, v)...send()`
    Quiet,
}

impl Form {
    pub fn tag(self) -> &'static str {
        match self {
            Form::Plain => "plain",
            Form::Tagged => "tagged",
            Form::Quiet => "quiet",
        }
    }
}

/// One decoration call on the builder, applied in order.
#[derive(Clone, Debug)]
pub enum Deco {
    Tag(String, String),
    TagValue(String),
    Rate(f64),
    Container(String),
    Timestamp(u64),
}

#[derive(Clone, Debug)]
pub struct CallSpec {
    pub kind: Kind,
    pub val: Val,
    pub key: String,
    pub form: Form,
    /// Empty for the plain form.
    pub decos: Vec<Deco>,
}

impl CallSpec {
    pub fn to_json(&self) -> crate::Json {
        crate::jobj! {
            "kind" => self.kind.name(),
            "value_type" => self.val.type_tag(),
            "value" => self.val.to_json(),
            "key" => crate::json::clip(&self.key, 120),
            "form" => self.form.tag(),
            "decorations" => crate::json::clip(&format!("{:?}", self.decos), 400),
        }
    }
}

/// What the wire must carry for this value when sent as `kind`; `Err(())` = the value must be rejected
/// with an invalid-input error and nothing sent.
pub fn expected_values(kind: Kind, val: &Val) -> Result<Vec<Num>, ()> {
    fn nonempty(v: Vec<Num>) -> Result<Vec<Num>, ()> {
        if v.is_empty() {
            Err(())
        } else {
            Ok(v)
        }
    }
    let dur = |d: &Duration| -> Result<u64, ()> {
        match kind {
            Kind::Timer => duration_ms(*d).ok_or(()),
            Kind::Histogram => duration_ns(*d).ok_or(()),
            _ => panic!("Duration is not a value type of {:?}", kind),
        }
    };
    match val {
        Val::I64(v) => Ok(vec![Num::I(*v)]),
        Val::I32(v) => Ok(vec![Num::I(*v as i64)]),
        Val::U64(v) => Ok(vec![Num::U(*v)]),
        Val::U32(v) => Ok(vec![Num::U(*v as u64)]),
        Val::F64(v) => Ok(vec![Num::F(*v)]),
        Val::Dur(d) => Ok(vec![Num::U(dur(d)?)]),
        Val::VU64(v) => nonempty(v.iter().map(|x| Num::U(*x)).collect()),
        Val::VF64(v) => nonempty(v.iter().map(|x| Num::F(*x)).collect()),
        Val::VDur(v) => {
            let mut out = Vec::new();
            for d in v {
                out.push(Num::U(dur(d)?));
            }
            nonempty(out)
        }
        Val::User(mv) => match mv {
            MetricValue::Signed(x) => Ok(vec![Num::I(*x)]),
            MetricValue::Unsigned(x) => Ok(vec![Num::U(*x)]),
            MetricValue::Float(x) => Ok(vec![Num::F(*x)]),
            MetricValue::PackedSigned(v) => nonempty(v.iter().map(|x| Num::I(*x)).collect()),
            MetricValue::PackedUnsigned(v) => nonempty(v.iter().map(|x| Num::U(*x)).collect()),
            MetricValue::PackedFloat(v) => nonempty(v.iter().map(|x| Num::F(*x)).collect()),
        },
        Val::UserErr => Err(()),
        Val::Incr => Ok(vec![Num::I(1)]),
        Val::Decr => Ok(vec![Num::I(-1)]),
    }
}

/// The full expectation for a call on a client with configuration `cfg`.
pub fn expectation(cfg: &ClientCfg, spec: &CallSpec) -> Result<Expect, ()> {
    let values = expected_values(spec.kind, &spec.val)?;
    let mut tags: Vec<Tag> = cfg.default_tags.clone();
    let mut rate = None;
    let mut container = cfg.default_container.clone();
    let mut timestamp = None;
    for d in &spec.decos {
        match d {
            Deco::Tag(k, v) => tags.push((Some(k.clone()), v.clone())),
            Deco::TagValue(v) => tags.push((None, v.clone())),
            Deco::Rate(r) => rate = Some(*r),
            Deco::Container(c) => container = Some(c.clone()),
            Deco::Timestamp(t) => timestamp = Some(*t),
        }
    }
    Ok(Expect { name: ref_name(&cfg.prefix_raw, &spec.key), values, kind: spec.kind, rate, tags, container, timestamp })
}

#[derive(Clone, Debug, PartialEq)]
pub enum Ret {
    /// try_send / plain returned Ok(metric): the metric's `as_metric_str()`.
    Ok(String),
    Err(ErrInfo),
    /// `send()` returned (it returns nothing).
    Quiet,
}

fn ret_of<T: Metric>(r: MetricResult<T>) -> Ret {
    match r {
        Ok(m) => Ret::Ok(m.as_metric_str().to_string()),
        Err(e) => Ret::Err(err_info(&e)),
    }
}

fn decorate<'m, 'c, T>(mut b: MetricBuilder<'m, 'c, T>, decos: &'m [Deco]) -> MetricBuilder<'m, 'c, T>
where
    T: Metric + From<String>,
{
    for d in decos {
        b = match d {
            Deco::Tag(k, v) => b.with_tag(k, v),
            Deco::TagValue(v) => b.with_tag_value(v),
            Deco::Rate(r) => b.with_sampling_rate(*r),
            Deco::Container(c) => b.with_container_id(c),
            Deco::Timestamp(t) => b.with_timestamp(*t),
        };
    }
    b
}

fn finish<'m, 'c, T>(b: MetricBuilder<'m, 'c, T>, decos: &'m [Deco], form: Form) -> Ret
where
    T: Metric + From<String>,
{
    let b = decorate(b, decos);
    if UNSENT.with(|u| u.get()) {
        // the builder is made, decorated and let go without sending
        drop(b);
        return Ret::Quiet;
    }
    match form {
        Form::Quiet => {
            b.send();
            Ret::Quiet
        }
        _ => ret_of(b.try_send()),
    }
}

thread_local! {
    static UNSENT: std::cell::Cell<bool> = const { std::cell::Cell::new(false) };
}

/// Make the tagged builder for `spec`, decorate it, and drop it WITHOUT sending: nothing is sent and nobody is told
/// anything (a builder is not a call).
pub fn build_and_drop(client: &StatsdClient, spec: &CallSpec) {
    struct Reset;
    impl Drop for Reset {
        fn drop(&mut self) {
            UNSENT.with(|u| u.set(false));
        }
    }
    let _r = Reset;
    UNSENT.with(|u| u.set(true));
    let mut s2 = spec.clone();
    s2.form = Form::Tagged;
    let _ = call(client, &s2);
}

/// Is this (kind, value) combination callable at all (i.e. does it type-check in user code)?
pub fn callable(kind: Kind, val: &Val) -> bool {
    match val {
        Val::User(_) | Val::UserErr => true,
        Val::Incr | Val::Decr => kind == Kind::Counter,
        v => builtin_accepts(kind, v.type_tag()),
    }
}

/// Perform the call. Panics (of the library) propagate to the caller, who runs this under `panics::guard`.
pub fn call(client: &StatsdClient, spec: &CallSpec) -> Ret {
    let key = spec.key.as_str();
    let decos = spec.decos.as_slice();
    let form = spec.form;
    macro_rules! go {
        ($plain:ident, $tagged:ident, $v:expr) => {
            match form {
                Form::Plain => ret_of(client.$plain(key, $v)),
                _ => finish(client.$tagged(key, $v), decos, form),
            }
        };
    }
    macro_rules! by_kind {
        ($v:expr) => {
            match spec.kind {
                Kind::Counter => go!(count, count_with_tags, $v),
                Kind::Timer => go!(time, time_with_tags, $v),
                Kind::Gauge => go!(gauge, gauge_with_tags, $v),
                Kind::Meter => go!(meter, meter_with_tags, $v),
                Kind::Histogram => go!(histogram, histogram_with_tags, $v),
                Kind::Distribution => go!(distribution, distribution_with_tags, $v),
                Kind::Set => go!(set, set_with_tags, $v),
            }
        };
    }
    use Kind::*;
    match (spec.kind, &spec.val) {
        (_, Val::User(mv)) => by_kind!(UserVal(mv.clone())),
        (_, Val::UserErr) => by_kind!(UserErr),
        (Counter, Val::Incr) => match form {
            Form::Plain => ret_of(client.incr(key)),
            _ => finish(client.incr_with_tags(key), decos, form),
        },
        (Counter, Val::Decr) => match form {
            Form::Plain => ret_of(client.decr(key)),
            _ => finish(client.decr_with_tags(key), decos, form),
        },
        (Counter, Val::I64(v)) => go!(count, count_with_tags, *v),
        (Counter, Val::I32(v)) => go!(count, count_with_tags, *v),
        (Counter, Val::U64(v)) => go!(count, count_with_tags, *v),
        (Counter, Val::U32(v)) => go!(count, count_with_tags, *v),
        (Timer, Val::U64(v)) => go!(time, time_with_tags, *v),
        (Timer, Val::Dur(v)) => go!(time, time_with_tags, *v),
        (Timer, Val::VU64(v)) => go!(time, time_with_tags, v.clone()),
        (Timer, Val::VDur(v)) => go!(time, time_with_tags, v.clone()),
        (Gauge, Val::U64(v)) => go!(gauge, gauge_with_tags, *v),
        (Gauge, Val::F64(v)) => go!(gauge, gauge_with_tags, *v),
        (Meter, Val::U64(v)) => go!(meter, meter_with_tags, *v),
        (Histogram, Val::U64(v)) => go!(histogram, histogram_with_tags, *v),
        (Histogram, Val::F64(v)) => go!(histogram, histogram_with_tags, *v),
        (Histogram, Val::Dur(v)) => go!(histogram, histogram_with_tags, *v),
        (Histogram, Val::VU64(v)) => go!(histogram, histogram_with_tags, v.clone()),
        (Histogram, Val::VF64(v)) => go!(histogram, histogram_with_tags, v.clone()),
        (Histogram, Val::VDur(v)) => go!(histogram, histogram_with_tags, v.clone()),
        (Distribution, Val::U64(v)) => go!(distribution, distribution_with_tags, *v),
        (Distribution, Val::F64(v)) => go!(distribution, distribution_with_tags, *v),
        (Distribution, Val::VU64(v)) => go!(distribution, distribution_with_tags, v.clone()),
        (Distribution, Val::VF64(v)) => go!(distribution, distribution_with_tags, v.clone()),
        (Set, Val::I64(v)) => go!(set, set_with_tags, *v),
        (k, v) => panic!("harness bug: ({:?}, {}) is not an entry point", k, v.type_tag()),
    }
}

/// Standalone constructors (`Counter::new` ...): text for (normalised prefix, key, value), if one exists
/// for this kind and value type.
pub fn standalone(kind: Kind, prefix_norm: &str, key: &str, val: &Val) -> Option<String> {
    use cadence::{Counter, Distribution, Gauge, Histogram, Meter, Set, Timer};
    let s = match (kind, val) {
        (Kind::Counter, Val::I64(v)) => Counter::new(prefix_norm, key, *v).as_metric_str().to_string(),
        (Kind::Timer, Val::U64(v)) => Timer::new(prefix_norm, key, *v).as_metric_str().to_string(),
        (Kind::Gauge, Val::U64(v)) => Gauge::new(prefix_norm, key, *v).as_metric_str().to_string(),
        (Kind::Gauge, Val::F64(v)) => Gauge::new_f64(prefix_norm, key, *v).as_metric_str().to_string(),
        (Kind::Meter, Val::U64(v)) => Meter::new(prefix_norm, key, *v).as_metric_str().to_string(),
        (Kind::Histogram, Val::U64(v)) => Histogram::new(prefix_norm, key, *v).as_metric_str().to_string(),
        (Kind::Histogram, Val::F64(v)) => Histogram::new_f64(prefix_norm, key, *v).as_metric_str().to_string(),
        (Kind::Distribution, Val::U64(v)) => Distribution::new(prefix_norm, key, *v).as_metric_str().to_string(),
        (Kind::Distribution, Val::F64(v)) => Distribution::new_f64(prefix_norm, key, *v).as_metric_str().to_string(),
        (Kind::Set, Val::I64(v)) => Set::new(prefix_norm, key, *v).as_metric_str().to_string(),
        _ => return None,
    };
    Some(s)
}
