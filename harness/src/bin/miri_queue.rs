//! miri_queue: compact queuing-sink histories for Miri (hooks off, no /proc, no sockets). Miri's random
//! preemptive scheduler (-Zmiri-many-seeds) explores interleavings of producers, the worker and the dropper;
//! waits use a one-hour timeout on Miri's VIRTUAL clock, which only jumps when every thread is blocked: a delivery
//! or a release that can never happen therefore times out at once in real time and is reported with its phase -
//! a purely logical signal (an untimed wait would be reported by Miri as "the evaluated program deadlocked"). Data races / UB inside the dependencies that
//! the sink relies on (crossbeam-channel) would be reported by Miri as well.
//!
//!   miri_queue [scenario-set]      prints "miri_queue ok ..." and exits 0, or "QUEUE-ORACLE-FAILED ..." and exits 1

use cadence::{MetricSink, QueuingMetricSink};
use std::io;
use std::sync::{Arc, Condvar, Mutex};

#[derive(Default)]
struct Log {
    delivered: Vec<String>,
    in_call: bool,
    overlap: bool,
    sink_dropped: bool,
    handler_calls: Vec<String>,
}

struct Shared {
    st: Mutex<Log>,
    cv: Condvar,
}

struct RecSink {
    sh: Arc<Shared>,
}

impl MetricSink for RecSink {
    fn emit(&self, m: &str) -> io::Result<usize> {
        {
            let mut g = self.sh.st.lock().unwrap_or_else(|e| e.into_inner());
            if g.in_call {
                g.overlap = true;
            }
            g.in_call = true;
            g.delivered.push(m.to_string());
            self.sh.cv.notify_all();
        }
        std::thread::yield_now();
        {
            let mut g = self.sh.st.lock().unwrap_or_else(|e| e.into_inner());
            g.in_call = false;
        }
        if m.ends_with("|panic") {
            panic!("scripted-panic:{}", m);
        }
        if m.ends_with("|err") {
            return Err(io::Error::new(io::ErrorKind::Other, format!("scripted-error:{}", m)));
        }
        Ok(m.len())
    }
}

impl Drop for RecSink {
    fn drop(&mut self) {
        let mut g = self.sh.st.lock().unwrap_or_else(|e| e.into_inner());
        g.sink_dropped = true;
        self.sh.cv.notify_all();
    }
}

/// Wait (with a one-hour timeout) until `pred` holds. Under Miri the clock is virtual and only jumps when every thread
/// is blocked, so a timeout means "nothing can ever make this true" - it returns at once in real time.
fn wait_until(sh: &Shared, phase: &str, pred: impl Fn(&Log) -> bool) {
    let mut g = sh.st.lock().unwrap_or_else(|e| e.into_inner());
    let t0 = std::time::Instant::now();
    while !pred(&g) {
        let (g2, to) = sh.cv.wait_timeout(g, std::time::Duration::from_secs(3600)).unwrap_or_else(|e| e.into_inner());
        g = g2;
        if to.timed_out() && !pred(&g) && t0.elapsed() >= std::time::Duration::from_secs(3599) {
            let d = g.delivered.len();
            drop(g);
            fail(format!("phase={} nothing can make progress any more ({} metrics delivered so far)", phase, d));
        }
    }
}

fn fail(msg: String) -> ! {
    println!("QUEUE-ORACLE-FAILED {}", msg);
    std::process::exit(1);
}

/// One scenario: `producers` threads each emit `n` metrics through their own clone (some clones are dropped
/// early), outcome pattern by index; then every handle is dropped; everything accepted must be delivered exactly
/// once, per producer in order, one at a time; then the wrapped sink must be dropped.
fn scenario(cap: Option<usize>, producers: usize, n: usize, pattern: &[&str], extra_clone_drop: bool) -> (usize, usize) {
    let sh = Arc::new(Shared { st: Mutex::new(Log::default()), cv: Condvar::new() });
    let mut b = QueuingMetricSink::builder();
    if let Some(c) = cap {
        b = b.with_capacity(c);
    }
    let sh2 = sh.clone();
    let hsh = std::panic::AssertUnwindSafe(sh2);
    b = b.with_error_handler(move |e| {
        let mut g = hsh.st.lock().unwrap_or_else(|e| e.into_inner());
        g.handler_calls.push(e.to_string());
    });
    let q = b.build(RecSink { sh: sh.clone() });
    if extra_clone_drop {
        // dropping a clone must not stop anything
        let c = q.clone();
        drop(c);
    }
    let mut joins = Vec::new();
    for p in 0..producers {
        let h = q.clone();
        let pattern: Vec<String> = pattern.iter().map(|s| s.to_string()).collect();
        joins.push(std::thread::spawn(move || {
            let mut accepted = Vec::new();
            for k in 0..n {
                let m = format!("p{}.n{}|{}", p, k, pattern[(p + k) % pattern.len()]);
                match h.emit(&m) {
                    Ok(len) => {
                        if len != m.len() {
                            fail(format!("emit returned Ok({}) for {} bytes", len, m.len()));
                        }
                        accepted.push(m);
                    }
                    Err(e) => {
                        if e.to_string().contains("scripted") {
                            fail(format!("emit surfaced the wrapped sink's error: {}", e));
                        }
                    }
                }
            }
            // the producer's handle is dropped here, possibly while the queue still holds its metrics
            accepted
        }));
    }
    let mut accepted: Vec<Vec<String>> = Vec::new();
    for j in joins {
        accepted.push(j.join().expect("producer panicked"));
    }
    let total: usize = accepted.iter().map(|a| a.len()).sum();
    // counters while a handle is alive: wait (untimed) for delivery of everything accepted
    wait_until(&sh, "delivery", |g| g.delivered.len() >= total);
    let (s, d) = (q.submitted(), q.drained());
    if s != total as u64 || d != total as u64 || q.queued() != 0 {
        fail(format!("counters at rest: submitted={} drained={} queued={} but {} were accepted and delivered", s, d, q.queued(), total));
    }
    // last handle goes away: the wrapped sink must be released (untimed wait: Miri reports a deadlock otherwise)
    drop(q);
    wait_until(&sh, "release", |g| g.sink_dropped);
    let g = sh.st.lock().unwrap();
    if g.overlap {
        fail("two calls into the wrapped sink overlapped".into());
    }
    if g.delivered.len() != total {
        fail(format!("{} accepted, {} delivered", total, g.delivered.len()));
    }
    for (p, acc) in accepted.iter().enumerate() {
        let mine: Vec<&String> = g.delivered.iter().filter(|m| m.starts_with(&format!("p{}.", p))).collect();
        if mine.len() != acc.len() || mine.iter().zip(acc.iter()).any(|(a, b)| *a != b) {
            fail(format!("producer {}: delivered {:?} but accepted {:?}", p, mine, acc));
        }
    }
    let errs = g.delivered.iter().filter(|m| m.ends_with("|err")).count();
    if g.handler_calls.len() != errs {
        fail(format!("{} wrapped-sink errors but {} handler calls", errs, g.handler_calls.len()));
    }
    (total, g.delivered.iter().filter(|m| m.ends_with("|panic")).count())
}

/// Last drop with work still queued behind a slow start: the dropper races with the worker.
fn drop_race(cap: Option<usize>, n: usize) -> usize {
    let sh = Arc::new(Shared { st: Mutex::new(Log::default()), cv: Condvar::new() });
    let q = match cap {
        Some(c) => QueuingMetricSink::with_capacity(RecSink { sh: sh.clone() }, c),
        None => QueuingMetricSink::from(RecSink { sh: sh.clone() }),
    };
    let mut acc = 0;
    for k in 0..n {
        if q.emit(&format!("p0.n{}|{}", k, if k % 3 == 1 { "panic" } else { "ok" })).is_ok() {
            acc += 1;
        }
    }
    drop(q);
    wait_until(&sh, "release", |g| g.sink_dropped);
    let g = sh.st.lock().unwrap();
    if g.delivered.len() != acc {
        fail(format!("phase=release drop race: {} accepted before the last drop, {} delivered before the sink was released", acc, g.delivered.len()));
    }
    acc
}

/// The last handle is dropped at the very moment the worker finishes its last entry (the wrapped sink signals the
/// delivery from inside its emit): the stop request races with the worker's "anything left? then wait" decision. With
/// weak-memory emulation either side may read a stale counter or flag - the wrapped sink must be released all the same.
fn drop_after_delivery(cap: Option<usize>, n: usize) -> usize {
    let sh = Arc::new(Shared { st: Mutex::new(Log::default()), cv: Condvar::new() });
    let q = match cap {
        Some(c) => QueuingMetricSink::with_capacity(RecSink { sh: sh.clone() }, c),
        None => QueuingMetricSink::from(RecSink { sh: sh.clone() }),
    };
    let mut acc = 0;
    for k in 0..n {
        if q.emit(&format!("p0.n{}|ok", k)).is_ok() {
            acc += 1;
        }
    }
    wait_until(&sh, "delivery", |g| g.delivered.len() >= acc);
    drop(q);
    wait_until(&sh, "release", |g| g.sink_dropped);
    acc
}

fn main() {
    let set = std::env::args().nth(1).unwrap_or_else(|| "a".into());
    let mut total = 0;
    let mut panics = 0;
    let mut runs = 0;
    let scenarios: Vec<(Option<usize>, usize, usize, Vec<&str>, bool)> = match set.as_str() {
        "a" => vec![(None, 2, 3, vec!["ok"], true), (Some(1), 2, 3, vec!["ok", "err"], false), (Some(2), 1, 4, vec!["ok", "panic", "ok"], true)],
        "b" => vec![(Some(0), 1, 2, vec!["ok"], false), (None, 3, 2, vec!["panic", "ok"], true), (Some(3), 2, 4, vec!["err", "ok", "panic"], false)],
        _ => vec![(None, 2, 5, vec!["ok", "ok", "panic", "err"], true), (Some(1), 3, 3, vec!["ok"], true)],
    };
    for (cap, p, n, pat, extra) in scenarios {
        let (t, pn) = scenario(cap, p, n, &pat, extra);
        total += t;
        panics += pn;
        runs += 1;
    }
    for (cap, n) in [(Some(1usize), 3usize), (Some(2), 2), (None, 4), (Some(0), 1)] {
        total += drop_race(cap, n);
        runs += 1;
    }
    for k in 0..10usize {
        total += drop_after_delivery(if k % 3 == 0 { Some(1 + k % 2) } else { None }, 1 + k % 2);
        runs += 1;
    }
    println!("miri_queue ok set={} scenarios={} metrics_delivered={} scripted_panics={}", set, runs, total, panics);
}
