//! fmt_driver: reference-model monitors for C01 (format), C02 (numerics), C03 (one call / one emit /
//! truthful results), C04 (client-wide decoration). Each mode reports only the rules of its own property.
//!
//!   fmt_driver --mode c01|c02|c02-sweep|c03|c04 --seed S --shard I --cases N --out FILE
//!              [--case-seed X]          re-run exactly one generated case (replay)

use cadence::StatsdClient;
use cvh::callengine::*;
use cvh::json::clip;
use cvh::refmodel::*;
use cvh::rng::{mix, Rng};
use cvh::valgen::*;
use cvh::{jobj, panics, Args, Json, Report, Violation};
use std::io;

/// getenv interposer (see envpose.rs); not compiled into the coverage-guided targets
#[cfg(not(fuzzing))]
pub mod envpose {
    include!("../envpose.rs");
}

/// `--hostile-env N`: every environment variable the process asks for (outside the runtime's own) is reported as set.
fn hostile_env_on(args: &Args) {
    #[cfg(not(fuzzing))]
    envpose::HOSTILE_MODE.store(args.u64("hostile-env", 0) as u32, std::sync::atomic::Ordering::Relaxed);
    let _ = args;
}

fn hostile_env_report(rep: &mut Report, args: &Args) {
    #[cfg(not(fuzzing))]
    if args.u64("hostile-env", 0) != 0 {
        rep.obs("cases_run_in_a_hostile_environment", rep.evaluations);
        let q = envpose::queried();
        rep.obs("environment_variables_the_process_asked_for", q.len() as u64);
        if !q.is_empty() {
            rep.note(format!("environment variables asked for during the run (answered with a hostile value): {:?}", q));
        }
    }
    let _ = (rep, args);
}

fn main() {
    let args = Args::from_env();
    panics::install_hook();
    hostile_env_on(&args);
    let mode = args.str("mode", "c01");
    let code = match mode.as_str() {
        "c01" => run_cases(&args, "C01", case_c01),
        "c02" => run_cases(&args, "C02", case_c02),
        "c02-sweep" => sweep_c02(&args),
        "c03" => run_c03(&args),
        "c04" => run_cases(&args, "C04", case_c04),
        "fuzz-one" => {
            let prop = args.str("property", "C01");
            let mut rep = Report::new("fmt_driver", &prop);
            fuzz_case(&mut rep, &args, &cvh::fuzz::unhex(&args.str("hex", "")));
            hostile_env_report(&mut rep, &args);
    rep.finish(args.get("out"))
        }
        m => {
            eprintln!("unknown mode {}", m);
            2
        }
    };
    std::process::exit(code);
}

struct Ctx<'a> {
    rep: &'a mut Report,
    args: &'a Args,
    case_seed: u64,
    /// set when the case is driven by a fuzzer input instead of a case seed
    replay: Option<Vec<(&'static str, String)>>,
}

impl<'a> Ctx<'a> {
    fn violation(&mut self, property: &str, rule: &str, class: &str, detail: String, trace: Json) {
        let replay_args = match &self.replay {
            Some(r) => self.args.to_vec_with(r),
            None => self.args.to_vec_with(&[("case-seed", self.case_seed.to_string())]),
        };
        self.rep.violation(Violation { property: property.into(), rule: rule.into(), class: class.into(), detail, replay_args, trace });
    }
}

/// One fuzzer input: the bytes drive the case generator of the property under test (see cvh::fuzz).
fn fuzz_case(rep: &mut Report, args: &Args, data: &[u8]) {
    let prop = args.str("property", "C01");
    let mut r = Rng::from_bytes(data);
    let mut ctx = Ctx { rep, args, case_seed: 0, replay: Some(cvh::fuzz::replay_of(data)) };
    match prop.as_str() {
        "C02" => case_c02_n(&mut ctx, &mut r, 3),
        "C03" => {
            let n = r.range(1, 8) as usize;
            let outcomes: Vec<bool> = (0..n).map(|_| r.chance(1, 2)).collect();
            let with_handler = r.chance(1, 2);
            c03_sequence(&mut ctx, &mut r, &outcomes, None, with_handler);
        }
        "C04" => case_c04_n(&mut ctx, &mut r, true),
        _ => case_c01_n(&mut ctx, &mut r, true),
    }
}

#[allow(dead_code)]
pub fn fuzz_one(data: &[u8]) {
    cvh::fuzz::step("fmt_driver(fuzz)", |rep, args| fuzz_case(rep, args, data));
}

fn run_cases(args: &Args, prop: &str, f: fn(&mut Ctx, &mut Rng)) -> i32 {
    let mut rep = Report::new("fmt_driver", prop);
    let seed = args.u64("seed", 1);
    let shard = args.u64("shard", 0);
    let cases = args.u64("cases", 1000);
    if !panics::overflow_checks_enabled() {
        rep.inconclusive("overflow checks are not enabled in this build");
    }
    if let Some(cs) = args.get("case-seed") {
        let cs: u64 = cs.parse().expect("case-seed");
        let mut ctx = Ctx { rep: &mut rep, args, case_seed: cs, replay: None };
        f(&mut ctx, &mut Rng::new(cs));
    } else {
        for i in 0..cases {
            let cs = mix(&[seed, cvh::rng::hash_str(prop), shard, i]);
            let mut ctx = Ctx { rep: &mut rep, args, case_seed: cs, replay: None };
            f(&mut ctx, &mut Rng::new(cs));
            if rep.violation_count >= 12 {
                break;
            }
        }
    }
    hostile_env_report(&mut rep, args);
    rep.finish(args.get("out"))
}

fn norm_prefix(raw: &str) -> String {
    if raw.is_empty() {
        String::new()
    } else {
        format!("{}.", raw.trim_end_matches('.'))
    }
}

fn val_class(v: &Val, exp: &Result<Expect, ()>) -> &'static str {
    match exp {
        Err(()) => "rejected",
        Ok(e) => match e.values.len() {
            1 => match v {
                Val::User(_) | Val::VU64(_) | Val::VF64(_) | Val::VDur(_) => "packed1",
                _ => "single",
            },
            2..=3 => "packed2-3",
            4..=60 => "packed4-60",
            _ => "packed>60",
        },
    }
}

fn mask_of(decos: &[Deco]) -> u8 {
    let mut m = 0;
    for d in decos {
        m |= match d {
            Deco::Rate(_) => 1,
            Deco::Tag(..) | Deco::TagValue(_) => 2,
            Deco::Container(_) => 4,
            Deco::Timestamp(_) => 8,
        };
    }
    m
}

fn ntags_class(n: usize) -> &'static str {
    match n {
        0 => "0",
        1 => "1",
        2..=3 => "2-3",
        _ => "4+",
    }
}

// ------------------------------------------------------------------------------------------------
// C01
// ------------------------------------------------------------------------------------------------

fn case_c01(ctx: &mut Ctx, r: &mut Rng) {
    case_c01_n(ctx, r, false)
}

/// `one`: a single entry point per case (small cases for the coverage-guided runs).
fn case_c01_n(ctx: &mut Ctx, r: &mut Rng, one: bool) {
    if !one && r.chance(1, 8) {
        // clients built directly on the library's own sinks: the whole line, read from the returned metric
        case_c04_real_sinks(ctx, r);
        return;
    }
    let allow_dirty = r.chance(1, 3);
    // (a quarter of the clients carry default tags / a default container id - also delimiter-laden ones, which the C04
    // check, judged on delimiter-free strings, never uses)
    let with_defaults = r.chance(1, 4);
    let (cfg, pclass) = gen_client_cfg(r, allow_dirty, with_defaults);
    let sink = RecSink::new();
    let hlog = HandlerLog::default();
    let client = build_client(&cfg, sink.clone(), Some(hlog.clone()));
    let (key, kclass) = gen_key(r, allow_dirty);
    let mask = r.below(16) as u8;
    let decos = gen_decos(r, mask, allow_dirty, false);
    let mut eps = all_entry_points();
    if one {
        eps = vec![*r.pick(&eps)];
    }
    for (kind, tt) in eps {
        let val = gen_val(r, kind, tt, true, false);
        for form in [Form::Plain, Form::Tagged, Form::Quiet] {
            let sp = spec(kind, val.clone(), &key, form, decos.clone());
            check_c01_call(ctx, &client, &cfg, &sink, &sp, pclass, kclass, allow_dirty);
        }
    }
}

fn check_c01_call(ctx: &mut Ctx, client: &StatsdClient, cfg: &ClientCfg, sink: &RecSink, sp: &CallSpec, pclass: &str, kclass: &str, dirty: bool) {
    ctx.rep.eval();
    let before = sink.emit_count();
    let exp = expectation(cfg, sp);
    let ret = panics::guard(|| call(client, sp));
    let emitted = sink.emits_from(before);
    let mask = mask_of(&sp.decos);
    let vclass = val_class(&sp.val, &exp);
    let ntags = exp.as_ref().map(|e| e.tags.len()).unwrap_or(0);
    let sig = format!("{:?}|{}|{}|{}|{}|{}|{}|{}|{}", sp.kind, sp.val.type_tag(), sp.form.tag(), mask, pclass, kclass, ntags_class(ntags), vclass, dirty);
    if mask == 0 && vclass == "single" {
        ctx.rep.trivial();
    } else {
        ctx.rep.distinct(&sig);
    }
    let trace = |extra: Json| -> Json {
        jobj! {
            "client" => jobj!{"prefix" => clip(&cfg.prefix_raw, 120)},
            "call" => sp.to_json(),
            "emitted" => Json::Arr(emitted.iter().map(|(s, _)| Json::Str(clip(s, 400))).collect()),
            "more" => extra,
        }
    };
    let ret = match ret {
        Ok(r) => r,
        Err(_p) => {
            // a panic is C20's business (and C03's for the quiet form); nothing to check for C01
            ctx.rep.obs("calls_that_panicked", 1);
            return;
        }
    };
    match &exp {
        Err(()) => {
            // (v) a rejected value must never produce a line
            for (text, _) in &emitted {
                let class = if text.contains(":|") { "empty-packed-list" } else { "rejected-value-emitted" };
                ctx.violation("C01", "v(>=1 value)", class, format!("a value that must be rejected produced the line {:?}", clip(text, 200)), trace(Json::Null));
            }
            ctx.rep.obs("rejected_values", 1);
        }
        Ok(e) => {
            if emitted.is_empty() {
                ctx.rep.obs("valid_calls_without_emit", 1); // C03's rule, not C01's
                return;
            }
            for (text, _) in &emitted {
                if let Err(why) = matches_line(e, text) {
                    ctx.violation("C01", "R(reference formatter)", "text-differs", why, trace(jobj! {"reference" => clip(&ref_line(e), 400)}));
                    continue;
                }
                ctx.rep.obs("lines_matched_reference", 1);
                if expect_is_clean(e) {
                    // self-check of the oracle: P(R(x)) == x
                    match parse_line(&ref_line(e)).and_then(|p| parsed_equals(&p, e)) {
                        Ok(()) => {}
                        Err(why) => {
                            ctx.rep.inconclusive(format!("oracle self-check failed: P(R(x)) != x: {}", why));
                            continue;
                        }
                    }
                    match parse_line(text).and_then(|p| parsed_equals(&p, e)) {
                        Ok(()) => ctx.rep.obs("lines_parsed_back", 1),
                        Err(why) => ctx.violation("C01", "P(parse-back)", "parse-back-differs", why, trace(Json::Null)),
                    }
                }
                if let Ret::Ok(s) = &ret {
                    if s != text {
                        ctx.violation("C01", "as_metric_str", "returned-metric-differs", format!("returned metric {:?} differs from the emitted text", clip(s, 200)), trace(Json::Null));
                    }
                }
                // (iv) standalone constructors (they know nothing of a client's defaults)
                if sp.decos.is_empty() && cfg.default_tags.is_empty() && cfg.default_container.is_none() {
                    if let Some(st) = panics::guard(|| standalone(sp.kind, &norm_prefix(&cfg.prefix_raw), &sp.key, &sp.val)).ok().flatten() {
                        ctx.rep.obs("standalone_compared", 1);
                        if &st != text {
                            ctx.violation("C01", "standalone-constructor", "standalone-differs", format!("standalone constructor gives {:?}", clip(&st, 200)), trace(Json::Null));
                        }
                    }
                    // the constructors take the full name in two pieces and join them as they are: the same full name cut
                    // at any other place (a first piece that is empty, does not end in a dot, ends in several) gives the same text
                    let full = format!("{}{}", norm_prefix(&cfg.prefix_raw), sp.key);
                    let bounds: Vec<usize> = (0..=full.len()).filter(|i| full.is_char_boundary(*i)).collect();
                    let cut = bounds[(cvh::rng::hash_str(text) % bounds.len() as u64) as usize];
                    if let Some(st) = panics::guard(|| standalone(sp.kind, &full[..cut], &full[cut..], &sp.val)).ok().flatten() {
                        ctx.rep.obs("standalone_compared_with_the_name_cut_elsewhere", 1);
                        if &st != text {
                            ctx.violation("C01", "standalone-constructor", "standalone-differs", format!("standalone constructor for the same full name, given as ({:?}, {:?}), renders {:?}", clip(&full[..cut], 80), clip(&full[cut..], 80), clip(&st, 200)), trace(Json::Null));
                        }
                    }
                }
            }
            if ctx.rep.want_sample() {
                let t = emitted[0].0.clone();
                ctx.rep.sample(|| jobj! {"call" => sp.to_json(), "prefix" => clip(&cfg.prefix_raw, 80), "emitted" => clip(&t, 300)});
            }
        }
    }
}

// ------------------------------------------------------------------------------------------------
// C02
// ------------------------------------------------------------------------------------------------

fn case_c02(ctx: &mut Ctx, r: &mut Rng) {
    case_c02_n(ctx, r, 24)
}

fn case_c02_n(ctx: &mut Ctx, r: &mut Rng, calls: usize) {
    let cfg = ClientCfg { prefix_raw: if r.chance(1, 2) { "p".into() } else { String::new() }, ..Default::default() };
    let sink = RecSink::new();
    let hlog = HandlerLog::default();
    let client = build_client(&cfg, sink.clone(), Some(hlog.clone()));
    // numeric entry points only; user types included (they reach PackedSigned)
    let eps = all_entry_points();
    for _ in 0..calls {
        let (kind, tt) = *r.pick(&eps);
        if tt == "user:Err" || tt == "incr" || tt == "decr" {
            continue;
        }
        let val = gen_val(r, kind, tt, false, true);
        let form = *r.pick(&[Form::Plain, Form::Tagged, Form::Quiet]);
        let decos = if r.chance(1, 2) { vec![Deco::Rate(gen_rate(r, true))] } else { vec![] };
        let sp = spec(kind, val, "k", form, decos);
        check_c02_call(ctx, &client, &cfg, &sink, &hlog, &sp);
    }
}

fn num_class(n: &Num) -> String {
    match n {
        Num::I(v) => format!("i{}{}", if *v < 0 { "-" } else { "+" }, 64 - v.unsigned_abs().leading_zeros()),
        Num::U(v) => format!("u{}", 64 - v.leading_zeros()),
        Num::F(f) => {
            let bits = f.to_bits();
            let exp = ((bits >> 52) & 0x7ff) as i32;
            let cls = if exp == 0 { "sub".to_string() } else { format!("e{}", (exp - 1023) / 32) };
            format!("f{}{}", if *f < 0.0 || (f.to_bits() >> 63) == 1 { "-" } else { "+" }, cls)
        }
    }
}

fn check_c02_call(ctx: &mut Ctx, client: &StatsdClient, cfg: &ClientCfg, sink: &RecSink, hlog: &HandlerLog, sp: &CallSpec) {
    ctx.rep.eval();
    let before = sink.emit_count();
    let hbefore = hlog.len();
    let exp = expectation(cfg, sp);
    let ret = panics::guard(|| call(client, sp));
    let emitted = sink.emits_from(before);
    let trace = || -> Json {
        jobj! {
            "call" => sp.to_json(),
            "emitted" => Json::Arr(emitted.iter().map(|(s, _)| Json::Str(clip(s, 400))).collect()),
        }
    };
    let ret = match ret {
        Ok(r) => r,
        Err(_) => {
            ctx.rep.obs("calls_that_panicked", 1);
            return;
        }
    };
    match &exp {
        Err(()) => {
            ctx.rep.distinct(&format!("reject|{:?}|{}|{}", sp.kind, sp.val.type_tag(), sp.form.tag()));
            ctx.rep.obs("rejections_checked", 1);
            if !emitted.is_empty() {
                ctx.violation("C02", "reject=>nothing-sent", "overwide-duration-sent", format!("an over-wide duration was sent as {:?}", clip(&emitted[0].0, 200)), trace());
            }
            match (&ret, sp.form) {
                (Ret::Err(e), _) if e.kind == cadence::ErrorKind::InvalidInput => {}
                (Ret::Quiet, _) => {
                    let h = hlog.from(hbefore);
                    if !(h.len() == 1 && h[0].kind == cadence::ErrorKind::InvalidInput) {
                        ctx.violation("C02", "reject=>invalid-input", "overwide-not-reported", format!("quiet send of an over-wide duration: handler saw {:?}", h), trace());
                    }
                }
                (other, _) => ctx.violation("C02", "reject=>invalid-input", "overwide-not-reported", format!("over-wide duration: call returned {:?}", other), trace()),
            }
        }
        Ok(e) => {
            if emitted.is_empty() {
                ctx.rep.obs("valid_calls_without_emit", 1);
                // a value in range that is not sent and reported invalid is a C02 matter for durations
                if let Ret::Err(er) = &ret {
                    if er.kind == cadence::ErrorKind::InvalidInput {
                        ctx.violation("C02", "in-range=>sent", "in-range-value-rejected", format!("in-range value rejected: {:?}", er), trace());
                    }
                }
                return;
            }
            let text = &emitted[0].0;
            // value fields: between the first ':' after the (clean) name and the first '|'
            let name_len = e.name.len();
            let ok_shape = text.len() > name_len && text.starts_with(e.name.as_str()) && text.as_bytes()[name_len] == b':';
            if !ok_shape {
                ctx.rep.obs("unparseable_for_c02", 1);
                return;
            }
            let rest = &text[name_len + 1..];
            let bar = rest.find('|').unwrap_or(rest.len());
            let fields: Vec<&str> = rest[..bar].split(':').collect();
            if fields.len() != e.values.len() {
                ctx.violation("C02", "packed-length", "length-changed", format!("{} value fields on the wire, {} supplied", fields.len(), e.values.len()), trace());
                return;
            }
            for (i, (t, v)) in fields.iter().zip(e.values.iter()).enumerate() {
                let res = match v {
                    Num::I(x) => (*t == dec_i64(*x)).then_some(()).ok_or_else(|| format!("field {:?} != canonical numeral {}", t, dec_i64(*x))),
                    Num::U(x) => (*t == dec_u64(*x)).then_some(()).ok_or_else(|| format!("field {:?} != canonical numeral {}", t, dec_u64(*x))),
                    Num::F(f) => float_field_ok(t, *f),
                };
                if let Err(why) = res {
                    let class = match (&sp.val, v) {
                        (Val::Dur(_) | Val::VDur(_), _) => "duration-count-wrong",
                        (_, Num::F(_)) => "float-not-round-trip",
                        _ => "integer-numeral-wrong",
                    };
                    ctx.violation("C02", "numeral", class, format!("value #{}: {}", i, why), trace());
                    return;
                }
                ctx.rep.distinct(&format!("{:?}|{}|{}|{}", sp.kind, sp.val.type_tag(), num_class(v), if e.values.len() > 1 { "packed" } else { "single" }));
            }
            // the standalone constructors (`Gauge::new` ...) render the same value types: same numerals
            if let Some(st) = panics::guard(|| standalone(sp.kind, &norm_prefix(&cfg.prefix_raw), &sp.key, &sp.val)).ok().flatten() {
                ctx.rep.obs("standalone_value_fields_checked", 1);
                if let Some(Err(why)) = value_field_matches(e, &st) {
                    ctx.violation("C02", "numeral", "standalone-constructor-numeral", format!("standalone constructor renders {:?}: {}", clip(&st, 120), why), trace());
                    return;
                }
            }
            // sampling rate
            if let Some(rate) = e.rate {
                let tail = &rest[bar..];
                if let Some(pos) = tail.find("|@") {
                    let f = &tail[pos + 2..];
                    let end = f.find('|').unwrap_or(f.len());
                    if let Err(why) = float_field_ok(&f[..end], rate) {
                        ctx.violation("C02", "numeral", "rate-not-round-trip", why, trace());
                    } else {
                        ctx.rep.obs("rates_checked", 1);
                        ctx.rep.distinct(&format!("rate|{}", num_class(&Num::F(rate))));
                    }
                } else {
                    // a supplied sampling rate that does not reach the wire at all is lost, whatever its value
                    ctx.violation("C02", "numeral", "rate-missing", format!("sampling rate {:e} was supplied but the line has no |@ section", rate), trace());
                }
            }
            ctx.rep.obs("value_fields_checked", fields.len() as u64);
            if ctx.rep.want_sample() {
                ctx.rep.sample(|| jobj! {"call" => sp.to_json(), "emitted" => clip(text, 200)});
            }
        }
    }
}

/// Exhaustive sweep of a 32-bit counter type: every value of i32 or u32 in [lo, hi].
fn sweep_c02(args: &Args) -> i32 {
    use cadence::prelude::*;
    use cadence::Metric;
    let mut rep = Report::new("fmt_driver", "C02");
    let ty = args.str("type", "i32");
    let lo = args.get("lo").map(|s| s.parse::<i64>().unwrap()).unwrap_or(if ty == "i32" { i32::MIN as i64 } else { 0 });
    let hi = args.get("hi").map(|s| s.parse::<i64>().unwrap()).unwrap_or(if ty == "i32" { i32::MAX as i64 } else { u32::MAX as i64 });
    let client = StatsdClient::from_sink("", cadence::NopMetricSink);
    let mut bad = 0u64;
    let mut n = 0u64;
    let mut v = lo;
    let mut expected = String::with_capacity(32);
    while v <= hi {
        let m = if ty == "i32" { client.count("k", v as i32) } else { client.count("k", v as u32) };
        expected.clear();
        expected.push_str("k:");
        expected.push_str(&dec_i64(v));
        expected.push_str("|c");
        let ok = matches!(&m, Ok(c) if c.as_metric_str() == expected);
        if !ok {
            bad += 1;
            if rep.violations.len() < 5 {
                rep.violation(Violation {
                    property: "C02".into(),
                    rule: "numeral".into(),
                    class: "integer-numeral-wrong".into(),
                    detail: format!("count(k, {}{}) produced {:?}, expected {:?}", v, ty, m.as_ref().map(|c| c.as_metric_str().to_string()).map_err(|e| e.to_string()), expected),
                    replay_args: args.to_vec_with(&[("lo", v.to_string()), ("hi", v.to_string())]),
                    trace: jobj! {"type" => ty.as_str(), "value" => v},
                });
            }
        }
        n += 1;
        v += 1;
    }
    rep.evals(n);
    rep.violation_count = bad.max(rep.violation_count);
    rep.obs(&format!("sweep_{}_values", ty), n);
    rep.extra.insert("sweep".into(), jobj! {"type" => ty.as_str(), "lo" => lo, "hi" => hi, "checked" => n});
    rep.samples.push(jobj! {"type" => ty.as_str(), "value" => lo, "line" => format!("k:{}|c", lo)});
    rep.samples.push(jobj! {"type" => ty.as_str(), "value" => hi, "line" => format!("k:{}|c", hi)});
    // distinct classes: number of decimal digits x sign actually covered
    let mut d = std::collections::BTreeSet::new();
    let mut p: i64 = 1;
    for digits in 1..=10 {
        let lo_d = if digits == 1 { 0 } else { p };
        let hi_d = p * 10 - 1;
        if lo <= hi_d && hi >= lo_d {
            d.insert(format!("{}+{}", ty, digits));
        }
        if lo <= -lo_d.max(1) && hi >= -hi_d {
            d.insert(format!("{}-{}", ty, digits));
        }
        p *= 10;
    }
    for s in d {
        rep.distinct(&s);
    }
    hostile_env_report(&mut rep, args);
    rep.finish(args.get("out"))
}

// ------------------------------------------------------------------------------------------------
// C03: fault enumeration over sink outcome sequences
// ------------------------------------------------------------------------------------------------

const IO_KINDS: &[io::ErrorKind] = &[
    io::ErrorKind::NotFound,
    io::ErrorKind::PermissionDenied,
    io::ErrorKind::ConnectionRefused,
    io::ErrorKind::ConnectionReset,
    io::ErrorKind::ConnectionAborted,
    io::ErrorKind::NotConnected,
    io::ErrorKind::AddrInUse,
    io::ErrorKind::AddrNotAvailable,
    io::ErrorKind::BrokenPipe,
    io::ErrorKind::AlreadyExists,
    io::ErrorKind::WouldBlock,
    io::ErrorKind::InvalidInput,
    io::ErrorKind::InvalidData,
    io::ErrorKind::TimedOut,
    io::ErrorKind::WriteZero,
    io::ErrorKind::Interrupted,
    io::ErrorKind::Unsupported,
    io::ErrorKind::UnexpectedEof,
    io::ErrorKind::OutOfMemory,
    io::ErrorKind::Other,
];

/// The call is made by the destructor of a guard while its (scoped) thread unwinds from a panic.
fn call_while_unwinding(client: &StatsdClient, sp: &CallSpec) -> Result<Ret, String> {
    let out: std::sync::Mutex<Option<Result<Ret, String>>> = std::sync::Mutex::new(None);
    struct Guard<'a>(&'a StatsdClient, &'a CallSpec, &'a std::sync::Mutex<Option<Result<Ret, String>>>);
    impl Drop for Guard<'_> {
        fn drop(&mut self) {
            let r = panics::guard(|| call(self.0, self.1));
            *self.2.lock().unwrap() = Some(r);
        }
    }
    std::thread::scope(|s| {
        let _ = s
            .spawn(|| {
                let _g = Guard(client, sp, &out);
                panic!("scripted-panic: unwinding with a metric-emitting guard on the stack");
            })
            .join();
    });
    let r = out.lock().unwrap().take();
    r.unwrap_or_else(|| Err("the guard's destructor did not run".into()))
}

/// One client, a sequence of calls, a scripted outcome per *emit*. Checks every call.
fn c03_sequence(ctx: &mut Ctx, r: &mut Rng, outcomes: &[bool], ep_fixed: Option<(Kind, &'static str)>, with_handler: bool) {
    let with_defaults = r.chance(1, 3);
    // a third of the sequences use delimiter-laden prefixes, keys and tags (':', '|', '#', newlines ...): what a string
    // contains never decides whether the call emits
    let allow_dirty = r.chance(1, 3);
    let (cfg, _) = gen_client_cfg(r, allow_dirty, with_defaults);
    let (seq_key, _) = if allow_dirty { gen_key(r, true) } else { ("k".to_string(), "fixed") };
    let sink = RecSink::new();
    let hlog = HandlerLog::default();
    let client = build_client(&cfg, sink.clone(), if with_handler { Some(hlog.clone()) } else { None });
    let eps = all_entry_points();
    let mut inj = 0u64;
    let mut sig = String::new();
    for (step, accept) in outcomes.iter().enumerate() {
        // now and then a user-defined metric goes through the extension entry point `MetricBackend::send_metric`: the
        // client hands its text to the sink verbatim, whatever it looks like (a service check, an event, a line of another
        // protocol, nothing at all) - one string, Ok iff the sink took it
        if r.chance(1, 10) {
            use cadence::ext::MetricBackend;
            struct Raw(String);
            impl cadence::Metric for Raw {
                fn as_metric_str(&self) -> &str {
                    &self.0
                }
            }
            let text = match r.below(7) {
                0 => "_sc|my.check|0|#env:prod|m:all good".to_string(),
                1 => "_e{5,4}:title|text|#tag".to_string(),
                2 => "plain.graphite.path 42 1700000000".to_string(),
                3 => String::new(),
                4 => "no-colon-no-pipe".to_string(),
                5 => "|:|".to_string(),
                _ => cvh::strgen::dirty(r, 1, 24),
            };
            if r.chance(1, 3) {
                sink.push_script(SinkOutcome::Refuse(io::ErrorKind::ConnectionReset, "raw-refused".into()));
            }
            let (b0, h0) = (sink.emit_count(), hlog.len());
            let res = panics::guard(|| client.send_metric(&Raw(text.clone())));
            let emitted = sink.emits_from(b0);
            ctx.rep.obs("user_defined_metrics_sent_through_send_metric", 1);
            let why = match &res {
                Err(p) => Some(("no-panic", "send-metric-panicked", format!("send_metric panicked: {}", p))),
                Ok(rr) => {
                    if emitted.len() != 1 || emitted[0].0 != text {
                        Some(("one-call-one-emit", "send-metric-not-verbatim", format!("send_metric({:?}) handed the sink {:?}", clip(&text, 80), emitted.iter().map(|e| clip(&e.0, 80)).collect::<Vec<_>>())))
                    } else if rr.is_ok() != emitted[0].1 {
                        Some(("ok-only-if-accepted", "send-metric-result", format!("send_metric({:?}) returned {:?} although the sink {} it", clip(&text, 80), rr.as_ref().map_err(|e| e.to_string()), if emitted[0].1 { "accepted" } else { "refused" })))
                    } else if hlog.len() != h0 {
                        Some(("handler-exactly-once-on-failure", "handler-on-nonquiet", "send_metric invoked the error handler".to_string()))
                    } else {
                        None
                    }
                }
            };
            if let Some((rule, class, detail)) = why {
                ctx.violation("C03", rule, class, detail, jobj! {"text" => clip(&text, 200), "step" => step});
                sink.log.lock().unwrap().script.clear();
                continue;
            }
        }
        let (kind, tt) = ep_fixed.unwrap_or_else(|| *r.pick(&eps));
        // invalid values interleaved: they must not consume a scripted outcome
        let want_invalid = r.chance(1, 5);
        let val = if want_invalid {
            match tt {
                "Duration" => Val::Dur(std::time::Duration::new(u64::MAX, 0)),
                "Vec<Duration>" => Val::VDur(vec![std::time::Duration::new(1, 0), std::time::Duration::new(u64::MAX, 5)]),
                t if t.starts_with("user:") => Val::UserErr,
                _ => gen_val(r, kind, tt, true, true),
            }
        } else if tt.starts_with("Vec<") && r.chance(1, 40) {
            // a packed list whose line is far larger than any datagram (70-200 KB): still one call, one string
            let n = r.range(3600, 9000) as usize;
            ctx.rep.obs("packed_lists_rendering_to_more_than_64_KiB", 1);
            match tt {
                "Vec<u64>" => Val::VU64((0..n).map(|i| u64::MAX - i as u64).collect()),
                "Vec<f64>" => Val::VF64((0..n).map(|i| -1.0e300 / (i as f64 + 1.5)).collect()),
                _ => Val::VDur((0..n).map(|i| std::time::Duration::new(18_446_744_073 - i as u64, 709_551_615)).collect()),
            }
        } else {
            gen_val(r, kind, tt, false, true)
        };
        let form = *r.pick(&[Form::Plain, Form::Tagged, Form::Quiet]);
        let mask = r.below(16) as u8;
        let decos = gen_decos(r, mask, allow_dirty, true);
        let sp = spec(kind, val, &seq_key, form, decos);
        let exp = expectation(&cfg, &sp);
        let valid = exp.is_ok();
        let injected = if valid {
            if *accept {
                None
            } else {
                inj += 1;
                let kind = IO_KINDS[(ctx.case_seed as usize + step * 7 + inj as usize) % IO_KINDS.len()];
                let msg = format!("inj-{}-{}", ctx.case_seed % 100_000, inj);
                // what the sink wraps in its io::Error is its own business: message, typed payload, a cadence error
                // passed on by a relaying sink, a raw OS error, a nested io::Error
                let shape = cvh::rng::mix(&[ctx.case_seed, inj, 0x5A]) % 6;
                sink.push_script(SinkOutcome::RefuseShape(shape, kind, msg.clone()));
                let e = scripted_refusal(shape, kind, &msg);
                let (kind, msg) = (e.kind(), e.to_string());
                ctx.rep.obs(["refusals_with_a_message", "refusals_with_a_message", "refusals_with_a_typed_payload", "refusals_with_a_cadence_error_as_payload", "refusals_with_a_raw_os_error", "refusals_with_a_nested_io_error"][shape as usize], 1);
                Some((kind, msg))
            }
        } else {
            None
        };
        // now and then a builder for the same call is made and dropped unsent first: that is not a call - no emit, no
        // handler invocation, whatever the value
        if r.chance(1, 6) {
            let (b0, h0) = (sink.emit_count(), hlog.len());
            let res = panics::guard(|| build_and_drop(&client, &sp));
            ctx.rep.obs("builders_dropped_unsent", 1);
            if !valid {
                ctx.rep.obs("builders_with_a_rejected_value_dropped_unsent", 1);
            }
            let why = if res.is_err() {
                Some(("no-panic", "unsent-builder-panicked", format!("dropping an unsent builder panicked: {:?}", res)))
            } else if sink.emit_count() != b0 {
                Some(("one-call-one-emit", "emit-without-send", "a builder that was dropped without send()/try_send() reached the sink".to_string()))
            } else if hlog.len() != h0 {
                Some(("handler-exactly-once-on-failure", "handler-for-unsent-builder", format!("the error handler was invoked ({:?}) for a builder that was dropped without being sent", hlog.from(h0))))
            } else {
                None
            };
            if let Some((rule, class, detail)) = why {
                ctx.violation("C03", rule, class, detail, jobj! {"call" => sp.to_json(), "value_valid" => valid, "step" => step});
                sink.log.lock().unwrap().script.clear();
                continue;
            }
        }
        ctx.rep.eval();
        let before = sink.emit_count();
        let hbefore = hlog.len();
        // one quiet send in eight is made from a destructor that runs while its thread unwinds from another panic (a
        // scope guard that records a metric in Drop): the handler rule has no exception for that
        let in_unwind = form == Form::Quiet && r.chance(1, 8);
        let ret = if in_unwind {
            ctx.rep.obs("quiet_sends_from_a_destructor_during_unwinding", 1);
            call_while_unwinding(&client, &sp)
        } else {
            panics::guard(|| call(&client, &sp))
        };
        let emitted = sink.emits_from(before);
        let handled = hlog.from(hbefore);
        sig.push(match (valid, injected.is_some(), form) {
            (false, _, Form::Quiet) => 'i',
            (false, _, _) => 'I',
            (true, false, Form::Quiet) => 'a',
            (true, false, _) => 'A',
            (true, true, Form::Quiet) => 'r',
            (true, true, _) => 'R',
        });
        let ret_text = clip(&format!("{:?}", ret), 300);
        let trace = |why: &str| -> Json {
            jobj! {
                "why" => why,
                "step" => step,
                "outcomes(accept?)" => Json::Arr(outcomes.iter().map(|b| Json::Bool(*b)).collect()),
                "call" => sp.to_json(),
                "value_valid" => valid,
                "injected" => injected.as_ref().map(|(k, m)| format!("{:?}:{}", k, m)),
                "emitted_in_call" => Json::Arr(emitted.iter().map(|(s, ok)| jobj!{"text" => clip(s, 200), "accepted" => *ok}).collect()),
                "returned" => ret_text.as_str(),
                "handler_calls" => clip(&format!("{:?}", handled), 300),
            }
        };
        let ret = match ret {
            Ok(r) => r,
            Err(p) => {
                if form == Form::Quiet {
                    ctx.violation("C03", "quiet-never-panics", "quiet-send-panicked", p.clone(), trace(&p));
                } else {
                    ctx.rep.obs("calls_that_panicked", 1);
                }
                // drop a scripted outcome that was not consumed
                sink.log.lock().unwrap().script.clear();
                continue;
            }
        };
        // rule 1: emit count
        let want_emits = if valid { 1 } else { 0 };
        if emitted.len() != want_emits {
            let class = if valid { "emit-count-valid" } else { "emit-count-rejected" };
            ctx.violation("C03", "one-call-one-emit", class, format!("{} emits for a {} value", emitted.len(), if valid { "valid" } else { "rejected" }), trace("emit count"));
            sink.log.lock().unwrap().script.clear();
            continue;
        }
        // rule 1b: the one string handed to the sink is THIS call's metric - nothing left over from earlier calls.
        // Judged differentially (how a metric is formatted is C01's business): the same call on a pristine client, made
        // on a fresh thread (no state of any earlier call, thread-local or not), must produce the same text.
        // (sampled: 3 in 8 of the calls right after a call that failed or was rejected - that is when something may be
        // left behind - and 1 in 16 of the others)
        let after_failure = sig.len() >= 2 && matches!(sig.as_bytes()[sig.len() - 2], b'i' | b'I' | b'r' | b'R');
        let pick = cvh::rng::mix(&[ctx.case_seed, step as u64]) % 16;
        if let (true, true, Some((text, _))) = (valid, (after_failure && pick < 6) || pick == 0, emitted.first()) {
            let (cfg2, sp2) = (cfg.clone(), sp.clone());
            let fresh = std::thread::spawn(move || {
                let s2 = RecSink::new();
                let c2 = build_client(&cfg2, s2.clone(), None);
                let _ = panics::guard(|| call(&c2, &sp2));
                s2.emits_from(0).first().map(|(t, _)| t.clone())
            })
            .join()
            .ok()
            .flatten();
            ctx.rep.obs("texts_compared_with_a_pristine_client", 1);
            if let Some(f) = fresh {
                if &f != text {
                    let at = f.bytes().zip(text.bytes()).position(|(a, b)| a != b).unwrap_or(f.len().min(text.len()));
                    ctx.violation("C03", "one-call-one-emit", "text-not-this-metric", format!("the string handed to the sink differs at byte {} from what the same call produces on a pristine client: sink got {:?}, pristine {:?}", at, clip(text, 120), clip(&f, 120)), trace("emitted text"));
                    sink.log.lock().unwrap().script.clear();
                    continue;
                }
            }
        }
        // rule 2: results
        match (&ret, valid, &injected) {
            (Ret::Ok(m), true, None) => {
                if !(emitted[0].1 && &emitted[0].0 == m) {
                    ctx.violation("C03", "ok=>accepted-text", "ok-text-mismatch", "Ok(metric) differs from the text the sink accepted in this call".into(), trace("ok text"));
                }
            }
            (Ret::Ok(_), _, _) => ctx.violation("C03", "ok-only-if-accepted", "ok-without-accept", "Ok returned although the sink did not accept a metric in this call".into(), trace("ok without accept")),
            (Ret::Err(e), true, Some((k, msg))) => {
                let good = e.kind == cadence::ErrorKind::IoError && e.io.as_ref().map(|(ik, im)| ik == k && im == msg).unwrap_or(false);
                if !good {
                    ctx.violation("C03", "err-carries-sink-error", "wrong-error", format!("sink refused with {:?}:{} but the call returned {:?}", k, msg, e), trace("error identity"));
                }
            }
            (Ret::Err(e), false, _) => {
                if e.kind != cadence::ErrorKind::InvalidInput {
                    ctx.violation("C03", "rejected=>invalid-input", "wrong-error", format!("rejected value reported as {:?}", e), trace("invalid input kind"));
                }
            }
            (Ret::Err(e), true, None) => ctx.violation("C03", "accepted=>ok", "err-after-accept", format!("the sink accepted the metric but the call returned {:?}", e), trace("err after accept")),
            (Ret::Quiet, _, _) => {}
        }
        // rule 3: handler
        let want_handler = if form == Form::Quiet && (!valid || injected.is_some()) { 1 } else { 0 };
        if with_handler {
            if handled.len() != want_handler {
                let class = if want_handler == 1 { "handler-count-on-failure" } else if form == Form::Quiet { "handler-on-success" } else { "handler-on-nonquiet" };
                ctx.violation("C03", "handler-exactly-once-on-failure", class, format!("handler invoked {} times, expected {}", handled.len(), want_handler), trace("handler count"));
            } else if want_handler == 1 {
                let h = &handled[0];
                let good = match &injected {
                    Some((k, msg)) => h.kind == cadence::ErrorKind::IoError && h.io.as_ref().map(|(ik, im)| ik == k && im == msg).unwrap_or(false),
                    None => h.kind == cadence::ErrorKind::InvalidInput,
                };
                if !good {
                    ctx.violation("C03", "handler-gets-same-error", "wrong-error", format!("handler saw {:?}", h), trace("handler error identity"));
                }
            }
        }
    }
    if sig.chars().any(|c| c != 'A') {
        ctx.rep.distinct(&format!("{}|{}|{}", sig, ep_fixed.map(|(k, t)| format!("{:?}{}", k, t)).unwrap_or_default(), with_handler));
    } else {
        ctx.rep.trivial();
    }
    if ctx.rep.want_sample() {
        ctx.rep.sample(|| jobj! {"outcome_signature(A/R/I=accepted/refused/invalid, lowercase=quiet form)" => sig.as_str(), "entry_point" => ep_fixed.map(|(k, t)| format!("{:?}<{}>", k, t))});
    }
}


/// Handler situations beyond one call at a time (C03): (a) failing quiet sends from several threads at the same moment
/// through one client whose handler takes its time - every failure is reported, once; (b) a handler that itself reports
/// through the same client with the quiet form while that nested send fails as well (bounded by its own depth counter) -
/// the send returns, the nested failure is reported too; (c) a sink that panics now and then (the caller catches it):
/// later calls on the same thread are judged by the sink's answer as before.
fn c03_handler_situations(rep: &mut Report, args: &Args) {
    use cadence::prelude::*;
    use std::sync::atomic::{AtomicU64, Ordering as O};
    let violation = |rep: &mut Report, rule: &str, class: &str, detail: String| {
        rep.violation(Violation { property: "C03".into(), rule: rule.into(), class: class.into(), detail, replay_args: args.to_vec_with(&[]), trace: Json::Null });
    };
    // ---- (a) concurrent failing quiet sends, slow handler ----
    struct AlwaysRefuse;
    impl cadence::MetricSink for AlwaysRefuse {
        fn emit(&self, m: &str) -> io::Result<usize> {
            Err(io::Error::new(io::ErrorKind::NotConnected, m.to_string()))
        }
    }
    let calls = std::sync::Arc::new(AtomicU64::new(0));
    let c2 = calls.clone();
    let client = std::sync::Arc::new(
        StatsdClient::builder("conc", AlwaysRefuse)
            .with_error_handler(move |_e| {
                std::thread::sleep(std::time::Duration::from_micros(300));
                c2.fetch_add(1, O::SeqCst);
            })
            .build(),
    );
    let (threads, per) = (6u64, 25u64);
    let start = std::sync::Arc::new(std::sync::Barrier::new(threads as usize));
    let joins: Vec<_> = (0..threads)
        .map(|t| {
            let (c, b) = (client.clone(), start.clone());
            std::thread::spawn(move || {
                b.wait();
                for k in 0..per {
                    c.count_with_tags("k", (t * 1000 + k) as i64).send();
                }
            })
        })
        .collect();
    let died = joins.into_iter().map(|j| j.join()).filter(|r| r.is_err()).count();
    rep.eval();
    rep.obs("failing_quiet_sends_made_at_the_same_moment_from_several_threads", threads * per);
    let got = calls.load(O::SeqCst);
    if died > 0 {
        violation(rep, "quiet-never-panics", "quiet-send-panicked", format!("{} of {} threads making failing quiet sends at the same moment died", died, threads));
    } else if got != threads * per {
        violation(rep, "handler-exactly-once-on-failure", "handler-count-on-failure", format!("{} failing quiet sends from {} threads at the same moment (handler takes 300 us): the handler was invoked {} times", threads * per, threads, got));
    }
    // ---- (b) a handler that reports through the same client while that send fails too ----
    let slot: std::sync::Arc<std::sync::Mutex<Option<std::sync::Arc<StatsdClient>>>> = std::sync::Arc::new(std::sync::Mutex::new(None));
    let depth = std::sync::Arc::new(AtomicU64::new(0));
    let seen = std::sync::Arc::new(AtomicU64::new(0));
    let (slot2, depth2, seen2) = (std::panic::AssertUnwindSafe(slot.clone()), depth.clone(), seen.clone());
    let nested = std::sync::Arc::new(
        StatsdClient::builder("nest", AlwaysRefuse)
            .with_error_handler(move |_e| {
                seen2.fetch_add(1, O::SeqCst);
                if depth2.fetch_add(1, O::SeqCst) < 2 {
                    let c = slot2.lock().unwrap_or_else(|e| e.into_inner()).clone();
                    if let Some(c) = c {
                        c.gauge_with_tags("errors.seen", 1u64).send();
                    }
                }
                depth2.fetch_sub(1, O::SeqCst);
            })
            .build(),
    );
    *slot.lock().unwrap() = Some(nested.clone());
    let (tx, rx) = std::sync::mpsc::channel::<u32>();
    let n2 = nested.clone();
    let worker = std::thread::spawn(move || {
        let _ = tx.send(cvh::procmon::gettid());
        n2.count_with_tags("k", 1i64).send();
    });
    let tid = rx.recv().unwrap_or(0);
    // the send comes back, or its thread is found asleep with unchanged context-switch counters: it waits for itself
    let t0 = std::time::Instant::now();
    let mut last: Option<cvh::procmon::TaskStatus> = None;
    let mut stable = 0u32;
    let mut stuck = false;
    while !worker.is_finished() {
        std::thread::sleep(std::time::Duration::from_millis(10));
        let st = cvh::procmon::task_status(tid);
        if st.is_some() && st.as_ref().map(|s| s.state == 'S').unwrap_or(false) && st == last {
            stable += 1;
        } else {
            stable = 0;
            last = st;
        }
        if stable >= 150 {
            stuck = true;
            break;
        }
        if t0.elapsed().as_secs() > 100 {
            rep.inconclusive("nested failing send from the handler: watchdog");
            break;
        }
    }
    rep.eval();
    rep.obs("handlers_that_report_through_their_own_client_while_that_send_fails_too", 1);
    if stuck {
        violation(rep, "quiet-never-panics", "quiet-send-never-returns", "a quiet send whose error handler reports through the same client (and fails again) never returned: its thread is asleep with unchanged context-switch counters over 150 samples".into());
        std::mem::forget(worker);
    } else if worker.is_finished() {
        if worker.join().is_err() {
            violation(rep, "quiet-never-panics", "quiet-send-panicked", "a quiet send whose error handler reports through the same client panicked".into());
        } else if seen.load(O::SeqCst) != 3 {
            violation(rep, "handler-exactly-once-on-failure", "handler-count-on-failure", format!("a failing quiet send whose handler makes a failing quiet send (two levels deep): 3 failures, the handler was invoked {} times", seen.load(O::SeqCst)));
        }
    }
    *slot.lock().unwrap() = None;
    // ---- (b2) a client built directly on a real bounded queuing sink that is full: the refusal is a failure like any other
    {
        struct Blocked(std::sync::Arc<(std::sync::Mutex<bool>, std::sync::Condvar)>);
        impl cadence::MetricSink for Blocked {
            fn emit(&self, m: &str) -> io::Result<usize> {
                let (mx, cv) = &*self.0;
                let mut g = mx.lock().unwrap_or_else(|e| e.into_inner());
                while !*g {
                    g = cv.wait(g).unwrap_or_else(|e| e.into_inner());
                }
                Ok(m.len())
            }
        }
        let gate = std::sync::Arc::new((std::sync::Mutex::new(false), std::sync::Condvar::new()));
        let q = cadence::QueuingMetricSink::with_capacity(Blocked(gate.clone()), 2);
        let probe = q.clone();
        let reported = std::sync::Arc::new(AtomicU64::new(0));
        let rp = reported.clone();
        let c = StatsdClient::builder("full", q).with_error_handler(move |_e| {
            rp.fetch_add(1, O::SeqCst);
        }).build();
        // fill the queue (the worker takes one and blocks, two more fit)
        let mut refused_try = 0u64;
        for k in 0..12i64 {
            if c.count("fill", k).is_err() {
                refused_try += 1;
            }
        }
        let before = reported.load(O::SeqCst);
        let quiet = 9u64;
        for k in 0..quiet {
            c.gauge_with_tags("quiet", k).send();
        }
        let got = reported.load(O::SeqCst) - before;
        rep.eval();
        rep.obs("quiet_sends_refused_by_a_full_bounded_queuing_sink", quiet);
        if refused_try < 8 {
            rep.inconclusive(format!("full-queue scenario: only {} of 12 plain calls were refused by a queue of capacity 2 behind a blocked sink", refused_try));
        } else if before != 0 {
            violation(rep, "handler-exactly-once-on-failure", "handler-on-nonquiet", format!("the handler was invoked {} times for plain calls (they return their error)", before));
        } else if got != quiet {
            violation(rep, "handler-exactly-once-on-failure", "handler-count-on-failure", format!("{} quiet sends on a client whose sink is a full bounded queuing sink (queued {}): the handler was invoked {} times", quiet, probe.queued(), got));
        }
        let (mx, cv) = &*gate;
        *mx.lock().unwrap() = true;
        cv.notify_all();
    }
    // ---- (b3) a client with a handler directly on a queuing sink that has none, over a sink that refuses everything: the
    // client's sink (the queue) accepts each call, so the CLIENT's handler hears nothing - what the wrapped sink does
    // later on the queue's thread is the queue's business
    {
        let q = cadence::QueuingMetricSink::from(AlwaysRefuse);
        let probe = q.clone();
        let reported = std::sync::Arc::new(AtomicU64::new(0));
        let rp = reported.clone();
        let c = StatsdClient::builder("adopt", q).with_error_handler(move |_e| {
            rp.fetch_add(1, O::SeqCst);
        }).build();
        let mut refused = 0u64;
        for k in 0..20u64 {
            if k % 2 == 0 {
                c.gauge_with_tags("quiet", k).send();
            } else if c.count("plain", k as i64).is_err() {
                refused += 1;
            }
        }
        let t0 = std::time::Instant::now();
        while probe.queued() > 0 && t0.elapsed().as_secs() < 10 {
            std::thread::sleep(std::time::Duration::from_millis(1));
        }
        std::thread::sleep(std::time::Duration::from_millis(20));
        rep.eval();
        rep.obs("calls_on_a_client_with_a_handler_over_a_handlerless_queue_whose_sink_refuses", 20);
        let got = reported.load(O::SeqCst);
        if refused > 0 {
            rep.inconclusive(format!("handler-less queue scenario: {} of 10 plain calls were refused by an unbounded queue", refused));
        } else if got != 0 {
            violation(rep, "handler-exactly-once-on-failure", "handler-on-accepted", format!("20 calls on a client whose sink (an unbounded queuing sink without a handler of its own) accepted every one of them: the client's handler was invoked {} times", got));
        }
    }
    // ---- (b4) a handler that panics once: the panic is the caller's to catch, and the next failing quiet send is
    // reported like any other
    {
        let reported = std::sync::Arc::new(AtomicU64::new(0));
        let rp = reported.clone();
        let c = StatsdClient::builder("hp", AlwaysRefuse).with_error_handler(move |_e| {
            if rp.fetch_add(1, O::SeqCst) == 1 {
                panic!("scripted-panic: the error handler itself fails once");
            }
        }).build();
        let mut unwound = 0u64;
        for k in 0..8u64 {
            if panics::guard(|| c.meter_with_tags("m", k).send()).is_err() {
                unwound += 1;
            }
        }
        rep.eval();
        rep.obs("failing_quiet_sends_after_the_handler_itself_panicked_once", 6);
        let got = reported.load(O::SeqCst);
        if got != 8 {
            violation(rep, "handler-exactly-once-on-failure", "handler-count-on-failure", format!("8 failing quiet sends on a client whose handler panicked during the 2nd ({} calls unwound into the caller): the handler was invoked {} times", unwound, got));
        }
    }
    // ---- (c) a sink that panics now and then ----
    struct Moody(AtomicU64);
    impl cadence::MetricSink for Moody {
        fn emit(&self, m: &str) -> io::Result<usize> {
            let n = self.0.fetch_add(1, O::SeqCst);
            if n < 40 && n % 2 == 0 {
                panic!("scripted-sink-panic");
            }
            Ok(m.len())
        }
    }
    let c = StatsdClient::from_sink("moody", Moody(AtomicU64::new(0)));
    let mut bad = None;
    for k in 0..60u64 {
        let r = panics::guard(|| c.count("k", k as i64));
        let expect_panic = k < 40 && k % 2 == 0;
        match (r, expect_panic) {
            (Err(_), true) | (Ok(Ok(_)), false) => {}
            (other, _) => {
                bad = Some(format!("call #{} on a client whose sink panicked on {} earlier calls of this thread (caught by the caller): {:?}, the sink {}", k, (k.min(40) + 1) / 2, other.map(|x| x.map(|_| "Ok").map_err(|e| e.to_string())), if expect_panic { "panics" } else { "accepts" }));
                break;
            }
        }
    }
    rep.eval();
    rep.obs("calls_after_caught_panics_of_the_sink_on_the_same_thread", 60);
    if let Some(b) = bad {
        violation(rep, "ok-only-if-accepted", "result-contradicts-sink", b);
    }
}

fn run_c03(args: &Args) -> i32 {
    let mut rep = Report::new("fmt_driver", "C03");
    let seed = args.u64("seed", 1);
    let shard = args.u64("shard", 0);
    let shards = args.u64("shards", 1);
    let maxlen = args.usize("maxlen", 6);
    let random_cases = args.u64("cases", 200);
    if let Some(cs) = args.get("case-seed") {
        // replay: the case seed encodes everything through the PRNG; the enumeration index is passed along
        let cs: u64 = cs.parse().unwrap();
        let pattern: Vec<bool> = args.str("pattern", "").chars().map(|c| c == '1').collect();
        let ep = args.get("ep").map(|i| all_entry_points()[i.parse::<usize>().unwrap()]);
        let mut ctx = Ctx { rep: &mut rep, args, case_seed: cs, replay: None };
        c03_sequence(&mut ctx, &mut Rng::new(cs), &pattern, ep, !args.flag("no-handler"));
        return rep.finish(args.get("out"));
    }
    if shard == 0 {
        c03_handler_situations(&mut rep, args);
    }
    // (a) every accept/refuse pattern up to maxlen, for every entry point (sharded by entry point index)
    let eps = all_entry_points();
    let mut enumerated = 0u64;
    for (ei, ep) in eps.iter().enumerate() {
        if (ei as u64) % shards != shard {
            continue;
        }
        for len in 1..=maxlen {
            for bits in 0..(1u32 << len) {
                let pattern: Vec<bool> = (0..len).map(|i| bits & (1 << i) != 0).collect();
                let cs = mix(&[seed, 0xC03, ei as u64, len as u64, bits as u64]);
                let pat_s: String = pattern.iter().map(|b| if *b { '1' } else { '0' }).collect();
                let a2 = Args::from_vec(args.to_vec_with(&[("pattern", pat_s), ("ep", ei.to_string())]));
                let mut ctx = Ctx { rep: &mut rep, args: &a2, case_seed: cs, replay: None };
                c03_sequence(&mut ctx, &mut Rng::new(cs), &pattern, Some(*ep), bits % 5 != 4);
                enumerated += 1;
            }
        }
        if rep.violation_count >= 12 {
            break;
        }
    }
    rep.obs("enumerated_patterns", enumerated);
    // (b) random long sequences over mixed entry points
    for i in 0..random_cases {
        let cs = mix(&[seed, 0xC03B, shard, i]);
        let mut r = Rng::new(cs);
        let len = r.range(10, 50) as usize;
        let p_fail = r.below(90);
        let pattern: Vec<bool> = (0..len).map(|_| r.below(100) >= p_fail).collect();
        let pat_s: String = pattern.iter().map(|b| if *b { '1' } else { '0' }).collect();
        let a2 = Args::from_vec(args.to_vec_with(&[("pattern", pat_s)]));
        let mut ctx = Ctx { rep: &mut rep, args: &a2, case_seed: cs, replay: None };
        c03_sequence(&mut ctx, &mut Rng::new(cs), &pattern, None, i % 4 != 3);
        if rep.violation_count >= 12 {
            break;
        }
    }
    rep.obs("random_sequences", random_cases);
    rep.exhaustive = Some(true);
    rep.note(format!("exhaustive part: every accept/refuse pattern of length 1..={} for each of the {} entry points assigned to this shard", maxlen, eps.len()));
    rep.finish(args.get("out"))
}

// ------------------------------------------------------------------------------------------------
// C04
// ------------------------------------------------------------------------------------------------

/// Tag and container sections of a line whose strings are delimiter-free.
fn sections_of(text: &str) -> Result<(Option<String>, Option<String>), String> {
    let parts: Vec<&str> = text.split('|').collect();
    if parts.len() < 2 {
        return Err("no '|'".into());
    }
    let mut tags = None;
    let mut container = None;
    for sec in &parts[2..] {
        if let Some(t) = sec.strip_prefix('#') {
            if tags.is_some() {
                return Err("two tag sections".into());
            }
            tags = Some(t.to_string());
        } else if let Some(c) = sec.strip_prefix("c:") {
            if container.is_some() {
                return Err("two container sections".into());
            }
            container = Some(c.to_string());
        }
    }
    Ok((tags, container))
}

fn case_c04(ctx: &mut Ctx, r: &mut Rng) {
    case_c04_n(ctx, r, false)
}

/// Clients built DIRECTLY on the library's own sinks (what a client sends must not depend on what it is built on):
/// Unix and UDP datagram sinks (plain and buffered) with a live receiver, spy sinks, the nop sink, each also behind a
/// queuing sink. The line is read from the returned metric (plain and tagged forms).
fn case_c04_real_sinks(ctx: &mut Ctx, r: &mut Rng) {
    use cadence::{BufferedSpyMetricSink, BufferedUdpMetricSink, BufferedUnixMetricSink, NopMetricSink, QueuingMetricSink, SpyMetricSink, UdpMetricSink, UnixMetricSink};
    use std::net::UdpSocket;
    use std::os::unix::net::UnixDatagram;
    static N: std::sync::atomic::AtomicU64 = std::sync::atomic::AtomicU64::new(0);
    let (mut cfg, _p) = gen_client_cfg(r, false, true);
    // (datagram-sized strings: nothing of several KiB)
    cfg.prefix_raw.truncate(cfg.prefix_raw.char_indices().nth(40).map(|(i, _)| i).unwrap_or(cfg.prefix_raw.len()));
    let path = std::path::PathBuf::from(format!("/var/tmp/cvh-fmt-{}-{}.sock", std::process::id(), N.fetch_add(1, std::sync::atomic::Ordering::Relaxed)));
    let _ = std::fs::remove_file(&path);
    let unix_rx = UnixDatagram::bind(&path).expect("bind unix receiver");
    unix_rx.set_nonblocking(true).unwrap();
    let udp_rx = UdpSocket::bind("127.0.0.1:0").unwrap();
    udp_rx.set_nonblocking(true).unwrap();
    let udp_to = udp_rx.local_addr().unwrap();
    let mk_udp = || UdpSocket::bind("127.0.0.1:0").unwrap();
    let kind = r.below(14);
    let through_queue = kind >= 7;
    let label = ["UnixMetricSink", "BufferedUnixMetricSink", "UdpMetricSink", "BufferedUdpMetricSink", "SpyMetricSink", "BufferedSpyMetricSink", "NopMetricSink"][(kind % 7) as usize];
    let mut keep: Vec<Box<dyn std::any::Any>> = Vec::new();
    let client = match (kind % 7, through_queue) {
        (0, false) => build_client_on(&cfg, UnixMetricSink::from(&path, UnixDatagram::unbound().unwrap()), None),
        (0, true) => build_client_on(&cfg, QueuingMetricSink::from(UnixMetricSink::from(&path, UnixDatagram::unbound().unwrap())), None),
        (1, false) => build_client_on(&cfg, BufferedUnixMetricSink::with_capacity(&path, UnixDatagram::unbound().unwrap(), 64), None),
        (1, true) => build_client_on(&cfg, QueuingMetricSink::with_capacity(BufferedUnixMetricSink::from(&path, UnixDatagram::unbound().unwrap()), 64), None),
        (2, false) => build_client_on(&cfg, UdpMetricSink::from(udp_to, mk_udp()).unwrap(), None),
        (2, true) => build_client_on(&cfg, QueuingMetricSink::from(UdpMetricSink::from(udp_to, mk_udp()).unwrap()), None),
        (3, false) => build_client_on(&cfg, BufferedUdpMetricSink::with_capacity(udp_to, mk_udp(), 64).unwrap(), None),
        (3, true) => build_client_on(&cfg, QueuingMetricSink::from(BufferedUdpMetricSink::from(udp_to, mk_udp()).unwrap()), None),
        (4, q) => {
            let (rx, s) = SpyMetricSink::new();
            keep.push(Box::new(rx));
            if q { build_client_on(&cfg, QueuingMetricSink::from(s), None) } else { build_client_on(&cfg, s, None) }
        }
        (5, q) => {
            let (rx, s) = BufferedSpyMetricSink::new();
            keep.push(Box::new(rx));
            if q { build_client_on(&cfg, QueuingMetricSink::from(s), None) } else { build_client_on(&cfg, s, None) }
        }
        (_, false) => build_client_on(&cfg, NopMetricSink, None),
        (_, true) => build_client_on(&cfg, QueuingMetricSink::from(NopMetricSink), None),
    };
    ctx.rep.obs(&format!("clients_built_directly_on_{}{}", label, if through_queue { "_behind_a_queuing_sink" } else { "" }), 1);
    let eps = all_entry_points();
    let mut buf = [0u8; 65536];
    for _ in 0..24 {
        let (k, tt) = *r.pick(&eps);
        if tt == "user:Err" || tt.starts_with("Vec<") {
            continue;
        }
        let val = gen_val(r, k, tt, false, true);
        let form = *r.pick(&[Form::Plain, Form::Tagged]);
        let mask = (r.below(16) as u8) & !1;
        let decos = gen_decos(r, mask, false, true);
        let sp = spec(k, val, "k", form, decos);
        check_c04_call_on(ctx, &client, &cfg, None, &sp, false);
        // keep the receive queues empty (a Unix datagram socket holds about ten)
        while unix_rx.recv(&mut buf).is_ok() {}
        while udp_rx.recv(&mut buf).is_ok() {}
    }
    drop(client);
    let _ = std::fs::remove_file(&path);
}

fn case_c04_n(ctx: &mut Ctx, r: &mut Rng, one: bool) {
    if !one && r.chance(1, 6) {
        case_c04_real_sinks(ctx, r);
        return;
    }
    // C04 is judged on delimiter-free strings, where the tag and container sections are unambiguous - and, for a quarter
    // of the clients, on delimiter-laden ones (':', '|', '#', ',', newlines inside tags and container ids), where the
    // line must END with the expected tag and container sections (no timestamp is requested then)
    let with_defaults = !r.chance(1, 5);
    let dirty = r.chance(1, 4);
    let (cfg, _pclass) = gen_client_cfg(r, dirty, with_defaults);
    let sink = RecSink::new();
    let hlog = HandlerLog::default();
    let client = build_client(&cfg, sink.clone(), Some(hlog.clone()));
    let mut eps = all_entry_points();
    if one {
        eps = vec![*r.pick(&eps)];
    }
    let key = "k";
    for (kind, tt) in eps {
        if tt == "user:Err" {
            continue;
        }
        let val = gen_val(r, kind, tt, false, true);
        for form in [Form::Plain, Form::Tagged, Form::Quiet] {
            let mut mask = (r.below(16) as u8) & !1 | (r.below(2) as u8);
            if dirty {
                mask &= !8;
            }
            let decos = gen_decos(r, mask, dirty, true);
            let sp = spec(kind, val.clone(), key, form, decos);
            check_c04_call(ctx, &client, &cfg, &sink, &sp, dirty);
            // "for that call only": the next call without a per-call container must show the default again
            if mask & 4 != 0 && form != Form::Plain {
                let sp2 = spec(kind, val.clone(), key, form, vec![]);
                check_c04_call(ctx, &client, &cfg, &sink, &sp2, dirty);
            }
        }
    }
}

fn check_c04_call(ctx: &mut Ctx, client: &StatsdClient, cfg: &ClientCfg, sink: &RecSink, sp: &CallSpec, dirty: bool) {
    check_c04_call_on(ctx, client, cfg, Some(sink), sp, dirty)
}

/// `sink` None: the client sits directly on one of the library's own sinks; the line is the returned metric's text.
fn check_c04_call_on(ctx: &mut Ctx, client: &StatsdClient, cfg: &ClientCfg, sink: Option<&RecSink>, sp: &CallSpec, dirty: bool) {
    ctx.rep.eval();
    let before = sink.map(|s| s.emit_count()).unwrap_or(0);
    let exp = match expectation(cfg, sp) {
        Ok(e) => e,
        Err(()) => return,
    };
    let ret = panics::guard(|| call(client, sp));
    let emitted: Vec<(String, bool)> = match (sink, &ret) {
        (Some(s), _) => s.emits_from(before),
        (None, Ok(Ret::Ok(t))) => vec![(t.clone(), true)],
        _ => vec![],
    };
    if ret.is_err() || emitted.is_empty() {
        ctx.rep.obs("calls_without_line", 1);
        return;
    }
    let text = &emitted[0].0;
    if sink.is_none() {
        // (C01's rule; a C04 run does not report it)
        match matches_line(&exp, text) {
            Ok(()) => ctx.rep.obs("lines_of_clients_on_real_sinks_matched_reference", 1),
            Err(why) => ctx.violation("C01", "R(reference formatter)", "text-differs", format!("client built directly on one of the library's sinks: {}", why), jobj! {"call" => sp.to_json(), "returned" => clip(text, 300), "reference" => clip(&ref_line(&exp), 300)}),
        }
    }
    let per_call_tags = sp.decos.iter().filter(|d| matches!(d, Deco::Tag(..) | Deco::TagValue(_))).count();
    let per_call_container = sp.decos.iter().any(|d| matches!(d, Deco::Container(_)));
    let sig = format!(
        "{:?}|{}|{}|d{}|dc{}|pc{}|t{}",
        sp.kind,
        sp.val.type_tag(),
        sp.form.tag(),
        ntags_class(cfg.default_tags.len()),
        cfg.default_container.is_some(),
        per_call_container,
        ntags_class(per_call_tags)
    );
    if cfg.default_tags.is_empty() && cfg.default_container.is_none() && per_call_tags == 0 && !per_call_container {
        ctx.rep.trivial();
    } else {
        ctx.rep.distinct(&sig);
    }
    let trace = || -> Json {
        jobj! {
            "client" => jobj!{
                "prefix" => clip(&cfg.prefix_raw, 80),
                "default_tags" => clip(&format!("{:?}", cfg.default_tags), 400),
                "default_container" => cfg.default_container.clone(),
            },
            "call" => sp.to_json(),
            "emitted" => clip(text, 400),
            "expected_line" => clip(&ref_line(&exp), 400),
        }
    };
    if dirty {
        // sections cannot be cut out reliably when the strings contain the delimiters: the line has to end with them
        let mut tail = String::new();
        if !exp.tags.is_empty() {
            tail.push_str("|#");
            tail.push_str(&exp.tags.iter().map(|(k, v)| match k { Some(k) => format!("{}:{}", k, v), None => v.clone() }).collect::<Vec<_>>().join(","));
        }
        if let Some(c) = &exp.container {
            tail.push_str("|c:");
            tail.push_str(c);
        }
        ctx.rep.obs("delimiter_laden_decorations_checked", 1);
        if !text.ends_with(tail.as_str()) {
            ctx.violation("C04", "tags=defaults++call", "decoration-tail-wrong", format!("the line does not end with the expected tag / container sections {:?}", clip(&tail, 300)), trace());
        }
        return;
    }
    let (tags, container) = match sections_of(text) {
        Ok(x) => x,
        Err(_) => {
            ctx.rep.obs("unparseable_for_c04", 1);
            return;
        }
    };
    let want_tags = if exp.tags.is_empty() {
        None
    } else {
        Some(
            exp.tags
                .iter()
                .map(|(k, v)| match k {
                    Some(k) => format!("{}:{}", k, v),
                    None => v.clone(),
                })
                .collect::<Vec<_>>()
                .join(","),
        )
    };
    if tags != want_tags {
        let class = if cfg.default_tags.is_empty() { "call-tags-wrong" } else { "default-tags-wrong" };
        ctx.violation("C04", "tags=defaults++call", class, format!("tag section {:?}, expected {:?}", tags.as_deref().map(|s| clip(s, 200)), want_tags.as_deref().map(|s| clip(s, 200))), trace());
    } else {
        ctx.rep.obs("tag_sections_checked", 1);
    }
    if container != exp.container {
        let class = if per_call_container { "per-call-container-wrong" } else if cfg.default_container.is_some() { "default-container-wrong" } else { "container-from-nowhere" };
        ctx.violation("C04", "container=call-else-default", class, format!("container section {:?}, expected {:?}", container, exp.container), trace());
    } else {
        ctx.rep.obs("container_sections_checked", 1);
    }
    if ctx.rep.want_sample() {
        ctx.rep.sample(|| trace());
    }
}
