//! macro_miri (C17, second observer): a plain program - no hooks - run under Miri (many seeds: weak-memory emulation,
//! spurious compare-exchange failures, data-race and UB checks on the holder's cell). One global client is set, then
//! threads use every macro; a small oracle runs along: once `set_global_default` has returned, `is_global_default_set`
//! is true and no macro panics with "not set"; every macro line equals the explicit tagged chain on the same client.
//!
//!   macro_miri [threads] [macros-per-thread]
//! exit 0 = nothing observed; exit 1 = oracle failed (message on stdout). Miri reports on its own.

use cadence::prelude::*;
use cadence::{MetricSink, StatsdClient};
use cadence_macros::{get_global_default, is_global_default_set, set_global_default, statsd_count, statsd_distribution, statsd_gauge, statsd_histogram, statsd_meter, statsd_set, statsd_time};
use std::io;
use std::sync::{Arc, Mutex};

struct Rec(Arc<Mutex<Vec<String>>>);

impl MetricSink for Rec {
    fn emit(&self, m: &str) -> io::Result<usize> {
        self.0.lock().unwrap().push(m.to_string());
        Ok(m.len())
    }
}

fn fail(msg: String) -> ! {
    println!("MACRO-ORACLE-FAILED {}", msg);
    std::process::exit(1);
}

fn main() {
    let a: Vec<usize> = std::env::args().skip(1).filter_map(|s| s.parse().ok()).collect();
    let threads = a.first().copied().unwrap_or(2);
    let per = a.get(1).copied().unwrap_or(3);
    if is_global_default_set() {
        fail("is_global_default_set() is true before any set".into());
    }
    let lines = Arc::new(Mutex::new(Vec::new()));
    let client = StatsdClient::builder("mm", Rec(lines.clone())).with_tag("dflt", "1").build();
    // a thread that uses a macro while the set is (maybe) in progress: it either panics ("not set") or sends through the
    // first client - and its read of the stored client must be ordered after the write that initialised it
    let racer_lines = std::sync::Arc::new(std::sync::atomic::AtomicUsize::new(0));
    let rl = racer_lines.clone();
    let racer = std::thread::spawn(move || {
        for i in 0..3 {
            let r = std::panic::catch_unwind(|| {
                statsd_meter!("racer", 1u64);
            });
            if r.is_ok() {
                rl.fetch_add(1, std::sync::atomic::Ordering::SeqCst);
            }
            if i == 0 {
                std::thread::yield_now();
            }
        }
    });
    // a second thread sets a client of its own at the same moment (the first set wins, whichever it is), and a third one
    // keeps asking: whenever `is_global_default_set()` says yes, `get_global_default()` must deliver - "until a set has
    // completed, reads report that none is set" holds for the pair of global functions as it does for the holder
    let lines_b = Arc::new(Mutex::new(Vec::new()));
    let client_b = StatsdClient::builder("mm", Rec(lines_b.clone())).with_tag("dflt", "1").build();
    let setter_b = std::thread::spawn(move || {
        // (a LOSING set may return while the winner is still publishing: nothing can be asserted here)
        set_global_default(client_b);
    });
    let checker = std::thread::spawn(|| {
        for _ in 0..6 {
            if is_global_default_set() && get_global_default().is_err() {
                fail("property=C18 is_global_default_set() reported true but get_global_default() found no client: a read reported 'set' before a set had completed".into());
            }
            std::thread::yield_now();
        }
    });
    set_global_default(client);
    if setter_b.join().is_err() {
        fail("the second setter died".into());
    }
    // both sets have returned: the winner's has completed
    if !is_global_default_set() || get_global_default().is_err() {
        fail("property=C18 both set_global_default calls returned but the global client is not set".into());
    }
    // a second set must be ignored
    let other = Arc::new(Mutex::new(Vec::new()));
    set_global_default(StatsdClient::from_sink("other", Rec(other.clone())));
    let mut joins = Vec::new();
    for t in 0..threads {
        joins.push(std::thread::spawn(move || {
            for k in 0..per {
                let key = format!("t{}.k{}", t, k);
                let r = std::panic::catch_unwind(|| {
                    statsd_count!(&key, (k as i64) - 1);
                    statsd_gauge!(&key, k as u64 + 7, "a" => "b");
                    statsd_time!(&key, 5u64 + k as u64, "x" => "y", "z" => "w");
                    statsd_meter!(&key, 1u64);
                    statsd_histogram!(&key, 2u64 + k as u64);
                    statsd_distribution!(&key, 3u64);
                    statsd_set!(&key, k as i64, "s" => "t");
                });
                if r.is_err() {
                    return Err(format!("a macro panicked on thread {} although the global client was set", t));
                }
            }
            Ok(())
        }));
    }
    for j in joins {
        match j.join() {
            Ok(Ok(())) => {}
            Ok(Err(m)) => fail(m),
            Err(_) => fail("a macro thread died".into()),
        }
    }
    if racer.join().is_err() {
        fail("the racing macro thread died".into());
    }
    if checker.join().is_err() {
        fail("the checker thread died".into());
    }
    let racer_sent = racer_lines.load(std::sync::atomic::Ordering::SeqCst);
    // whichever of the two racing setters won: all lines went to ITS client, none to the other's
    let (la, lb) = (lines.lock().unwrap().clone(), lines_b.lock().unwrap().clone());
    if !la.is_empty() && !lb.is_empty() {
        fail(format!("property=C18 both racing setters' clients received lines ({} and {}): two different clients were returned", la.len(), lb.len()));
    }
    let mut got = if la.is_empty() { lb } else { la };
    // the racer's lines (0..3 of them, all alike) are accounted for separately
    let racer_seen = got.iter().filter(|l| l.starts_with("mm.racer:")).count();
    if racer_seen != racer_sent {
        fail(format!("the racing thread's macros returned normally {} times but {} of its lines reached the first client", racer_sent, racer_seen));
    }
    got.retain(|l| !l.starts_with("mm.racer:"));
    if !other.lock().unwrap().is_empty() {
        fail("a later set_global_default replaced the first client".into());
    }
    if got.len() != threads * per * 7 {
        fail(format!("{} lines reached the first client's sink, expected {}", got.len(), threads * per * 7));
    }
    // the same calls as explicit chains on an identically built client
    let want_lines = Arc::new(Mutex::new(Vec::new()));
    let c2 = StatsdClient::builder("mm", Rec(want_lines.clone())).with_tag("dflt", "1").build();
    for t in 0..threads {
        for k in 0..per {
            let key = format!("t{}.k{}", t, k);
            c2.count_with_tags(&key, (k as i64) - 1).send();
            c2.gauge_with_tags(&key, k as u64 + 7).with_tag("a", "b").send();
            c2.time_with_tags(&key, 5u64 + k as u64).with_tag("x", "y").with_tag("z", "w").send();
            c2.meter_with_tags(&key, 1u64).send();
            c2.histogram_with_tags(&key, 2u64 + k as u64).send();
            c2.distribution_with_tags(&key, 3u64).send();
            c2.set_with_tags(&key, k as i64).with_tag("s", "t").send();
        }
    }
    let mut want = want_lines.lock().unwrap().clone();
    let mut got_sorted = got.clone();
    want.sort();
    got_sorted.sort();
    if want != got_sorted {
        let d = want.iter().zip(got_sorted.iter()).find(|(a, b)| a != b);
        fail(format!("macro lines differ from the explicit chains, first difference: {:?}", d));
    }
    println!("macro_miri ok threads={} macros={} lines={}", threads, threads * per * 7, got.len());
}
