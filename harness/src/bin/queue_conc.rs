//! queue_conc: concurrent histories and forced windows for the queuing sink (C08 C09 C10 C11 C15 C16).
//!
//!   queue_conc --property Cxx --mode conc|windows --seed S --shard I --cases N --out FILE
//!
//! conc:    2-8 producers (own clones or one shared handle), handle churn on another thread, bounded and
//!          unbounded queues, wrapped sink with micro-sleeps / errors / panics, a sampler thread reading
//!          queued() then submitted(). Offline rules over the recorded history.
//! windows: hook H2 parks a producer between try_send and its bookkeeping, the worker between receive and its
//!          bookkeeping, the worker just before it waits, and the dropper between "flag set" and "wake-up".

use cadence::{MetricSink, QueuingMetricSink};
use cvh::procmon;
use cvh::qmon::*;
use cvh::rng::{mix, Rng};
use cvh::{jobj, panics, Args, Json, Report, Violation};
use std::collections::HashMap;
use std::sync::atomic::{AtomicBool, AtomicU64, Ordering};
use std::sync::{Arc, Barrier};
use std::time::Duration;

struct V {
    props: Vec<&'static str>,
    rule: &'static str,
    class: String,
    detail: String,
}

/// Did the wrapped sink panic before the RET of `metric` was logged?
fn panicked_before(log: &[Ev], metric: &str) -> bool {
    for e in log {
        match e {
            Ev::Exit { out: Out::Panic, .. } => return true,
            Ev::Ret { metric: m, .. } if m == metric => return false,
            _ => {}
        }
    }
    false
}

fn log_json(log: &[Ev], max: usize) -> Json {
    Json::Arr(log.iter().take(max).map(|e| Json::Str(e.short())).collect())
}

struct ConcCfg {
    cap: Option<usize>,
    producers: usize,
    per_producer: usize,
    shared_handle: bool,
    churn: bool,
    handler: bool,
    sleep_us: (u64, u64),
    p_err: u64,
    p_panic: u64,
    drop_all_early: bool,
}

impl ConcCfg {
    fn json(&self) -> Json {
        jobj! {
            "capacity" => self.cap.map(|c| c.to_string()).unwrap_or_else(|| "unbounded".into()),
            "producers" => self.producers, "emits_per_producer" => self.per_producer, "shared_handle" => self.shared_handle,
            "handle_churn" => self.churn, "handler" => self.handler, "sink_sleep_us" => format!("{:?}", self.sleep_us),
            "p_err_percent" => self.p_err, "p_panic_percent" => self.p_panic, "last_drop_with_work_queued" => self.drop_all_early,
        }
    }
}

struct ConcOutcome {
    viol: Vec<V>,
    inconclusive: Option<String>,
    log: Vec<Ev>,
    obs: Vec<(String, u64)>,
    sigs: Vec<String>,
}

type Job = Box<dyn FnOnce() + Send>;

/// How many harness threads have emitted through a queuing sink so far in this process (the first veteran is number 0).
static EMITTERS: AtomicU64 = AtomicU64::new(0);

/// The process's long-lived producer threads (harness threads for good), started one by one as they are first needed.
fn veteran(i: usize) -> &'static std::sync::mpsc::Sender<Job> {
    static V: [std::sync::OnceLock<std::sync::mpsc::Sender<Job>>; 4] = [std::sync::OnceLock::new(), std::sync::OnceLock::new(), std::sync::OnceLock::new(), std::sync::OnceLock::new()];
    V[i % 4].get_or_init(|| {
        EMITTERS.fetch_add(1, Ordering::SeqCst);
        let (tx, rx) = std::sync::mpsc::channel::<Job>();
        std::thread::Builder::new()
            .name(format!("veteran-producer-{}", i % 4))
            .spawn(move || {
                procmon::register_current();
                while let Ok(job) = rx.recv() {
                    job();
                }
            })
            .unwrap();
        tx
    })
}

fn run_conc(cfg: &ConcCfg, rng: &mut Rng, sid: u64) -> ConcOutcome {
    let sh = Shared::new(false);
    sh.st.lock().unwrap().sleep_us = cfg.sleep_us;
    set_current(None); // points are not logged in concurrent mode (too many)
    let mut viol: Vec<V> = Vec::new();
    let mut obs: Vec<(String, u64)> = Vec::new();
    // every fourth history: before the sink of this history is built, 2^m - 1 short-lived threads each emit one metric through a
    // scratch queuing sink and end - whatever a library keys by "the n-th thread that ever emitted" (slots, stripes,
    // per-thread caches folded modulo a table size) then pairs this history's newcomers with the veteran
    if rng.chance(1, 4) {
        // (the harness counts the threads it has let emit so far; the count is chosen so that this history's first
        // newcomer is 16, 32, 64, 128 or 256 emitting threads younger than the first veteran)
        let m = *rng.pick(&[16u64, 32, 64, 64, 128, 256]);
        let next = EMITTERS.load(Ordering::SeqCst);
        let k = ((m - (next % m)) % m) as usize;
        let scratch = QueuingMetricSink::from(cadence::NopMetricSink);
        for i in 0..k {
            let h = scratch.clone();
            let _ = std::thread::spawn(move || {
                let _reg = procmon::Registration::new();
                let _ = h.emit(&format!("burn.{}:1|c", i));
            })
            .join();
            EMITTERS.fetch_add(1, Ordering::SeqCst);
        }
        drop(scratch);
        let _ = await_no_library_thread();
        obs.push(("short_lived_emitting_threads_before_the_producers".into(), k as u64));
    }
    // (three public ways to a builder: they are the same builder)
    let mut builder = match sid % 3 {
        0 => QueuingMetricSink::builder(),
        1 => cadence::QueuingMetricSinkBuilder::new(),
        _ => cadence::QueuingMetricSinkBuilder::default(),
    };
    let handler_first = sid % 2 == 0;
    if cfg.handler && handler_first {
        builder = builder.with_error_handler(handler_for(sh.clone()));
    }
    if let Some(c) = cfg.cap {
        builder = builder.with_capacity(c);
    }
    if cfg.handler && !handler_first {
        builder = builder.with_error_handler(handler_for(sh.clone()));
    }
    let q = builder.build(GatedSink { sh: sh.clone() });
    let stop_sampler = Arc::new(AtomicBool::new(false));
    let samples = Arc::new(AtomicU64::new(0));
    let samples_mid = Arc::new(AtomicU64::new(0));
    let max_queued = Arc::new(AtomicU64::new(0));
    let sampler_viol: Arc<std::sync::Mutex<Option<String>>> = Arc::new(std::sync::Mutex::new(None));
    // sampler (C15): queued() first, submitted() afterwards - submitted is monotone, so the later read bounds queued
    let sampler = {
        let qs = q.clone();
        let stop = stop_sampler.clone();
        let (samples, samples_mid, max_queued, sv) = (samples.clone(), samples_mid.clone(), max_queued.clone(), sampler_viol.clone());
        std::thread::Builder::new()
            .name("sampler".into())
            .spawn(move || {
                let _reg = procmon::Registration::new();
                let mut n = 0u64;
                while !stop.load(Ordering::Relaxed) {
                    let r = panics::guard(|| {
                        let qd = qs.queued();
                        let s = qs.submitted();
                        (qd, s)
                    });
                    match r {
                        Ok((qd, s)) => {
                            n += 1;
                            if qd > s {
                                let mut g = sv.lock().unwrap();
                                if g.is_none() {
                                    *g = Some(format!("queued() = {} exceeds submitted() = {} read afterwards", qd, s));
                                }
                            }
                            if qd > 0 && qd < s {
                                samples_mid.fetch_add(1, Ordering::Relaxed);
                            }
                            max_queued.fetch_max(qd, Ordering::Relaxed);
                        }
                        Err(p) => {
                            let mut g = sv.lock().unwrap();
                            if g.is_none() {
                                *g = Some(format!("reading the counters panicked: {}", p));
                            }
                            break;
                        }
                    }
                    if n % 64 == 0 {
                        std::thread::yield_now();
                    }
                }
                samples.store(n, Ordering::Relaxed);
                drop(qs); // the sampler's clone goes away here (never the last handle)
            })
            .unwrap()
    };
    // churn thread: clone and drop handles all the time (must never stop the worker)
    let stop_churn = Arc::new(AtomicBool::new(false));
    let churned = Arc::new(AtomicU64::new(0));
    let churn = if cfg.churn {
        let qc = q.clone();
        let stop = stop_churn.clone();
        let churned = churned.clone();
        Some(
            std::thread::Builder::new()
                .name("churn".into())
                .spawn(move || {
                    let _reg = procmon::Registration::new();
                    let mut n = 0u64;
                    while !stop.load(Ordering::Relaxed) {
                        let c = qc.clone();
                        let c2 = c.clone();
                        drop(c);
                        drop(c2);
                        n += 2;
                        if n % 16 == 0 {
                            std::thread::yield_now();
                        }
                    }
                    churned.store(n, Ordering::Relaxed);
                    drop(qc);
                })
                .unwrap(),
        )
    } else {
        None
    };
    // producers
    let barrier = Arc::new(Barrier::new(cfg.producers));
    let shared_q = Arc::new(q.clone());
    let mut joins = Vec::new();
    let mut veteran_results: Vec<std::sync::mpsc::Receiver<Option<String>>> = Vec::new();
    for p in 0..cfg.producers {
        let handle: Option<QueuingMetricSink> = if cfg.shared_handle { None } else { Some(q.clone()) };
        let shq = shared_q.clone();
        let sh2 = sh.clone();
        let bar = barrier.clone();
        let n = cfg.per_producer;
        let (p_err, p_panic) = (cfg.p_err, cfg.p_panic);
        let mut prng = rng.fork();
        // producer 0 of every history runs on one long-lived thread of the process (a veteran next to the newcomers
        // spawned for this history: per-thread state a library keeps - slots, stripes, caches keyed by thread - then
        // belongs to threads of very different ages)
        // (the first half of the producers, at most four)
        let on_veteran = p < 4 && p < (cfg.producers + 1) / 2;
        let work = move || {
                    let _reg = if on_veteran { None } else { Some(procmon::Registration::new()) };
                    let tid = procmon::gettid();
                    bar.wait();
                    let mut panicked: Option<String> = None;
                    for k in 0..n {
                        let out = {
                            let x = prng.below(100);
                            if x < p_panic {
                                Out::Panic
                            } else if x < p_panic + p_err {
                                Out::Err(prng.below(10) as u8)
                            } else {
                                Out::Ok
                            }
                        };
                        let text = metric_text(&format!("s{}.p{}.n{}", sid, p, k), &out, prng.below(8) as usize);
                        sh2.push(Ev::Call { h: p, metric: text.clone(), tid });
                        let hd: &QueuingMetricSink = handle.as_ref().unwrap_or(&shq);
                        let r = panics::guard(|| hd.emit(&text));
                        match r {
                            Ok(Ok(nb)) => sh2.push(Ev::Ret { h: p, metric: text, ok: Ok(nb) }),
                            Ok(Err(e)) => sh2.push(Ev::Ret { h: p, metric: text, ok: Err(e.to_string()) }),
                            Err(pm) => {
                                sh2.push(Ev::Ret { h: p, metric: text, ok: Err(format!("PANIC {}", pm)) });
                                panicked = Some(pm);
                                break;
                            }
                        }
                        if prng.chance(1, 20) {
                            std::thread::yield_now();
                        }
                        if prng.chance(1, 25) {
                            // callers may flush at any time: it must neither block on nor run the wrapped sink's emit
                            let _ = panics::guard(|| hd.flush());
                        }
                    }
                    drop(handle);
                    panicked
        };
        if on_veteran {
            let (tx, rx) = std::sync::mpsc::channel::<Option<String>>();
            veteran(p).send(Box::new(move || {
                let _ = tx.send(work());
            })).expect("veteran thread gone");
            veteran_results.push(rx);
        } else {
            EMITTERS.fetch_add(1, Ordering::SeqCst);
            joins.push(std::thread::Builder::new().name(format!("producer-{}", p)).spawn(work).unwrap());
        }
    }
    let mut results: Vec<Option<String>> = joins.into_iter().map(|j| j.join().ok().flatten()).collect();
    for rx in veteran_results {
        results.push(rx.recv().ok().flatten());
    }
    for r in results {
        if let Some(pm) = r {
            viol.push(V { props: vec!["C10"], rule: "R5", class: "emit-panicked".into(), detail: format!("emit unwound into a producer thread: {}", pm) });
        }
    }
    stop_churn.store(true, Ordering::Relaxed);
    if let Some(c) = churn {
        let _ = c.join();
    }
    drop(shared_q);
    let accepted: Vec<String> = sh.log().iter().filter_map(|e| if let Ev::Ret { metric, ok: Ok(_), .. } = e { Some(metric.clone()) } else { None }).collect();
    let total = accepted.len();
    let mut inconclusive = None;
    let mut aborted = false;
    let mut stuck_phase = "";
    if cfg.drop_all_early {
        // C09 under concurrency: stop sampling and drop every handle while work is still queued
        stop_sampler.store(true, Ordering::Relaxed);
        let _ = sampler.join();
        let r = panics::guard(move || drop(q));
        if let Err(p) = r {
            viol.push(V { props: vec!["C09"], rule: "R4", class: "drop-panicked".into(), detail: p });
        }
        match await_log(&sh, |st| st.n_exit >= total) {
            Ok(()) => {}
            Err(st) => {
                if st.is_verdict() {
                    viol.push(V { props: vec!["C09", "C08"], rule: "R4", class: "undelivered-after-last-drop".into(), detail: format!("{} accepted, {} delivered: {}", total, sh.count(|e| matches!(e, Ev::Exit { .. })), st.describe()) });
                } else {
                    inconclusive = Some(st.describe());
                }
                aborted = true;
                stuck_phase = "delivery-after-drop";
            }
        }
        if !aborted {
            if let Err(st) = await_log(&sh, |st| st.log.iter().any(|e| matches!(e, Ev::SinkDrop { .. }))).and_then(|_| await_no_library_thread()) {
                if st.is_verdict() {
                    viol.push(V { props: vec!["C09"], rule: "R4", class: "worker-or-sink-not-released".into(), detail: st.describe() });
                } else {
                    inconclusive = Some(st.describe());
                }
                aborted = true;
                stuck_phase = "release";
            }
        }
    } else {
        match await_log(&sh, |st| st.n_exit >= total) {
            Ok(()) => {}
            Err(st) => {
                if st.is_verdict() {
                    let mut props = vec!["C08"];
                    if sh.count(|e| matches!(e, Ev::Exit { out: Out::Panic, .. })) > 0 {
                        props.push("C11");
                    }
                    viol.push(V {
                        props,
                        rule: "R1",
                        class: if cfg.churn { "emit-after-non-last-handle-drop".into() } else { "accepted-never-delivered".into() },
                        detail: format!("{} accepted, {} delivered while handles are alive: {}", total, sh.count(|e| matches!(e, Ev::Exit { .. })), st.describe()),
                    });
                } else {
                    inconclusive = Some(st.describe());
                }
                aborted = true;
                stuck_phase = "delivery";
            }
        }
        stop_sampler.store(true, Ordering::Relaxed);
        let _ = sampler.join();
        if !aborted {
            // every panicked thread must be gone before panics() is exact; handler calls lag EXIT slightly
            let ptids: Vec<u32> = sh.log().iter().filter_map(|e| if let Ev::Exit { out: Out::Panic, tid, .. } = e { Some(*tid) } else { None }).collect();
            for t in ptids {
                let _ = await_thread_gone(t);
            }
            if cfg.handler {
                let errs = sh.count(|e| matches!(e, Ev::Exit { out: Out::Err(_), .. }));
                let _ = await_log(&sh, |st| st.log.iter().filter(|e| matches!(e, Ev::Handler { .. })).count() >= errs);
            }
            let (qd, s, d, pn) = (q.queued(), q.submitted(), q.drained(), q.panics());
            let want_p = sh.count(|e| matches!(e, Ev::Exit { out: Out::Panic, .. })) as u64;
            obs.push(("final_counter_checks".into(), 1));
            if s != total as u64 || d != total as u64 || qd != 0 {
                viol.push(V { props: vec!["C15"], rule: "R7", class: "final-counters".into(), detail: format!("at rest: submitted={} drained={} queued={}, but {} emits returned Ok and all were handed over", s, d, qd, total) });
            }
            if pn != want_p {
                viol.push(V { props: vec!["C11"], rule: "R6", class: "panic-count".into(), detail: format!("panics() = {} but the wrapped sink panicked {} times", pn, want_p) });
            }
            let r = panics::guard(move || drop(q));
            if let Err(p) = r {
                viol.push(V { props: vec!["C09"], rule: "R4", class: "drop-panicked".into(), detail: p });
            }
            if let Err(st) = await_log(&sh, |st| st.log.iter().any(|e| matches!(e, Ev::SinkDrop { .. }))).and_then(|_| await_no_library_thread()) {
                if st.is_verdict() {
                    viol.push(V { props: vec!["C09"], rule: "R4", class: "worker-or-sink-not-released".into(), detail: st.describe() });
                } else {
                    inconclusive = Some(st.describe());
                }
                aborted = true;
                stuck_phase = "release";
            }
        } else {
            let _ = panics::guard(move || drop(q));
        }
    }
    if aborted {
        std::thread::sleep(Duration::from_millis(20));
        adopt_zombies();
    }
    if let Some(m) = sampler_viol.lock().unwrap().take() {
        viol.push(V { props: vec!["C15"], rule: "R7", class: "queued-out-of-range".into(), detail: m });
    }
    obs.push(("sampler_reads".into(), samples.load(Ordering::Relaxed)));
    obs.push(("sampler_reads_with_0<queued<submitted".into(), samples_mid.load(Ordering::Relaxed)));
    obs.push(("max_queued_seen".into(), max_queued.load(Ordering::Relaxed)));
    obs.push(("handle_clone_drop_pairs_during_run".into(), churned.load(Ordering::Relaxed)));
    let _ = stuck_phase;

    // ---- offline rules ----
    let log = sh.log();
    let mut sigs = Vec::new();
    if inconclusive.is_none() {
        offline(cfg, &log, &accepted, aborted, &mut viol, &mut obs, &mut sigs);
    }
    ConcOutcome { viol, inconclusive, log, obs, sigs }
}

fn producer_of(metric: &str) -> usize {
    metric.split('.').nth(1).and_then(|p| p.strip_prefix('p')).and_then(|p| p.parse().ok()).unwrap_or(0)
}

fn offline(cfg: &ConcCfg, log: &[Ev], accepted: &[String], aborted: bool, viol: &mut Vec<V>, obs: &mut Vec<(String, u64)>, sigs: &mut Vec<String>) {
    let any_panic = log.iter().any(|e| matches!(e, Ev::Exit { out: Out::Panic, .. }));
    let mut pd: Vec<&'static str> = vec!["C08"];
    if any_panic {
        pd.push("C11");
    }
    let mut enter_pos: HashMap<&str, usize> = HashMap::new();
    let mut enters: Vec<&str> = Vec::new();
    for e in log {
        if let Ev::Enter { metric, .. } = e {
            if enter_pos.insert(metric.as_str(), enters.len()).is_some() {
                viol.push(V { props: pd.clone(), rule: "R1", class: "delivered-twice".into(), detail: format!("{} was handed to the wrapped sink twice", metric) });
                return;
            }
            enters.push(metric.as_str());
        }
    }
    let acc_set: std::collections::HashSet<&str> = accepted.iter().map(|s| s.as_str()).collect();
    for m in &enters {
        if !acc_set.contains(m) {
            // a refused or unknown metric was delivered
            viol.push(V { props: pd.clone(), rule: "R1", class: "delivered-not-accepted".into(), detail: format!("{} was handed to the wrapped sink but its emit did not return Ok", m) });
            return;
        }
    }
    if !aborted && enters.len() != accepted.len() {
        viol.push(V { props: pd.clone(), rule: "R1", class: "accepted-never-delivered".into(), detail: format!("{} accepted, {} delivered", accepted.len(), enters.len()) });
        return;
    }
    // R2a: per producer, delivery order = acceptance order
    let mut last_seq: HashMap<usize, (usize, String)> = HashMap::new(); // producer -> (enter position of the previous accepted, metric)
    for m in accepted {
        if let Some(&pos) = enter_pos.get(m.as_str()) {
            let p = producer_of(m);
            if let Some((prev, pm)) = last_seq.get(&p) {
                if pos < *prev {
                    viol.push(V { props: pd.clone(), rule: "R2", class: "out-of-order".into(), detail: format!("producer {}: {} was accepted after {} but delivered before it", p, m, pm) });
                    return;
                }
            }
            last_seq.insert(p, (pos, m.clone()));
        }
    }
    // R2b: real-time precedence: RET(a) before CALL(b) in the log => ENTER(a) before ENTER(b)
    let mut prefix_max: Option<(usize, &str)> = None;
    let mut bound_at_call: HashMap<&str, (usize, &str)> = HashMap::new();
    for e in log {
        match e {
            Ev::Call { metric, .. } => {
                if let Some(b) = prefix_max {
                    bound_at_call.insert(metric.as_str(), b);
                }
            }
            Ev::Ret { metric, ok: Ok(_), .. } => {
                if let Some(&pos) = enter_pos.get(metric.as_str()) {
                    if prefix_max.map(|(p, _)| pos > p).unwrap_or(true) {
                        prefix_max = Some((pos, metric.as_str()));
                    }
                }
            }
            _ => {}
        }
    }
    for (m, (bound, earlier)) in &bound_at_call {
        if let Some(&pos) = enter_pos.get(m) {
            if pos < *bound {
                viol.push(V { props: pd.clone(), rule: "R2", class: "real-time-order".into(), detail: format!("emit({}) had returned before emit({}) was called, yet {} was delivered first", earlier, m, m) });
                return;
            }
        }
    }
    obs.push(("real_time_precedence_pairs_checked".into(), bound_at_call.len() as u64));
    // R3: ENTER/EXIT alternate; C10: not on harness threads
    let mut inside = false;
    for e in log {
        match e {
            Ev::Enter { metric, tid, on_harness_thread } => {
                if inside {
                    viol.push(V { props: pd.clone(), rule: "R3", class: "overlapping-sink-calls".into(), detail: format!("{} entered the wrapped sink while another call was in progress", metric) });
                    return;
                }
                inside = true;
                if *on_harness_thread {
                    viol.push(V { props: vec!["C10"], rule: "R5", class: "sink-on-caller-thread".into(), detail: format!("wrapped sink invoked for {} on caller thread {}", metric, tid) });
                    return;
                }
            }
            Ev::Exit { .. } => inside = false,
            _ => {}
        }
    }
    // R5 tolerant (C10), appendix C of DESIGN.md
    if let Some(cap) = cfg.cap {
        if cap > 0 {
            let mut acc = 0i64;
            let mut ent = 0i64;
            let mut inflight: HashMap<usize, i64> = HashMap::new(); // producer -> entered count at its CALL
            for e in log {
                match e {
                    Ev::Call { h, .. } => {
                        inflight.insert(*h, ent);
                    }
                    Ev::Enter { .. } => ent += 1,
                    Ev::Ret { h, metric, ok } => {
                        let ent_at_call = inflight.remove(h).unwrap_or(ent);
                        match ok {
                            Ok(n) => {
                                acc += 1;
                                if *n != metric.len() {
                                    viol.push(V { props: vec!["C10"], rule: "R5", class: "return-count".into(), detail: format!("emit returned Ok({}) for {} bytes", n, metric.len()) });
                                    return;
                                }
                                if acc - ent - 1 > cap as i64 {
                                    viol.push(V {
                                        props: vec!["C10"],
                                        rule: "R5",
                                        class: "capacity-exceeded".into(),
                                        detail: format!("when emit({}) returned Ok, {} metrics were accepted and only {} handed over: more than capacity {} (+1 in flight) were queued", metric, acc, ent, cap),
                                    });
                                    return;
                                }
                            }
                            Err(msg) => {
                                if msg.contains("scripted") {
                                    viol.push(V { props: vec!["C10"], rule: "R5", class: "wrapped-error-surfaced".into(), detail: format!("emit returned the wrapped sink's error: {}", msg) });
                                    return;
                                }
                                let others = inflight.len() as i64;
                                if acc + others - ent_at_call < cap as i64 {
                                    viol.push(V {
                                        // "the sink keeps accepting metrics" after a panic of the wrapped sink is C11's clause too
                                        props: if panicked_before(log, metric) { vec!["C10", "C11"] } else { vec!["C10"] },
                                        rule: "R5",
                                        class: "refused-with-room".into(),
                                        detail: format!("emit({}) was refused although at most {} metrics can have been queued during the call (capacity {})", metric, acc + others - ent_at_call, cap),
                                    });
                                    return;
                                }
                            }
                        }
                    }
                    _ => {}
                }
            }
            obs.push(("capacity_bound_checks".into(), acc as u64));
        }
    } else {
        for e in log {
            if let Ev::Ret { metric, ok: Err(msg), .. } = e {
                viol.push(V { props: if panicked_before(log, metric) { vec!["C10", "C11"] } else { vec!["C10"] }, rule: "R5", class: "unbounded-refused".into(), detail: format!("an unbounded queue refused {}: {}", metric, msg) });
                return;
            }
        }
    }
    // R8 (C16)
    let sinkside: Vec<&Ev> = log.iter().filter(|e| matches!(e, Ev::Enter { .. } | Ev::Exit { .. } | Ev::Handler { .. })).collect();
    let mut i = 0;
    while i < sinkside.len() {
        match sinkside[i] {
            Ev::Exit { metric, out: Out::Err(kidx), tid } if cfg.handler => match sinkside.get(i + 1) {
                Some(Ev::Handler { msg, kind, tid: ht, on_harness_thread: h_on_harness }) => {
                    let ok = msg == &expected_handler_msg(*kidx, metric) && *kind == ERR_KINDS[*kidx as usize % ERR_KINDS.len()];
                    if !ok {
                        viol.push(V { props: vec!["C16"], rule: "R8", class: "handler-wrong-error".into(), detail: format!("handler got {:?}/{} for the failure of {}", kind, msg, metric) });
                        return;
                    }
                    if ht != tid || *h_on_harness {
                        viol.push(V { props: vec!["C16"], rule: "R8", class: "handler-wrong-thread".into(), detail: format!("handler ran on thread {}, the wrapped sink failed on thread {}", ht, tid) });
                        return;
                    }
                    if let Some(Ev::Handler { .. }) = sinkside.get(i + 2) {
                        viol.push(V { props: vec!["C16"], rule: "R8", class: "handler-called-twice".into(), detail: format!("handler invoked twice for the failure of {}", metric) });
                        return;
                    }
                    i += 2;
                    continue;
                }
                other => {
                    if !aborted || other.is_some() {
                        viol.push(V { props: vec!["C16"], rule: "R8", class: "handler-not-called".into(), detail: format!("no handler call between the failure of {} and the next delivery", metric) });
                        return;
                    }
                }
            },
            Ev::Handler { msg, .. } => {
                viol.push(V { props: vec!["C16"], rule: "R8", class: if cfg.handler { "handler-without-failure".into() } else { "handler-not-configured".into() }, detail: format!("handler invoked with {} without a preceding failure", msg) });
                return;
            }
            _ => {}
        }
        i += 1;
    }
    // what was observed: interleaving of producers in delivery order
    let pids: Vec<usize> = enters.iter().map(|m| producer_of(m)).collect();
    let switches = pids.windows(2).filter(|w| w[0] != w[1]).count();
    obs.push(("producer_switches_in_delivery_order".into(), switches as u64));
    obs.push(("deliveries_observed".into(), enters.len() as u64));
    obs.push(("emits_refused".into(), log.iter().filter(|e| matches!(e, Ev::Ret { ok: Err(_), .. })).count() as u64));
    obs.push(("scripted_panics".into(), log.iter().filter(|e| matches!(e, Ev::Exit { out: Out::Panic, .. })).count() as u64));
    obs.push(("scripted_errors".into(), log.iter().filter(|e| matches!(e, Ev::Exit { out: Out::Err(_), .. })).count() as u64));
    obs.push(("handler_calls".into(), log.iter().filter(|e| matches!(e, Ev::Handler { .. })).count() as u64));
    let capc = cfg.cap.map(|c| c.to_string()).unwrap_or_else(|| "u".into());
    for w in pids.windows(3) {
        if w[0] != w[1] || w[1] != w[2] {
            sigs.push(format!("conc|{}|P{}|{}-{}-{}", capc, cfg.producers, w[0], w[1], w[2]));
        }
    }
}

// ------------------------------------------------------------------------------------------------
// forced windows (hook H2)
// ------------------------------------------------------------------------------------------------

fn window_scenarios(rep: &mut Report, prop: &str, args: &Args, rounds: u64) {
    if !install_point_logger() {
        rep.inconclusive("the library was built without the verification hooks: forced windows unavailable");
        return;
    }
    let max = Duration::from_secs(30);
    let mut report = |rep: &mut Report, v: V, log: &[Ev], name: &str| {
        for p in &v.props {
            if *p == prop {
                rep.violation(Violation {
                    property: p.to_string(),
                    rule: v.rule.into(),
                    class: v.class.clone(),
                    detail: format!("[window {}] {}", name, v.detail),
                    replay_args: args.to_vec_with(&[]),
                    trace: jobj! {"window" => name, "event_log" => log_json(log, 200)},
                });
            } else {
                rep.obs("other_property_rule_hits", 1);
            }
        }
    };
    for round in 0..rounds {
        for cap in [None, Some(1usize), Some(2), Some(8)] {
            // ---- window A: producer parked between try_send and incr_submitted; the worker overtakes the bookkeeping ----
            {
                let name = "A:submit.sent(consumer overtakes producer bookkeeping)";
                let sh = Shared::new(false);
                set_current(Some(sh.clone()));
                let mut b = QueuingMetricSink::builder();
                if let Some(c) = cap {
                    b = b.with_capacity(c);
                }
                let q = b.build(GatedSink { sh: sh.clone() });
                let _ = await_log(&sh, |st| st.log.iter().any(|e| matches!(e, Ev::Point { name: "queuing.run.wait", .. })));
                arm("queuing.submit.sent");
                let qp = q.clone();
                let text = format!("w{}.a|ok", round);
                let t2 = text.clone();
                let prod = std::thread::spawn(move || {
                    let _reg = procmon::Registration::new();
                    let r = panics::guard(|| qp.emit(&t2));
                    drop(qp);
                    r
                });
                rep.eval();
                if !await_parked("queuing.submit.sent", max) {
                    rep.inconclusive("window A: the producer never reached queuing.submit.sent");
                    disarm_all();
                    let _ = prod.join();
                    continue;
                }
                // the worker takes the entry and hands it over while the producer has not counted it yet
                let got = await_log(&sh, |st| st.log.iter().any(|e| matches!(e, Ev::Exit { .. })));
                let sample = panics::guard(|| (q.queued(), q.submitted(), q.drained()));
                rep.obs("forced_window_A_samples", 1);
                match (&got, &sample) {
                    (Ok(()), Ok((qd, s, d))) => {
                        rep.distinct(&format!("winA|{:?}|{}|{}|{}", cap, qd, s, d));
                        if *qd > *s {
                            report(rep, V { props: vec!["C15"], rule: "R7", class: "queued-out-of-range".into(), detail: format!("inside the window (entry handed over, producer not yet counted): queued()={} submitted()={} drained()={}", qd, s, d) }, &sh.log(), name);
                        }
                    }
                    (Ok(()), Err(p)) => report(rep, V { props: vec!["C15", "C20"], rule: "R7", class: "counter-read-panicked".into(), detail: format!("reading the counters inside the window panicked: {}", p) }, &sh.log(), name),
                    (Err(st), _) => {
                        if st.is_verdict() {
                            report(rep, V { props: vec!["C08"], rule: "R1", class: "accepted-never-delivered".into(), detail: st.describe() }, &sh.log(), name);
                        } else {
                            rep.inconclusive(st.describe());
                        }
                    }
                }
                release("queuing.submit.sent");
                let r = prod.join();
                if let Ok(Ok(Ok(n))) = &r {
                    if *n != text.len() {
                        report(rep, V { props: vec!["C10"], rule: "R5", class: "return-count".into(), detail: format!("Ok({})", n) }, &sh.log(), name);
                    }
                }
                let rest = (q.queued(), q.submitted(), q.drained());
                if rest != (0, 1, 1) {
                    report(rep, V { props: vec!["C15"], rule: "R7", class: "final-counters".into(), detail: format!("at rest after the window: (queued, submitted, drained) = {:?}, expected (0, 1, 1)", rest) }, &sh.log(), name);
                }
                drop(q);
                let _ = await_log(&sh, |st| st.log.iter().any(|e| matches!(e, Ev::SinkDrop { .. }))).and_then(|_| await_no_library_thread());
                set_current(None);
                if rep.want_sample() {
                    rep.sample(|| jobj! {"window" => name, "capacity" => format!("{:?}", cap), "sample_inside(queued,submitted,drained)" => format!("{:?}", sample), "event_log" => log_json(&sh.log(), 20)});
                }
            }
            // ---- window B: worker parked between receive and incr_drained ----
            {
                let name = "B:run.taken(entry received, not yet counted as drained)";
                let sh = Shared::new(false);
                set_current(Some(sh.clone()));
                let mut b = QueuingMetricSink::builder();
                if let Some(c) = cap {
                    b = b.with_capacity(c);
                }
                let q = b.build(GatedSink { sh: sh.clone() });
                let _ = await_log(&sh, |st| st.log.iter().any(|e| matches!(e, Ev::Point { name: "queuing.run.wait", .. })));
                arm("queuing.run.taken");
                rep.eval();
                let text = format!("w{}.b|ok", round);
                let r = panics::guard(|| q.emit(&text));
                if !await_parked("queuing.run.taken", max) {
                    rep.inconclusive("window B: the worker never reached queuing.run.taken");
                    disarm_all();
                } else {
                    let sample = panics::guard(|| (q.queued(), q.submitted(), q.drained()));
                    rep.obs("forced_window_B_samples", 1);
                    match &sample {
                        Ok((qd, s, d)) => {
                            rep.distinct(&format!("winB|{:?}|{}|{}|{}", cap, qd, s, d));
                            if *qd > *s || *s != 1 {
                                report(rep, V { props: vec!["C15"], rule: "R7", class: "queued-out-of-range".into(), detail: format!("inside the window: queued()={} submitted()={} drained()={}", qd, s, d) }, &sh.log(), name);
                            }
                            // with the worker parked after taking the entry, a queue of capacity c accepts exactly c more
                            if let Some(c) = cap {
                                let mut okn = 0;
                                for k in 0..c + 2 {
                                    if q.emit(&format!("w{}.b{}|ok", round, k)).is_ok() {
                                        okn += 1;
                                    }
                                }
                                rep.obs("capacity_probes_with_worker_parked", 1);
                                if okn != c {
                                    report(rep, V { props: vec!["C10"], rule: "R5", class: if okn > c { "capacity-exceeded".into() } else { "refused-with-room".into() }, detail: format!("worker parked after taking one entry: a queue of capacity {} accepted {} further metrics", c, okn) }, &sh.log(), name);
                                }
                            }
                        }
                        Err(p) => report(rep, V { props: vec!["C15", "C20"], rule: "R7", class: "counter-read-panicked".into(), detail: p.clone() }, &sh.log(), name),
                    }
                    release("queuing.run.taken");
                }
                let _ = r;
                let total = sh.count(|e| matches!(e, Ev::Ret { .. })) + 1; // not logged here: use counters instead
                let _ = total;
                let want = q.submitted();
                let _ = await_log(&sh, |st| st.n_exit as u64 >= want);
                let rest = (q.queued(), q.submitted(), q.drained());
                if rest.0 != 0 || rest.1 != rest.2 {
                    report(rep, V { props: vec!["C15"], rule: "R7", class: "final-counters".into(), detail: format!("at rest after the window: (queued, submitted, drained) = {:?}", rest) }, &sh.log(), name);
                }
                drop(q);
                let _ = await_log(&sh, |st| st.log.iter().any(|e| matches!(e, Ev::SinkDrop { .. }))).and_then(|_| await_no_library_thread());
                set_current(None);
            }
            // ---- window D: flush / stats / counter reads by a caller while the worker holds one entry and failing entries wait ----
            {
                let name = "D:run.taken(worker holds an entry; failing entries queued; a caller flushes and reads telemetry)";
                let sh = Shared::new(false);
                set_current(Some(sh.clone()));
                let with_handler = round % 2 == 0;
                let mut b = QueuingMetricSink::builder();
                if let Some(c) = cap {
                    b = b.with_capacity(c);
                }
                let q = if with_handler { b.with_error_handler(handler_for(sh.clone())).build(GatedSink { sh: sh.clone() }) } else { b.build(GatedSink { sh: sh.clone() }) };
                let _ = await_log(&sh, |st| st.log.iter().any(|e| matches!(e, Ev::Point { name: "queuing.run.wait", .. })));
                arm("queuing.run.taken");
                rep.eval();
                let first = format!("w{}.d-first|ok", round);
                let _ = panics::guard(|| q.emit(&first));
                if !await_parked("queuing.run.taken", max) {
                    rep.inconclusive("window D: the worker never reached queuing.run.taken");
                    disarm_all();
                } else {
                    let n = cap.unwrap_or(3).min(4);
                    let mut queued: Vec<String> = Vec::new();
                    for k in 0..n {
                        let t = format!("w{}.d{}|{}", round, k, if k % 2 == 0 { format!("err{}", k) } else { "ok".to_string() });
                        if q.emit(&t).is_ok() {
                            queued.push(t);
                        }
                    }
                    // the caller's calls that are not emits: none of them may run the wrapped sink's emit or the handler
                    let calls = in_call("window D: flush + stats + counters on the caller thread", || Json::Null, || panics::guard(|| {
                        let f = q.flush();
                        let _ = q.stats();
                        let _ = (q.queued(), q.submitted(), q.drained(), q.panics());
                        let c2 = q.clone();
                        let f2 = c2.flush();
                        drop(c2);
                        (f.is_ok(), f2.is_ok())
                    }));
                    rep.obs("forced_window_D_caller_calls", 1);
                    let log = sh.log();
                    let ran_on_caller: Vec<String> = log.iter().filter_map(|e| match e { Ev::Enter { metric, on_harness_thread: true, .. } => Some(metric.clone()), _ => None }).collect();
                    let handler_on_caller = log.iter().filter(|e| matches!(e, Ev::Handler { on_harness_thread: true, .. })).count();
                    let entered_early = log.iter().filter(|e| matches!(e, Ev::Enter { .. })).count();
                    if handler_on_caller > 0 {
                        report(rep, V { props: vec!["C16"], rule: "R8", class: "handler-on-caller-thread".into(), detail: format!("the error handler ran {} time(s) on the thread that called flush()/stats() while the worker was parked", handler_on_caller) }, &log, name);
                    }
                    if !ran_on_caller.is_empty() {
                        report(rep, V { props: vec!["C10"], rule: "R5", class: "sink-on-caller-thread".into(), detail: format!("flush()/stats() ran the wrapped sink's emit for {:?} on the calling thread", ran_on_caller) }, &log, name);
                    }
                    if entered_early > 0 {
                        // the worker holds the first entry and is parked: nothing may reach the wrapped sink before it
                        report(rep, V { props: vec!["C11"], rule: "R6", class: "overtaken-in-queue".into(), detail: format!("{} queued metric(s) reached the wrapped sink while the earlier entry was still held by the parked worker", entered_early) }, &log, name);
                    }
                    match calls {
                        Ok((true, true)) => {}
                        Ok(other) => report(rep, V { props: vec!["C06"], rule: "F3", class: "flush-error".into(), detail: format!("flush through the queuing sink returned (ok, ok) = {:?} although the wrapped sink's flush succeeds", other) }, &log, name),
                        Err(p) => report(rep, V { props: vec!["C10", "C20"], rule: "R5", class: "caller-panicked".into(), detail: p }, &log, name),
                    }
                    release("queuing.run.taken");
                    let want = 1 + queued.len();
                    let res = await_log(&sh, |st| st.n_exit >= want);
                    if let Err(st) = res {
                        if st.is_verdict() {
                            report(rep, V { props: vec!["C08"], rule: "R1", class: "accepted-never-delivered".into(), detail: st.describe() }, &sh.log(), name);
                        } else {
                            rep.inconclusive(st.describe());
                        }
                    } else {
                        // each failure is reported once, on the worker's thread, before the next metric is processed
                        settle();
                        let log = sh.log();
                        let order: Vec<String> = log.iter().filter_map(|e| if let Ev::Enter { metric, .. } = e { Some(metric.clone()) } else { None }).collect();
                        let mut expect_order = vec![first.clone()];
                        expect_order.extend(queued.iter().cloned());
                        if order != expect_order {
                            report(rep, V { props: vec!["C11", "C08"], rule: "R6", class: "order-or-multiplicity".into(), detail: format!("wrapped sink saw {:?}, accepted in this order: {:?}", order, expect_order) }, &log, name);
                        }
                        let mut i = 0;
                        while i < log.len() {
                            if let Ev::Exit { metric, out: Out::Err(_), tid } = &log[i] {
                                let next_enter = log[i + 1..].iter().position(|e| matches!(e, Ev::Enter { .. })).map(|p| i + 1 + p).unwrap_or(log.len());
                                let hs: Vec<&Ev> = log[i + 1..next_enter].iter().filter(|e| matches!(e, Ev::Handler { .. })).collect();
                                if with_handler {
                                    if hs.len() != 1 {
                                        report(rep, V { props: vec!["C16"], rule: "R8", class: if hs.is_empty() { "handler-not-called".into() } else { "handler-called-twice".into() }, detail: format!("{} handler calls between the failure of {} and the next delivery", hs.len(), metric) }, &log, name);
                                    } else if let Ev::Handler { msg, tid: ht, on_harness_thread, .. } = hs[0] {
                                        if msg != &expected_handler_msg(match outcome_of(metric) { Out::Err(k) => k, _ => 0 }, metric) {
                                            report(rep, V { props: vec!["C16"], rule: "R8", class: "handler-wrong-error".into(), detail: format!("handler got {} for the failure of {}", msg, metric) }, &log, name);
                                        }
                                        if ht != tid || *on_harness_thread {
                                            report(rep, V { props: vec!["C16"], rule: "R8", class: "handler-wrong-thread".into(), detail: format!("handler ran on thread {}, the wrapped sink failed on thread {}", ht, tid) }, &log, name);
                                        }
                                    }
                                }
                            }
                            i += 1;
                        }
                        let hcount = log.iter().filter(|e| matches!(e, Ev::Handler { .. })).count();
                        let fails = log.iter().filter(|e| matches!(e, Ev::Exit { out: Out::Err(_), .. })).count();
                        if hcount != if with_handler { fails } else { 0 } {
                            report(rep, V { props: vec!["C16"], rule: "R8", class: "handler-count".into(), detail: format!("{} failures of the wrapped sink, {} handler calls (handler configured: {})", fails, hcount, with_handler) }, &log, name);
                        }
                        rep.distinct(&format!("winD|{:?}|{}|{}", cap, with_handler, fails));
                    }
                }
                drop(q);
                let _ = await_log(&sh, |st| st.log.iter().any(|e| matches!(e, Ev::SinkDrop { .. }))).and_then(|_| await_no_library_thread());
                disarm_all();
                set_current(None);
            }
            // ---- windows C: the stop request arrives at the worst moments ----
            for (wname, worker_point, dropper_point, busy) in [
                ("C1:worker checked the stop flag, has not started waiting; then the last handle is dropped", Some("queuing.run.wait"), None, false),
                ("C2:dropper parked after setting the stop flag, worker idle", None, Some("queuing.stop.flagged"), false),
                ("C3:dropper parked before setting the stop flag, worker idle", None, Some("queuing.stop.enter"), false),
                ("C4:dropper parked after setting the stop flag, worker busy with work queued", None, Some("queuing.stop.flagged"), true),
                ("C5:worker about to wait after finishing the last entry; dropper parked after setting the flag", Some("queuing.run.wait"), Some("queuing.stop.flagged"), true),
                ("C6:worker checked the stop flag and is about to wait; entries are queued; then the last handle is dropped", Some("queuing.run.wait"), None, false),
                ("C7:as C6, with the dropper parked after setting the stop flag", Some("queuing.run.wait"), Some("queuing.stop.flagged"), false),
            ] {
                let queue_behind_parked_worker = wname.starts_with("C6") || wname.starts_with("C7");
                let sh = Shared::new(busy);
                set_current(Some(sh.clone()));
                let mut b = QueuingMetricSink::builder();
                if let Some(c) = cap {
                    b = b.with_capacity(c);
                }
                let q = b.build(GatedSink { sh: sh.clone() });
                let _ = await_log(&sh, |st| st.log.iter().any(|e| matches!(e, Ev::Point { name: "queuing.run.wait", .. })));
                rep.eval();
                let mut accepted = 0usize;
                if busy {
                    // one metric inside the (closed) gate, the queue filled to capacity behind it
                    let n = 1 + cap.unwrap_or(3);
                    for k in 0..n {
                        if q.emit(&format!("w{}.c{}|ok", round, k)).is_ok() {
                            accepted += 1;
                        }
                        if k == 0 {
                            let _ = await_log(&sh, |st| st.log.iter().any(|e| matches!(e, Ev::Enter { .. })));
                        }
                    }
                }
                if let Some(wp) = worker_point {
                    arm(wp);
                    if busy {
                        // let the worker finish everything; it then parks just before waiting again
                        sh.open_all();
                    } else {
                        // make the worker go round its loop once: one metric through an open gate
                        sh.open_all();
                        if q.emit(&format!("w{}.c-kick|ok", round)).is_ok() {
                            accepted += 1;
                        }
                    }
                    if !await_parked(wp, max) {
                        rep.inconclusive(format!("{}: the worker never reached {}", wname, wp));
                        disarm_all();
                    } else if queue_behind_parked_worker {
                        // the worker has seen "not stopping" and has not started waiting: queue work behind its back
                        let n = cap.unwrap_or(3).min(4);
                        for k in 0..n {
                            if q.emit(&format!("w{}.late{}|ok", round, k)).is_ok() {
                                accepted += 1;
                            }
                        }
                        rep.obs("entries_queued_behind_parked_worker", n as u64);
                    }
                }
                if let Some(dp) = dropper_point {
                    arm(dp);
                }
                let dropper = std::thread::spawn(move || {
                    let _reg = procmon::Registration::new();
                    panics::guard(move || drop(q))
                });
                if let Some(dp) = dropper_point {
                    if !await_parked(dp, max) {
                        rep.inconclusive(format!("{}: the dropper never reached {}", wname, dp));
                        disarm_all();
                    }
                    // while the dropper is parked inside stop(), let the worker run
                    if let Some(wp) = worker_point {
                        release(wp);
                        std::thread::sleep(Duration::from_millis(2));
                    }
                    if busy && worker_point.is_none() {
                        sh.open_all();
                        std::thread::sleep(Duration::from_millis(2));
                    }
                    release(dp);
                } else if let Some(wp) = worker_point {
                    // the drop has to complete (it never blocks) before the worker is let go
                    std::thread::sleep(Duration::from_millis(2));
                    release(wp);
                }
                let dr = dropper.join();
                if let Ok(Err(p)) = dr {
                    report(rep, V { props: vec!["C09"], rule: "R4", class: "drop-panicked".into(), detail: p }, &sh.log(), wname);
                }
                sh.open_all();
                rep.obs("forced_stop_windows", 1);
                rep.distinct(&format!("winC|{:?}|{}", cap, &wname[..2]));
                let res = await_log(&sh, |st| st.n_exit >= accepted)
                    .and_then(|_| await_log(&sh, |st| st.log.iter().any(|e| matches!(e, Ev::SinkDrop { .. }))))
                    .and_then(|_| await_no_library_thread());
                if let Err(st) = res {
                    if st.is_verdict() {
                        let delivered = sh.count(|e| matches!(e, Ev::Exit { .. }));
                        report(
                            rep,
                            V {
                                props: if delivered < accepted { vec!["C09", "C08"] } else { vec!["C09"] },
                                rule: "R4",
                                class: if delivered < accepted { "undelivered-after-last-drop".into() } else { "worker-or-sink-not-released".into() },
                                detail: format!("{} accepted, {} delivered, sink dropped: {}; {}", accepted, delivered, sh.count(|e| matches!(e, Ev::SinkDrop { .. })) > 0, st.describe()),
                            },
                            &sh.log(),
                            wname,
                        );
                        adopt_zombies();
                    } else {
                        rep.inconclusive(st.describe());
                    }
                }
                disarm_all();
                set_current(None);
            }
            if (rep.violation_count >= 8 || SPIN_SEEN.load(std::sync::atomic::Ordering::SeqCst)) || rep.inconclusive.len() >= 3 {
                return;
            }
        }
    }
}


// ------------------------------------------------------------------------------------------------
// producers racing on a bounded queue while the wrapped sink is blocked for the whole run (C10)
// ------------------------------------------------------------------------------------------------

/// The worker is parked inside the (closed) gate holding one metric; then P producers released by a barrier
/// hammer `emit`. Every emit must return while the gate stays closed, exactly `capacity` of them with Ok
/// (unbounded: all), and nothing may surface from the wrapped sink.
fn blocked_case(rep: &mut Report, prop: &str, args: &Args, cs: u64) {
    let mut rng = Rng::new(cs);
    let cap = match rng.below(16) {
        0 | 1 => None,
        2 => Some(1usize),
        3 => Some(2),
        4 => Some(3),
        // capacities around the limits of 8- and 16-bit counters
        5 | 7 => Some(*rng.pick(&[255usize, 256, 257, 1000, 1024, 1025, 1500, 2048, 5000])),
        6 if rng.chance(1, 4) => Some(*rng.pick(&[65535usize, 65536, 65537])),
        // "too large to pre-allocate" thresholds sit at round numbers (2^20 ...)
        8 if rng.chance(1, if args.flag("big") { 10 } else { 24 }) => Some(if args.flag("big") { *rng.pick(&[1usize << 20, (1 << 20) + 1, 1_000_000, 3_000_000]) } else { *rng.pick(&[1usize << 20, (1 << 20) + 1]) }),
        _ => Some(rng.range(1, 12) as usize),
    };
    let producers = *rng.pick(&[2usize, 2, 3, 4, 8, 16]);
    // "an unbounded queue accepts every metric": backlogs beyond 2^16 (a third of the unbounded cases) and, once per
    // run with --huge-first, beyond 2^20 pile up behind the blocked sink - hidden ceilings sit at such round numbers
    static HUGE_DONE: std::sync::atomic::AtomicBool = std::sync::atomic::AtomicBool::new(false);
    let cap = if (args.flag("huge-first") && !HUGE_DONE.load(Ordering::SeqCst)) || args.flag("backlogs") { None } else { cap };
    let backlog_total = if cap.is_none() {
        if args.flag("huge-first") && !HUGE_DONE.swap(true, Ordering::SeqCst) {
            (1usize << 20) + 60_000
        } else if rng.chance(1, 3) || args.flag("backlogs") {
            70_000
        } else {
            0
        }
    } else {
        0
    };
    if backlog_total > 0 {
        rep.obs("unbounded_backlogs_beyond_65536_behind_a_blocked_sink", 1);
        rep.obs_max("largest_backlog_accepted_by_an_unbounded_queue", 0);
    }
    let per = if backlog_total > 0 { backlog_total / producers + 1 } else { rng.range(1, 6) as usize + cap.unwrap_or(4) / producers + 1 };
    let big = rng.chance(1, 3) && cap.map(|c| c < 64).unwrap_or(true) && backlog_total == 0; // large metrics widen the window between a room check and the send
    rep.eval();
    let sh = Shared::new(true);
    set_current(None);
    let q = match cap {
        Some(c) => QueuingMetricSink::with_capacity(GatedSink { sh: sh.clone() }, c),
        None => QueuingMetricSink::from(GatedSink { sh: sh.clone() }),
    };
    let cfg = jobj! {"capacity" => cap.map(|c| c.to_string()).unwrap_or_else(|| "unbounded".into()), "producers" => producers, "emits_per_producer" => per, "large_metrics" => big};
    let mut report = |rep: &mut Report, props: &[&str], class: &str, detail: String, log: &[Ev]| {
        for p in props {
            if *p == prop {
                rep.violation(Violation {
                    property: p.to_string(),
                    rule: "R5".into(),
                    class: class.into(),
                    detail: format!("[blocked-sink {}] {}", cfg.to_string(), detail),
                    replay_args: args.to_vec_with(&[("case-seed", cs.to_string()), ("cases", "1".into())]),
                    trace: jobj! {"config" => cfg.clone(), "event_log(first 200)" => log_json(log, 200)},
                });
            } else {
                rep.obs("other_property_rule_hits", 1);
            }
        }
    };
    // park the worker inside the sink
    if q.emit("first|ok").is_err() {
        report(rep, &["C10"], "refused-with-room", "the very first emit on an empty queue was refused".into(), &sh.log());
        return;
    }
    if let Err(st) = await_log(&sh, |st| st.log.iter().any(|e| matches!(e, Ev::Enter { .. }))) {
        if st.is_verdict() {
            report(rep, &["C08"], "accepted-never-delivered", st.describe(), &sh.log());
        } else {
            rep.inconclusive(st.describe());
        }
        adopt_zombies();
        return;
    }
    // every third case: another thread is inside flush() of the queuing sink, and the wrapped sink's flush is blocked
    // as well - "the wrapped sink is blocked indefinitely" covers both of its methods, and emit waits for neither
    let flusher = if cs % 3 == 0 {
        sh.st.lock().unwrap_or_else(|e| e.into_inner()).flush_blocks = true;
        let h = q.clone();
        let j = std::thread::spawn(move || {
            let _reg = procmon::Registration::new();
            let _ = panics::guard(|| cadence::MetricSink::flush(&h));
            drop(h);
        });
        let t0 = std::time::Instant::now();
        while sh.st.lock().unwrap_or_else(|e| e.into_inner()).in_flush == 0 && t0.elapsed() < Duration::from_secs(5) {
            std::thread::yield_now();
        }
        if sh.st.lock().unwrap_or_else(|e| e.into_inner()).in_flush > 0 {
            rep.obs("blocked_sink_races_with_a_caller_stuck_in_the_wrapped_sinks_flush", 1);
        }
        Some(j)
    } else {
        None
    };
    let barrier = Arc::new(Barrier::new(producers));
    let done = Arc::new(AtomicU64::new(0));
    let oks = Arc::new(AtomicU64::new(0));
    let surfaced = Arc::new(std::sync::Mutex::new(Vec::<String>::new()));
    let tids = Arc::new(std::sync::Mutex::new(Vec::<u32>::new()));
    let mut joins = Vec::new();
    for p in 0..producers {
        let h = q.clone();
        let (barrier, done, oks, surfaced, tids) = (barrier.clone(), done.clone(), oks.clone(), surfaced.clone(), tids.clone());
        joins.push(std::thread::spawn(move || {
            let _reg = procmon::Registration::new();
            let tid = _reg.tid;
            tids.lock().unwrap().push(tid);
            let pad = if big { "y".repeat(200_000) } else { String::new() };
            barrier.wait();
            for k in 0..per {
                let m = format!("b.p{}.n{}{}|ok", p, k, pad);
                match panics::guard(|| h.emit(&m)) {
                    Ok(Ok(n)) => {
                        if n != m.len() {
                            surfaced.lock().unwrap().push(format!("Ok({}) for {} bytes", n, m.len()));
                        }
                        oks.fetch_add(1, Ordering::SeqCst);
                    }
                    Ok(Err(e)) => {
                        if e.to_string().contains("scripted") {
                            surfaced.lock().unwrap().push(e.to_string());
                        }
                    }
                    Err(pm) => surfaced.lock().unwrap().push(format!("PANIC {}", pm)),
                }
            }
            done.fetch_add(1, Ordering::SeqCst);
            drop(h);
        }));
    }
    // all producers must finish while the gate is CLOSED. Failure is decided logically: the unfinished producer
    // threads are asleep with unchanged context-switch counters - nothing but the (closed) gate could wake them.
    let t0 = std::time::Instant::now();
    let mut stable = 0u32;
    let mut stable_since = std::time::Instant::now();
    let mut last: Vec<(u32, Option<procmon::TaskStatus>)> = Vec::new();
    let mut blocked: Option<String> = None;
    while done.load(Ordering::SeqCst) < producers as u64 {
        std::thread::sleep(Duration::from_millis(if stable < 3 { 1 } else { 10 }));
        let cur: Vec<(u32, Option<procmon::TaskStatus>)> = tids.lock().unwrap().iter().map(|t| (*t, procmon::task_status(*t))).collect();
        let asleep = !cur.is_empty() && cur.iter().all(|(_, s)| s.as_ref().map(|s| s.state == 'S').unwrap_or(true));
        if asleep && cur == last && cur.len() == producers {
            stable += 1;
        } else {
            stable = 0;
            stable_since = std::time::Instant::now();
            last = cur;
        }
        if stable >= PARK_SAMPLES && stable_since.elapsed() >= PARK_SPAN {
            blocked = Some(format!(
                "{} of {} producers never returned from emit while the wrapped sink was blocked: their threads are in state S with unchanged context-switch counters over {} samples / {} ms",
                producers as u64 - done.load(Ordering::SeqCst), producers, stable, stable_since.elapsed().as_millis()
            ));
            break;
        }
        if t0.elapsed() > WATCHDOG {
            rep.inconclusive("blocked-sink case: watchdog expired while producers were still running");
            break;
        }
    }
    let ok_n = oks.load(Ordering::SeqCst);
    let finished_all = done.load(Ordering::SeqCst) == producers as u64;
    // release everything so that the threads can be joined
    sh.open_all();
    for j in joins {
        let _ = j.join();
    }
    if let Some(j) = flusher {
        let _ = j.join();
    }
    rep.obs("blocked_sink_races", 1);
    rep.obs("emits_while_sink_blocked", (producers * per) as u64);
    rep.distinct(&format!("blocked|{:?}|P{}|big{}", cap, producers, big));
    if let Some(b) = blocked {
        report(rep, &["C10"], "emit-blocked", b, &sh.log());
    } else if finished_all {
        let want = match cap {
            None => (producers * per) as u64,
            Some(c) => (c as u64).min((producers * per) as u64),
        };
        if ok_n > want {
            report(rep, &["C10"], "capacity-exceeded", format!("with the worker parked holding one metric, {} further emits were accepted by a queue of capacity {:?}", ok_n, cap), &sh.log());
        } else if ok_n < want {
            report(rep, &["C10"], if cap.is_none() { "unbounded-refused" } else { "refused-with-room" }, format!("with the worker parked holding one metric, only {} of the first {} emits were accepted by a queue of capacity {:?}", ok_n, want, cap), &sh.log());
        } else {
            rep.obs("exact_capacity_under_race_checks", 1);
            if cap.is_none() {
                rep.obs_max("largest_backlog_accepted_by_an_unbounded_queue", ok_n);
            }
        }
    }
    let sf = surfaced.lock().unwrap().clone();
    if let Some(x) = sf.first() {
        report(rep, &["C10"], "wrapped-error-surfaced", format!("an emit result carried {}", x), &sh.log());
    }
    // everything accepted is delivered, then release
    let total = ok_n as usize + 1;
    let r = await_log(&sh, |st| st.n_exit >= total);
    if r.is_ok() && prop == "C08" {
        // ... one at a time, and every producer's metrics in the order in which that producer emitted them
        let log = sh.log();
        let mut inside = 0i64;
        let mut last_k: HashMap<usize, i64> = HashMap::new();
        let mut bad: Option<(&'static str, &'static str, String)> = None;
        for e in &log {
            match e {
                Ev::Enter { metric, .. } => {
                    inside += 1;
                    if inside > 1 && bad.is_none() {
                        bad = Some(("R3", "concurrent-delivery", format!("the wrapped sink was entered for {:?} while another emit of it was still in progress", cvh::json::clip(metric, 60))));
                    }
                    if let Some(rest) = metric.strip_prefix("b.p") {
                        let mut it = rest.split(".n");
                        if let (Some(p), Some(k)) = (it.next().and_then(|x| x.parse::<usize>().ok()), it.next().map(|x| x.chars().take_while(|c| c.is_ascii_digit()).collect::<String>()).and_then(|x| x.parse::<i64>().ok())) {
                            let prev = last_k.insert(p, k).unwrap_or(-1);
                            if k <= prev && bad.is_none() {
                                bad = Some(("R2", "out-of-order", format!("producer {}: metric #{} was handed over after #{}", p, k, prev)));
                            }
                        }
                    }
                }
                Ev::Exit { .. } => inside -= 1,
                _ => {}
            }
        }
        rep.obs("blocked_backlogs_checked_for_order_and_one_at_a_time", 1);
        if let Some((rule, class, detail)) = bad {
            rep.violation(Violation { property: "C08".into(), rule: rule.into(), class: class.into(), detail: format!("[blocked-sink {} released with {} metrics queued] {}", cfg.to_string(), ok_n, detail), replay_args: args.to_vec_with(&[("case-seed", cs.to_string()), ("cases", "1".into())]), trace: Json::Null });
        }
    }
    drop(q);
    let r2 = r.and_then(|_| await_log(&sh, |st| st.log.iter().any(|e| matches!(e, Ev::SinkDrop { .. })))).and_then(|_| await_no_library_thread());
    if let Err(st) = r2 {
        if st.is_verdict() {
            report(rep, &["C08", "C09"], "accepted-never-delivered", st.describe(), &sh.log());
            adopt_zombies();
        } else {
            rep.inconclusive(st.describe());
        }
    }
}


// ------------------------------------------------------------------------------------------------
// the last N handles are dropped at the same moment on N threads (C09)
// ------------------------------------------------------------------------------------------------

fn droprace_case(rep: &mut Report, prop: &str, args: &Args, cs: u64) {
    let mut rng = Rng::new(cs);
    let cap = match rng.below(4) {
        0 => None,
        1 => Some(1usize),
        _ => Some(rng.range(2, 8) as usize),
    };
    let n = *rng.pick(&[1usize, 2, 2, 2, 3, 4]);
    let queued = rng.below(4) as usize;
    rep.eval();
    let sh = Shared::new(false);
    set_current(None);
    let q = match cap {
        Some(c) => QueuingMetricSink::with_capacity(GatedSink { sh: sh.clone() }, c),
        None => QueuingMetricSink::from(GatedSink { sh: sh.clone() }),
    };
    let mut accepted = 0usize;
    for k in 0..queued {
        if q.emit(&format!("d.n{}|{}", k, if k == 1 { "panic" } else { "ok" })).is_ok() {
            accepted += 1;
        }
    }
    // n handles in total, each moved to its own thread; a spin barrier makes the drops overlap
    let go = Arc::new(AtomicU64::new(0));
    let mut handles: Vec<QueuingMetricSink> = (1..n).map(|_| q.clone()).collect();
    handles.push(q);
    // in some races a handle goes away because its owner thread is unwinding from a panic of its own
    let unwinding = rng.chance(1, 3);
    let mut joins = Vec::new();
    for (hi, h) in handles.into_iter().enumerate() {
        let go = go.clone();
        joins.push(std::thread::spawn(move || {
            let _reg = procmon::Registration::new();
            go.fetch_add(1, Ordering::SeqCst);
            while go.load(Ordering::SeqCst) < n as u64 {
                std::hint::spin_loop();
            }
            if unwinding && hi % 2 == 0 {
                // the handle is a local of a closure that panics: it is dropped during unwinding
                let r = panics::guard(move || {
                    let _owned = h;
                    panic!("scripted-panic: owner of a handle unwinds");
                });
                let _ = r;
                Ok(())
            } else {
                panics::guard(move || drop(h))
            }
        }));
    }
    if unwinding {
        rep.obs("handles_dropped_during_unwinding", 1);
    }
    let mut drop_panicked = None;
    for j in joins {
        if let Ok(Err(p)) = j.join() {
            drop_panicked = Some(p);
        }
    }
    rep.obs("concurrent_last_drop_races", 1);
    rep.distinct(&format!("droprace|{:?}|n{}|q{}", cap, n, queued));
    let cfg = jobj! {"capacity" => format!("{:?}", cap), "handles_dropped_concurrently" => n, "queued_before" => queued, "some_dropped_while_unwinding" => unwinding};
    let mut report = |rep: &mut Report, props: &[&str], class: &str, detail: String| {
        for p in props {
            if *p == prop {
                rep.violation(Violation {
                    property: p.to_string(),
                    rule: "R4".into(),
                    class: class.into(),
                    detail: format!("[concurrent last drops {}] {}", cfg.to_string(), detail),
                    replay_args: args.to_vec_with(&[("case-seed", cs.to_string()), ("cases", "1".into())]),
                    trace: jobj! {"config" => cfg.clone(), "event_log" => log_json(&sh.log(), 100)},
                });
            } else {
                rep.obs("other_property_rule_hits", 1);
            }
        }
    };
    if let Some(p) = drop_panicked {
        report(rep, &["C09"], "drop-panicked", p);
    }
    let r = await_log(&sh, |st| st.n_exit >= accepted);
    match r {
        Err(st) if st.is_verdict() => {
            report(rep, &["C09", "C08"], "undelivered-after-last-drop", format!("{} accepted, {} delivered: {}", accepted, sh.count(|e| matches!(e, Ev::Exit { .. })), st.describe()));
            adopt_zombies();
            return;
        }
        Err(st) => {
            rep.inconclusive(st.describe());
            return;
        }
        Ok(()) => {}
    }
    if let Err(st) = await_log(&sh, |st| st.log.iter().any(|e| matches!(e, Ev::SinkDrop { .. }))).and_then(|_| await_no_library_thread()) {
        if st.is_verdict() {
            report(rep, &["C09"], "worker-or-sink-not-released", format!("after all {} handles were dropped at the same moment: {}", n, st.describe()));
            adopt_zombies();
        } else {
            rep.inconclusive(st.describe());
        }
    }
}

fn main() {
    let args = Args::from_env();
    panics::install_hook();
    procmon::register_current();
    let prop = args.str("property", "C08");
    let mut rep = Report::new("queue_conc", &prop);
    // a library call (made under in_call) that blocks the harness thread for good - or waits / spins - is a verdict of
    // its own; the wedged process cannot go on, so the watchdog thread writes a (short) report and ends it
    {
        let (prop2, args2) = (prop.clone(), args.clone());
        spawn_call_watchdog(move |what, _ctx, evidence| {
            let mut r = Report::new("queue_conc", &prop2);
            r.eval();
            if prop2 == "C10" {
                r.violation(Violation {
                    property: "C10".into(),
                    rule: "R5".into(),
                    class: "flush-blocked".into(),
                    detail: format!("a caller's flush / telemetry read waits for the worker or the wrapped sink [{}]: {}", what, evidence),
                    replay_args: args2.to_vec_with(&[]),
                    trace: Json::Null,
                });
            } else {
                r.inconclusive(format!("a caller's call blocked for good in a run for {} (the C10 check reports it) [{}]: {}", prop2, what, evidence));
            }
            std::process::exit(r.finish(args2.get("out")));
        });
    }
    let mode = args.str("mode", "conc");
    let seed = args.u64("seed", 1);
    let shard = args.u64("shard", 0);
    let cases = args.u64("cases", 20);
    match mode.as_str() {
        "windows" => window_scenarios(&mut rep, &prop, &args, cases),
        "droprace" => {
            let only = args.get("case-seed").map(|s| s.parse::<u64>().unwrap());
            for i in 0..cases {
                let cs = only.unwrap_or_else(|| mix(&[seed, 0xD409, shard, i]));
                droprace_case(&mut rep, &prop, &args, cs);
                if only.is_some() || (rep.violation_count >= 4 || SPIN_SEEN.load(std::sync::atomic::Ordering::SeqCst)) || rep.inconclusive.len() >= 3 {
                    break;
                }
            }
        }
        "blocked" => {
            let only = args.get("case-seed").map(|s| s.parse::<u64>().unwrap());
            for i in 0..cases {
                let cs = only.unwrap_or_else(|| mix(&[seed, 0xB10C, shard, i]));
                blocked_case(&mut rep, &prop, &args, cs);
                if only.is_some() || (rep.violation_count >= 6 || SPIN_SEEN.load(std::sync::atomic::Ordering::SeqCst)) || rep.inconclusive.len() >= 3 {
                    break;
                }
            }
        }
        "conc" => {
            let only = args.get("case-seed").map(|s| s.parse::<u64>().unwrap());
            for i in 0..cases {
                let cs = only.unwrap_or_else(|| mix(&[seed, 0xC0C, shard, i]));
                let mut rng = Rng::new(cs);
                let focus = args.str("focus", "mixed");
                let cfg = ConcCfg {
                    cap: match rng.below(6) {
                        0 | 1 => None,
                        2 => Some(1),
                        3 => Some(2),
                        _ => Some(rng.range(3, 8) as usize),
                    },
                    producers: rng.range(2, 8) as usize,
                    per_producer: rng.range(30, 300) as usize,
                    shared_handle: rng.chance(1, 3),
                    churn: rng.chance(1, 2),
                    handler: rng.chance(2, 3),
                    sleep_us: *rng.pick(&[(0u64, 0u64), (0, 0), (0, 5), (0, 40), (20, 60)]),
                    p_err: if focus == "error" { 30 } else { *rng.pick(&[0u64, 0, 5, 20]) },
                    p_panic: if focus == "panic" { 10 } else { *rng.pick(&[0u64, 0, 0, 3]) },
                    drop_all_early: focus == "drop" || rng.chance(1, 4),
                };
                rep.eval();
                let out = run_conc(&cfg, &mut rng, i + shard * 100_000);
                for (k, v) in &out.obs {
                    if k.starts_with("max_") {
                        rep.obs_max(k, *v);
                    } else {
                        rep.obs(k, *v);
                    }
                }
                if let Some(w) = &out.inconclusive {
                    rep.inconclusive(format!("{} [{}]", w, cfg.json().to_string()));
                }
                for v in &out.viol {
                    for p in &v.props {
                        if *p == prop {
                            rep.violation(Violation {
                                property: p.to_string(),
                                rule: v.rule.into(),
                                class: v.class.clone(),
                                detail: format!("[conc {}] {}", cfg.json().to_string(), v.detail),
                                replay_args: args.to_vec_with(&[("case-seed", cs.to_string()), ("cases", "1".into())]),
                                trace: jobj! {"config" => cfg.json(), "event_log(first 300)" => log_json(&out.log, 300)},
                            });
                        } else {
                            rep.obs("other_property_rule_hits", 1);
                        }
                    }
                }
                for s in &out.sigs {
                    rep.fine("producer_id_trigrams_in_delivery_order", s);
                }
                let mut wins = out.sigs.clone();
                rep.distinct_set(&cfg.json().to_string(), &mut wins);
                if rep.want_sample() {
                    rep.sample(|| jobj! {"config" => cfg.json(), "event_log(first 25)" => log_json(&out.log, 25)});
                }
                if only.is_some() || (rep.violation_count >= 8 || SPIN_SEEN.load(std::sync::atomic::Ordering::SeqCst)) || rep.inconclusive.len() >= 3 {
                    break;
                }
            }
        }
        m => {
            eprintln!("unknown mode {}", m);
            std::process::exit(2);
        }
    }
    rep.obs("proc_listings_that_missed_a_live_thread", procmon::SCAN_GLITCHES.load(Ordering::Relaxed));
    std::process::exit(rep.finish(args.get("out")));
}
