//! hostile_driver (C20): hostile inputs against every public constructor and call; the oracle is
//! `catch_unwind` around every call + the panic-hook log + (in the parent) the exit status of this process.
//! An overflow canary proves that arithmetic overflow checks are on in this build.
//!
//!   hostile_driver --area format|writer|sinks|queue|misc --seed S --shard I --cases N --out FILE

use cadence::ext::{MetricValue, MultiLineWriter, SocketStats};
use cadence::prelude::*;
use cadence::{
    BufferedSpyMetricSink, BufferedUdpMetricSink, BufferedUnixMetricSink, Counter, Distribution, Gauge, Histogram, Meter, Metric, MetricSink, NopMetricSink, QueuingMetricSink, Set,
    SpyMetricSink, StatsdClient, Timer, UdpMetricSink, UnixMetricSink,
};
use cvh::callengine::*;
use cvh::json::clip;
use cvh::refmodel::*;
use cvh::rng::{mix, Rng};
use cvh::valgen::*;
use cvh::{jobj, panics, Args, Json, Report, Violation};
use std::io::{self, Write};
use std::time::Duration;

struct Cx<'a> {
    rep: &'a mut Report,
    args: &'a Args,
    cs: u64,
    /// set when the case is driven by a fuzzer input instead of a case seed
    replay: Option<Vec<(&'static str, String)>>,
}

impl<'a> Cx<'a> {
    fn panic(&mut self, area: &str, what: &str, msg: String, trace: Json) {
        let class = if msg.contains("overflow") { "arithmetic-overflow" } else if msg.contains("index out of bounds") || msg.contains("out of range") { "index-out-of-bounds" } else if msg.contains("unwrap") { "unwrap-on-error" } else { "panic" };
        self.rep.violation(Violation {
            property: "C20".into(),
            rule: "no-panic".into(),
            class: class.into(),
            detail: format!("[{}] {} panicked: {}", area, what, msg),
            replay_args: match &self.replay {
                Some(r) => self.args.to_vec_with(r),
                None => self.args.to_vec_with(&[("case-seed", self.cs.to_string()), ("cases", "1".into())]),
            },
            trace,
        });
    }
    fn replay_args(&self) -> Vec<String> {
        match &self.replay {
            Some(r) => self.args.to_vec_with(r),
            None => self.args.to_vec_with(&[("case-seed", self.cs.to_string()), ("cases", "1".into())]),
        }
    }
    fn call<R>(&mut self, area: &str, what: &str, trace: impl FnOnce() -> Json, f: impl FnOnce() -> R) -> Option<R> {
        self.rep.obs("guarded_calls", 1);
        match panics::guard(f) {
            Ok(r) => Some(r),
            Err(p) => {
                self.panic(area, what, p, trace());
                None
            }
        }
    }
}

fn hostile_string(r: &mut Rng) -> (String, &'static str) {
    match r.below(16) {
        // tens of KiB, not a power of two: several of them in one metric cross every 16-bit total without any single
        // one being truncated to (almost) nothing by a narrowing cast
        12 | 13 => ("t".repeat(r.range(20000, 50000) as usize), "tens-of-KiB"),
        0 => (String::new(), "empty"),
        1 => ("|".into(), "delim1"),
        2 => (":|#,@\n".repeat(r.range(1, 5) as usize), "delims"),
        3 => ("\n".into(), "newline"),
        4 => (".".repeat(r.range(1, 2000) as usize), "dots"),
        5 => ("\u{0}".repeat(r.range(1, 10) as usize), "nul"),
        6 => ("🎉".repeat(r.range(1, 3000) as usize), "emoji-long"),
        7 => ("x".repeat(1 << 20), "1MiB"),
        8 => ("é".repeat(1 << 19), "1MiB-multibyte"),
        9 => (cvh::strgen::dirty(r, 1, 40), "dirty"),
        10 => ("\u{feff}\u{200b}\u{202e}".repeat(r.range(1, 20) as usize), "invisible"),
        11 => ("a".repeat(r.range(60000, 70000) as usize), "64K"),
        _ => (cvh::strgen::clean_multi(r, 0, 30), "multi"),
    }
}

fn hostile_f64(r: &mut Rng) -> f64 {
    *r.pick(&[f64::NAN, f64::INFINITY, f64::NEG_INFINITY, 0.0, -0.0, f64::MAX, f64::MIN, f64::MIN_POSITIVE, 5e-324, -5e-324, 1e308, -1e308, f64::EPSILON, 1.0, -1.0])
}

fn hostile_val(r: &mut Rng, kind: Kind, tt: &str) -> Val {
    let n_big = |r: &mut Rng| *r.pick(&[0usize, 1, 2, 1000, 100_000, 1_000_000]);
    match tt {
        "i64" => Val::I64(*r.pick(&[0, -1, 1, i64::MIN, i64::MAX, i64::MIN + 1])),
        "i32" => Val::I32(*r.pick(&[0, -1, i32::MIN, i32::MAX])),
        "u64" => Val::U64(*r.pick(&[0, 1, u64::MAX, u64::MAX - 1, i64::MAX as u64 + 1])),
        "u32" => Val::U32(*r.pick(&[0, u32::MAX])),
        "f64" => Val::F64(hostile_f64(r)),
        "Duration" => Val::Dur(*r.pick(&[Duration::new(0, 0), Duration::new(u64::MAX, 999_999_999), Duration::new(MAX_SECS_MS, 615_999_999), Duration::new(MAX_SECS_MS, 616_000_000), Duration::new(MAX_SECS_NS, 709_551_615), Duration::new(MAX_SECS_NS, 709_551_616), Duration::new(u64::MAX, 0)])),
        "Vec<u64>" => {
            let n = n_big(r);
            Val::VU64(vec![u64::MAX; n])
        }
        "Vec<f64>" => {
            let n = n_big(r);
            let f = hostile_f64(r);
            Val::VF64(vec![f; n])
        }
        "Vec<Duration>" => {
            let n = *r.pick(&[0usize, 1, 3, 1000, 100_000]);
            let mut v = vec![Duration::new(1, 1); n];
            if n > 0 && r.chance(1, 2) {
                let i = r.usize_below(n);
                v[i] = Duration::new(u64::MAX, 999_999_999);
            }
            Val::VDur(v)
        }
        "user:Err" => Val::UserErr,
        "incr" => Val::Incr,
        "decr" => Val::Decr,
        t if t.starts_with("user:") => {
            let n = n_big(r);
            Val::User(match &t[5..] {
                "Signed" => MetricValue::Signed(i64::MIN),
                "Unsigned" => MetricValue::Unsigned(u64::MAX),
                "Float" => MetricValue::Float(hostile_f64(r)),
                "PackedSigned" => MetricValue::PackedSigned(vec![i64::MIN; n]),
                "PackedUnsigned" => MetricValue::PackedUnsigned(vec![u64::MAX; n]),
                _ => MetricValue::PackedFloat(vec![hostile_f64(r); n]),
            })
        }
        _ => gen_val(r, kind, tt, true, false),
    }
}

// ------------------------------------------------------------------------------------------------

fn area_format(cx: &mut Cx, r: &mut Rng) {
    let (prefix, pc) = hostile_string(r);
    let mut cfg = ClientCfg { prefix_raw: prefix, ..Default::default() };
    for _ in 0..r.below(4) {
        let (k, _) = hostile_string(r);
        let (v, _) = hostile_string(r);
        cfg.default_tags.push(if r.chance(1, 2) { (Some(k), v) } else { (None, v) });
    }
    if r.chance(1, 2) {
        cfg.default_container = Some(hostile_string(r).0);
    }
    let sink = RecSink::new();
    let hlog = HandlerLog::default();
    let refuse = r.chance(1, 4);
    let cfg2 = cfg.clone();
    let s2 = sink.clone();
    let h2 = hlog.clone();
    let client = match cx.call("format", "StatsdClient::builder(..).build()", || jobj! {"prefix_class" => pc}, move || build_client(&cfg2, s2, Some(h2))) {
        Some(c) => c,
        None => return,
    };
    let (key, kc) = hostile_string(r);
    let eps = all_entry_points();
    for _ in 0..12 {
        let (kind, tt) = *r.pick(&eps);
        let val = hostile_val(r, kind, tt);
        let form = *r.pick(&[Form::Plain, Form::Tagged, Form::Quiet]);
        let mut decos = Vec::new();
        if form != Form::Plain {
            for _ in 0..r.below(5) {
                decos.push(match r.below(5) {
                    0 => Deco::Rate(hostile_f64(r)),
                    1 => Deco::Tag(hostile_string(r).0, hostile_string(r).0),
                    2 => Deco::TagValue(hostile_string(r).0),
                    3 => Deco::Container(hostile_string(r).0),
                    _ => Deco::Timestamp(*r.pick(&[0u64, u64::MAX, 1])),
                });
            }
        }
        // now and then a metric with tens of thousands of tags (a few hundred KB of decoration)
        if form != Form::Plain && r.chance(1, 150) {
            let n = *r.pick(&[20_000usize, 65_536, 100_000]);
            for i in 0..n {
                decos.push(if i % 3 == 0 { Deco::TagValue(format!("b{}", i)) } else { Deco::Tag(format!("k{}", i), "v".into()) });
            }
            cx.rep.obs("metrics_with_tens_of_thousands_of_tags", 1);
        }
        let sp = CallSpec { kind, val, key: key.clone(), form, decos };
        cx.rep.eval();
        if refuse {
            sink.push_script(SinkOutcome::Refuse(io::ErrorKind::Other, "refused".into()));
        }
        let before = sink.emit_count();
        let hb = hlog.len();
        let exp = expectation(&cfg, &sp);
        let tr = || jobj! {"prefix_class" => pc, "key_class" => kc, "call" => sp.to_json()};
        let ret = cx.call("format", &format!("{:?} {} {}", kind, tt, form.tag()), tr, || call(&client, &sp));
        sink.log.lock().unwrap().script.clear();
        cx.rep.distinct(&format!("format|{:?}|{}|{}|{}|{}|{}", kind, tt, form.tag(), pc, kc, exp.is_ok()));
        // "invalid values are reported as errors and everything else is sent"
        if let Some(ret) = ret {
            let emitted = sink.emits_from(before);
            let handled = hlog.from(hb);
            let reported_invalid = match &ret {
                Ret::Err(e) => e.kind == cadence::ErrorKind::InvalidInput,
                Ret::Quiet => handled.iter().any(|h| h.kind == cadence::ErrorKind::InvalidInput),
                Ret::Ok(_) => false,
            };
            match exp {
                Ok(_) if emitted.len() != 1 || reported_invalid => {
                    cx.rep.violation(Violation {
                        property: "C20".into(),
                        rule: "valid-is-sent".into(),
                        class: "valid-value-not-sent".into(),
                        detail: format!("a valid value was not handed to the sink exactly once ({} emits, reported invalid: {})", emitted.len(), reported_invalid),
                        replay_args: cx.replay_args(),
                        trace: tr(),
                    });
                }
                Err(()) if !emitted.is_empty() || !reported_invalid => {
                    cx.rep.violation(Violation {
                        property: "C20".into(),
                        rule: "invalid-is-error".into(),
                        class: "invalid-value-not-reported".into(),
                        detail: format!("an invalid value was not reported as an invalid-input error ({} emits, result {:?})", emitted.len(), clip(&format!("{:?}", ret), 200)),
                        replay_args: cx.replay_args(),
                        trace: tr(),
                    });
                }
                _ => cx.rep.obs("sent_or_reported_checks", 1),
            }
        }
        sink.clear();
        hlog.clear();
    }
    // standalone constructors
    let (p, _) = hostile_string(r);
    let (k, _) = hostile_string(r);
    let f = hostile_f64(r);
    cx.call("format", "standalone constructors", || Json::Null, || {
        let _ = Counter::new(&p, &k, i64::MIN).as_metric_str().len();
        let _ = Timer::new(&p, &k, u64::MAX).as_metric_str().len();
        let _ = Gauge::new(&p, &k, u64::MAX).as_metric_str().len();
        let _ = Gauge::new_f64(&p, &k, f).as_metric_str().len();
        let _ = Meter::new(&p, &k, 0).as_metric_str().len();
        let _ = Histogram::new(&p, &k, u64::MAX).as_metric_str().len();
        let _ = Histogram::new_f64(&p, &k, f).as_metric_str().len();
        let _ = Distribution::new(&p, &k, 0).as_metric_str().len();
        let _ = Distribution::new_f64(&p, &k, f).as_metric_str().len();
        let _ = Set::new(&p, &k, i64::MAX).as_metric_str().len();
    });
    cx.call("format", "Debug/flush of client", || Json::Null, || {
        let _ = format!("{:?}", client).len();
        let _ = client.flush();
    });
}

struct FlakyWriter {
    r: Rng,
    p_fail: u64,
}

impl Write for FlakyWriter {
    fn write(&mut self, buf: &[u8]) -> io::Result<usize> {
        if self.r.below(100) < self.p_fail {
            let kind = *self.r.pick(&[io::ErrorKind::Interrupted, io::ErrorKind::WouldBlock, io::ErrorKind::Other, io::ErrorKind::WriteZero]);
            Err(io::Error::new(kind, "flaky"))
        } else {
            Ok(buf.len())
        }
    }
    fn flush(&mut self) -> io::Result<()> {
        Ok(())
    }
}

fn area_writer(cx: &mut Cx, r: &mut Rng) {
    let cap = *r.pick(&[0usize, 0, 1, 1, 2, 3, 7, 8, 64, 512, 65536, 1 << 20]);
    let term = *r.pick(&["\n", "\r\n", "", "||||", "\n\n\n\n\n\n\n\n"]);
    let p_fail = *r.pick(&[0u64, 0, 30, 90]);
    let fw = FlakyWriter { r: r.fork(), p_fail };
    cx.rep.eval();
    cx.rep.distinct(&format!("writer|{}|{:?}|{}", cap, term, p_fail));
    let mut w = match cx.call("writer", "MultiLineWriter::with_ending", || jobj! {"capacity" => cap, "terminator" => term}, || MultiLineWriter::with_ending(fw, cap, term)) {
        Some(w) => w,
        None => return,
    };
    let n = r.range(1, 60);
    let mut hist = Vec::new();
    for _ in 0..n {
        if r.chance(1, 6) {
            hist.push("flush".to_string());
            let h = hist.clone();
            if cx.call("writer", "flush", || jobj! {"capacity" => cap, "terminator" => term, "ops" => h.join(",")}, || { let _ = w.flush(); }).is_none() {
                std::mem::forget(w);
                return;
            }
        } else {
            let t = term.len();
            let len = match r.below(10) {
                0 => 0,
                1 => cap,
                2 => cap.saturating_sub(t),
                3 => cap.saturating_sub(t) + 1,
                4 => cap.saturating_sub(t).saturating_sub(1),
                5 => cap + 1,
                6 => 1,
                _ => r.range(0, (cap.min(4096) + 3) as u64) as usize,
            }
            .min(1 << 21);
            hist.push(format!("e{}", len));
            let buf = vec![b'h'; len];
            let h = hist.clone();
            if cx.call("writer", "write", || jobj! {"capacity" => cap, "terminator" => term, "ops" => clip(&h.join(","), 600)}, || { let _ = w.write(&buf); }).is_none() {
                std::mem::forget(w);
                return;
            }
        }
    }
    let h = hist.clone();
    cx.call("writer", "drop", || jobj! {"capacity" => cap, "terminator" => term, "ops" => clip(&h.join(","), 600)}, move || drop(w));
}

fn area_sinks(cx: &mut Cx, r: &mut Rng) {
    let cap = *r.pick(&[0usize, 0, 1, 2, 16, 512, 70000]);
    cx.rep.eval();
    let which = r.below(7);
    cx.rep.distinct(&format!("sinks|{}|{}", which, cap));
    let metrics: Vec<String> = (0..r.range(1, 30)).map(|_| { let (s, _) = hostile_string(r); if s.len() > 100_000 { s[..s.char_indices().nth(50_000).map(|x| x.0).unwrap_or(0)].to_string() } else { s } }).collect();
    let dir = std::path::PathBuf::from(format!("/var/tmp/cvh-hostile-{}-{}", std::process::id(), cx.cs));
    let _ = std::fs::create_dir_all(&dir);
    let tr = || jobj! {"sink_kind" => which, "capacity" => cap};
    match which {
        0 => {
            // buffered spy, receiver gone half way
            let (rx, sink) = match cx.call("sinks", "BufferedSpyMetricSink::with_capacity", tr, || BufferedSpyMetricSink::with_capacity(if cap % 2 == 0 { Some(1) } else { None }, Some(cap))) {
                Some(x) => x,
                None => return,
            };
            let mut rx = Some(rx);
            for (i, m) in metrics.iter().enumerate() {
                if i == metrics.len() / 2 {
                    rx.take();
                }
                cx.call("sinks", "BufferedSpyMetricSink::emit", tr, || { let _ = sink.emit(m); });
                if i % 5 == 0 {
                    cx.call("sinks", "BufferedSpyMetricSink::flush", tr, || { let _ = sink.flush(); });
                }
            }
            cx.call("sinks", "BufferedSpyMetricSink::stats/drop", tr, move || { let _ = sink.stats(); drop(sink); });
        }
        1 => {
            let (rx, sink) = SpyMetricSink::with_capacity(1);
            for m in &metrics {
                cx.call("sinks", "SpyMetricSink::emit", tr, || { let _ = sink.emit(m); });
            }
            drop(rx);
            cx.call("sinks", "SpyMetricSink::emit (receiver gone)", tr, || { let _ = sink.emit("x"); });
            let (_rx2, s2) = SpyMetricSink::new();
            cx.call("sinks", "SpyMetricSink::new/emit", tr, || { let _ = s2.emit(""); let _ = s2.flush(); let _ = s2.stats(); });
        }
        2 | 3 => {
            // UDP: destination closed (ICMP refused on later sends), capacity 0, huge metrics
            let recv = std::net::UdpSocket::bind("127.0.0.1:0").unwrap();
            let addr = recv.local_addr().unwrap();
            if r.chance(1, 2) {
                drop(recv);
            }
            let sock = std::net::UdpSocket::bind("127.0.0.1:0").unwrap();
            sock.set_nonblocking(r.chance(1, 2)).unwrap();
            if which == 2 {
                if let Some(Ok(sink)) = cx.call("sinks", "UdpMetricSink::from", tr, || UdpMetricSink::from(addr, sock)) {
                    for m in &metrics {
                        cx.call("sinks", "UdpMetricSink::emit", tr, || { let _ = sink.emit(m); });
                    }
                    cx.call("sinks", "UdpMetricSink::stats", tr, || { let _ = sink.stats(); let _ = sink.flush(); });
                }
            } else if let Some(Ok(sink)) = cx.call("sinks", "BufferedUdpMetricSink::with_capacity", tr, || BufferedUdpMetricSink::with_capacity(addr, sock, cap)) {
                for (i, m) in metrics.iter().enumerate() {
                    cx.call("sinks", "BufferedUdpMetricSink::emit", tr, || { let _ = sink.emit(m); });
                    if i % 4 == 0 {
                        cx.call("sinks", "BufferedUdpMetricSink::flush", tr, || { let _ = sink.flush(); });
                    }
                }
                cx.call("sinks", "BufferedUdpMetricSink::drop", tr, move || { let _ = sink.stats(); drop(sink); });
            }
            // no address at all / unresolvable
            let empty: Vec<std::net::SocketAddr> = vec![];
            let s3 = std::net::UdpSocket::bind("127.0.0.1:0").unwrap();
            cx.call("sinks", "UdpMetricSink::from(empty address list)", tr, || { let _ = UdpMetricSink::from(&empty[..], s3); });
            let s4 = std::net::UdpSocket::bind("127.0.0.1:0").unwrap();
            cx.call("sinks", "BufferedUdpMetricSink::from(bad address)", tr, || { let _ = BufferedUdpMetricSink::from("256.256.256.256:99999", s4); });
        }
        4 | 5 => {
            let path = dir.join("gone.sock");
            let recv = std::os::unix::net::UnixDatagram::bind(&path).ok();
            match r.below(3) {
                0 => {
                    drop(recv);
                    let _ = std::fs::remove_file(&path);
                }
                1 => drop(recv),
                _ => std::mem::forget(recv), // never read: the queue fills up
            }
            let sock = std::os::unix::net::UnixDatagram::unbound().unwrap();
            sock.set_nonblocking(true).unwrap();
            // a third of the cases: a path no socket address can hold (>= 108 bytes, several KiB), one with an interior
            // NUL byte, the empty path - the constructors cannot fail, so the sends must (with an error, not a panic)
            let path: std::path::PathBuf = match r.below(9) {
                0 => std::path::PathBuf::from(format!("/var/tmp/{}", "p".repeat(*r.pick(&[98usize, 99, 100, 107, 108, 200, 5000])))),
                1 => {
                    use std::os::unix::ffi::OsStringExt;
                    std::path::PathBuf::from(std::ffi::OsString::from_vec(b"/var/tmp/nul\0inside.sock".to_vec()))
                }
                2 => std::path::PathBuf::from(""),
                _ => path,
            };
            if which == 4 {
                let sink = match cx.call("sinks", "UnixMetricSink::from", tr, || UnixMetricSink::from(&path, sock)) {
                    Some(s) => s,
                    None => return,
                };
                for m in &metrics {
                    cx.call("sinks", "UnixMetricSink::emit", tr, || { let _ = sink.emit(m); });
                }
                cx.call("sinks", "UnixMetricSink::stats", tr, || { let _ = sink.stats(); let _ = sink.flush(); });
            } else if let Some(sink) = {
                // one case in five: the process cannot get another file descriptor while the sink is built and used (soft
                // RLIMIT_NOFILE 0; the descriptors it already has keep working) - constructors that cannot fail must not
                // need one
                let starved = r.chance(1, 5);
                let _limit = if starved { cx.rep.obs("sinks_built_and_used_while_no_file_descriptor_can_be_had", 1); FdLimit::zero() } else { None };
                cx.call("sinks", "BufferedUnixMetricSink::with_capacity", tr, || BufferedUnixMetricSink::with_capacity(&path, sock, cap))
            } {
                for (i, m) in metrics.iter().enumerate() {
                    cx.call("sinks", "BufferedUnixMetricSink::emit", tr, || { let _ = sink.emit(m); });
                    if i % 4 == 0 {
                        cx.call("sinks", "BufferedUnixMetricSink::flush", tr, || { let _ = sink.flush(); });
                    }
                }
                cx.call("sinks", "BufferedUnixMetricSink::drop", tr, move || { let _ = sink.stats(); drop(sink); });
            }
        }
        _ => {
            cx.call("sinks", "NopMetricSink", tr, || { let s = NopMetricSink; for m in &metrics { let _ = s.emit(m); } let _ = s.flush(); let _ = s.stats(); });
            cx.call("sinks", "SocketStats", tr, || {
                let s = SocketStats::default();
                s.incr_bytes_sent(u64::MAX);
                s.incr_bytes_sent(u64::MAX);
                s.incr_bytes_dropped(u64::MAX);
                s.incr_bytes_dropped(2);
                s.incr_packets_sent();
                s.incr_packets_dropped();
                let _ = s.update(Ok(usize::MAX), 0);
                let _ = s.update(Err(io::Error::new(io::ErrorKind::Other, "x")), usize::MAX);
                let _ = s.update(Err(io::Error::new(io::ErrorKind::Other, "x")), usize::MAX);
                let st: cadence::SinkStats = (&s).into();
                let _ = format!("{:?}{:?}", st, s);
            });
        }
    }
    let _ = std::fs::remove_dir_all(dir);
}

struct WildSink {
    mode: u8,
}

impl MetricSink for WildSink {
    fn emit(&self, m: &str) -> io::Result<usize> {
        if m.len() % 2 == 0 {
            std::thread::sleep(Duration::from_micros(200)); // keeps small bounded queues full for a while
        }
        match self.mode {
            0 => Ok(m.len()),
            1 => Err(io::Error::new(io::ErrorKind::Other, "no")),
            2 => panic!("scripted-panic: wild sink"),
            _ => {
                if m.len() % 3 == 0 {
                    panic!("scripted-panic: wild sink")
                } else if m.len() % 3 == 1 {
                    Err(io::Error::new(io::ErrorKind::Other, "no"))
                } else {
                    Ok(usize::MAX)
                }
            }
        }
    }
}

fn area_queue(cx: &mut Cx, r: &mut Rng) {
    let cap = *r.pick(&[Some(0usize), Some(0), Some(1), Some(2), None, Some(1 << 16)]);
    let mode = r.below(4) as u8;
    cx.rep.eval();
    cx.rep.distinct(&format!("queue|{:?}|{}", cap, mode));
    let tr = || jobj! {"capacity" => format!("{:?}", cap), "wrapped_sink_mode" => mode};
    let q = match cx.call("queue", "QueuingMetricSink construction", tr, || {
        let mut b = QueuingMetricSink::builder();
        if let Some(c) = cap {
            b = b.with_capacity(c);
        }
        if mode % 2 == 0 {
            b = b.with_error_handler(|_e| {});
        }
        b.build(WildSink { mode })
    }) {
        Some(q) => q,
        None => return,
    };
    // a reader thread polls every read-only call while this thread emits and the worker drains: none of them may
    // panic at any moment (transient counter states, arithmetic on them, Debug formatting)
    let stop = std::sync::Arc::new(std::sync::atomic::AtomicBool::new(false));
    let reader = {
        let h = q.clone();
        let stop = stop.clone();
        std::thread::spawn(move || {
            let mut n = 0u64;
            let mut first_panic: Option<String> = None;
            while !stop.load(std::sync::atomic::Ordering::Relaxed) && first_panic.is_none() {
                if let Err(p) = panics::guard(|| {
                    let _ = (h.queued(), h.submitted(), h.drained(), h.panics());
                    let _ = h.stats();
                    if n % 16 == 0 {
                        let _ = format!("{:?}", h);
                    }
                }) {
                    first_panic = Some(p);
                }
                n += 1;
            }
            (n, first_panic)
        })
    };
    let mut handles = vec![q];
    for i in 0..r.range(5, 80) {
        match r.below(10) {
            0 => {
                let c = handles[0].clone();
                handles.push(c);
            }
            1 if handles.len() > 1 => {
                let h = handles.pop().unwrap();
                cx.call("queue", "drop(clone)", tr, move || drop(h));
            }
            2 => {
                let h = &handles[0];
                cx.call("queue", "counters", tr, || { let _ = (h.queued(), h.submitted(), h.drained(), h.panics()); let _ = h.stats(); let _ = h.flush(); let _ = format!("{:?}", h); });
            }
            _ => {
                // short, long, multi-byte at every alignment: error paths may quote or abbreviate the metric
                let m = match i % 5 {
                    0 => "q".repeat((i % 7) as usize),
                    1 => format!("{}{}", "a".repeat((i % 9) as usize), "é".repeat(60)),
                    2 => format!("{}{}", "b".repeat((i % 4) as usize), "🎉中".repeat(40)),
                    3 => "z".repeat(300),
                    _ => hostile_string(r).0.chars().take(5000).collect(),
                };
                let h = &handles[r.usize_below(handles.len())];
                cx.call("queue", "emit", tr, || { let _ = h.emit(&m); });
            }
        }
    }
    stop.store(true, std::sync::atomic::Ordering::Relaxed);
    if let Ok((n, p)) = reader.join() {
        cx.rep.obs("concurrent_read_only_calls_on_queuing_sink", n);
        if let Some(p) = p {
            cx.panic("queue", "queued()/submitted()/drained()/panics()/stats()/Debug polled while metrics flow", p, tr());
        }
    }
    cx.call("queue", "drop(all)", tr, move || drop(handles));
    // through a client
    let client = StatsdClient::from_sink("hostile", QueuingMetricSink::with_capacity(WildSink { mode }, 1));
    cx.call("queue", "client over queuing sink", tr, || {
        for _ in 0..20 {
            let _ = client.count("k", 1);
            client.gauge_with_tags("g", f64::NAN).with_tag("", "").send();
        }
        let _ = client.flush();
    });
}


/// Calls made from a thread-local's destructor at THREAD EXIT: an application may well record a metric when a per-thread
/// object goes away. Whatever per-thread state the library keeps is possibly gone by then (destructors run in reverse
/// order of initialisation) - the call must still work or fail with an error; a panic there aborts the process.
fn area_tls(cx: &mut Cx, r: &mut Rng) {
    use std::cell::RefCell;
    cx.rep.eval();
    let variant = r.below(8);
    cx.rep.distinct(&format!("tls|{}", variant));
    type Action = Box<dyn Fn() + Send>;
    thread_local! {
        static GUARD: RefCell<Option<ExitGuard>> = const { RefCell::new(None) };
    }
    struct ExitGuard(Action);
    impl Drop for ExitGuard {
        fn drop(&mut self) {
            (self.0)();
        }
    }
    let make: Box<dyn Fn() -> Action + Send> = match variant % 4 {
        0 => Box::new(|| {
            let q = QueuingMetricSink::with_capacity(cadence::NopMetricSink, 1);
            Box::new(move || {
                // (a bounded queue that is full hands the string back to the caller: both outcomes are exercised)
                for k in 0..4 {
                    let _ = q.emit(&format!("tls.exit.q{}:1|c", k));
                }
                let _ = q.flush();
            })
        }),
        1 => Box::new(|| {
            let c = StatsdClient::from_sink("tls", QueuingMetricSink::from(cadence::NopMetricSink));
            Box::new(move || {
                let _ = c.count("exit", 1i64);
                c.gauge_with_tags("exit", 2u64).with_tag("a", "b").send();
                let _ = c.time("exit", std::time::Duration::new(u64::MAX, 0));
                let _ = c.flush();
            })
        }),
        2 => Box::new(|| {
            let (_rx, sink) = cadence::BufferedSpyMetricSink::with_capacity(None, Some(32));
            let c = StatsdClient::from_sink("tls", sink);
            Box::new(move || {
                for k in 0..6 {
                    let _ = c.count("exit", k as i64);
                }
                let _ = c.flush();
            })
        }),
        _ => Box::new(|| {
            let c = StatsdClient::builder("tls", cadence::NopMetricSink).with_tag("t", "v").with_error_handler(|_e| {}).build();
            Box::new(move || {
                c.histogram_with_tags("exit", vec![1u64, 2]).send();
                c.set_with_tags("exit", 1i64).with_timestamp(1).send();
            })
        }),
    };
    let guard_first = variant < 4;
    cx.call("tls", "metrics recorded by a thread-local destructor at thread exit", || jobj! {"variant" => variant, "guard_initialised_before_first_call" => guard_first}, move || {
        let t = std::thread::spawn(move || {
            let action = make();
            let warm = make();
            if guard_first {
                // the application's per-thread object exists BEFORE the thread's first call into the library ...
                GUARD.with(|g| *g.borrow_mut() = Some(ExitGuard(action)));
                warm();
            } else {
                warm();
                GUARD.with(|g| *g.borrow_mut() = Some(ExitGuard(action)));
            }
            // ... and is destroyed when the thread ends, after the library's own per-thread state (if it has any)
        });
        if t.join().is_err() {
            panic!("the thread whose thread-local destructor records metrics at exit panicked");
        }
    });
    cx.rep.obs("threads_whose_thread_local_destructor_used_the_library_at_exit", 1);
}

/// Soft RLIMIT_NOFILE set to 0 for the lifetime of the guard (restored on drop).
struct FdLimit([u64; 2]);

extern "C" {
    fn getrlimit(resource: i32, rlim: *mut [u64; 2]) -> i32;
    fn setrlimit(resource: i32, rlim: *const [u64; 2]) -> i32;
}

impl FdLimit {
    fn zero() -> Option<FdLimit> {
        let mut old = [0u64; 2];
        unsafe {
            if getrlimit(7, &mut old) != 0 {
                return None;
            }
            let new = [0u64, old[1]];
            if setrlimit(7, &new) != 0 {
                return None;
            }
        }
        Some(FdLimit(old))
    }
}

impl Drop for FdLimit {
    fn drop(&mut self) {
        unsafe {
            setrlimit(7, &self.0);
        }
    }
}


/// Callers with little stack: an application thread created with a 64 KiB stack (embedded-style workers, signal-handling
/// threads, coroutine runtimes) records metrics of every kind through a plain client, a buffered sink and a queuing sink.
/// The library formats on the heap; a stack overflow there takes the whole process down (seen by the parent as a signal).
fn area_smallstack(cx: &mut Cx, r: &mut Rng) {
    cx.rep.eval();
    let variant = r.below(3);
    cx.rep.distinct(&format!("smallstack|{}", variant));
    let key: String = "k".repeat(r.range(1, 300) as usize);
    let tags: Vec<(String, String)> = (0..r.range(0, 12)).map(|i| (format!("t{}", i), "v".repeat(r.range(0, 60) as usize))).collect();
    let t = std::thread::Builder::new().stack_size(64 * 1024).spawn(move || {
        let (rx, client) = match variant {
            0 => (None, StatsdClient::from_sink("small.stack", cadence::NopMetricSink)),
            1 => {
                let (rx, s) = cadence::BufferedSpyMetricSink::with_capacity(None, Some(256));
                (Some(rx), StatsdClient::builder("small.stack", s).with_tag("d", "t").with_container_id("c").build())
            }
            _ => (None, StatsdClient::from_sink("small.stack", QueuingMetricSink::from(cadence::NopMetricSink))),
        };
        for round in 0..4 {
            let _ = client.count(&key, round as i64);
            let _ = client.time(&key, std::time::Duration::from_millis(7));
            let _ = client.gauge(&key, 1.5f64);
            let _ = client.meter(&key, 3u64);
            let _ = client.histogram(&key, vec![1u64, 2, 3]);
            let _ = client.distribution(&key, 9u64);
            let _ = client.set(&key, -1i64);
            let mut b = client.count_with_tags(&key, 1i64).with_sampling_rate(0.5).with_timestamp(7).with_container_id("x");
            for (k, v) in &tags {
                b = b.with_tag(k, v);
            }
            b.send();
            let _ = client.time_with_tags(&key, std::time::Duration::new(u64::MAX, 0)).try_send();
            let _ = client.flush();
        }
        drop(client);
        drop(rx);
    });
    match t {
        Ok(h) => {
            if h.join().is_err() {
                cx.rep.violation(Violation { property: "C20".into(), rule: "no-panic".into(), class: "panic".into(), detail: "a metric call made on a thread with a 64 KiB stack panicked".into(), replay_args: cx.args.to_vec_with(&[]), trace: Json::Null });
            }
        }
        Err(_) => cx.rep.inconclusive("could not create a thread with a 64 KiB stack"),
    }
    cx.rep.obs("threads_with_a_64_KiB_stack_that_recorded_metrics", 1);
}

fn area_misc(cx: &mut Cx, r: &mut Rng) {
    cx.rep.eval();
    cx.rep.distinct(&format!("misc|{}", r.below(50)));
    // one metric with very many tags (every fourth case; in the unoptimised build nothing is a loop that was written as
    // a recursion)
    if r.chance(1, 4) {
        let n = *r.pick(&[5_000usize, 20_000, 40_000]);
        cx.call("misc", "a metric with tens of thousands of tags", || jobj! {"tags" => n}, move || {
            // (on an ordinary application thread: 2 MiB of stack, not the main thread's 8)
            let t = std::thread::spawn(move || {
                let c = StatsdClient::from_sink("many", cadence::NopMetricSink);
                let keys: Vec<String> = (0..n).map(|i| format!("k{}", i)).collect();
                let mut b = c.gauge_with_tags("tags", 1u64);
                for (i, k) in keys.iter().enumerate() {
                    b = if i % 3 == 0 { b.with_tag_value(k) } else { b.with_tag(k, "v") };
                }
                let _ = b.try_send();
            });
            if t.join().is_err() {
                panic!("the thread sending a metric with {} tags panicked", n);
            }
        });
        cx.rep.obs("metrics_with_tens_of_thousands_of_tags", 1);
    }
    // errors: Display / source / description of every kind
    cx.call("misc", "MetricError API", || Json::Null, || {
        #[allow(deprecated)]
        fn probe(e: cadence::MetricError) {
            use std::error::Error;
            let _ = format!("{} {:?} {:?}", e, e, e.kind());
            let _ = e.source().map(|s| s.to_string());
            let _ = e.description().len();
            let _ = e.cause().map(|s| s.to_string());
        }
        probe(cadence::MetricError::from((cadence::ErrorKind::InvalidInput, "")));
        probe(cadence::MetricError::from((cadence::ErrorKind::IoError, "x")));
        probe(cadence::MetricError::from(io::Error::new(io::ErrorKind::Other, "")));
        probe(cadence::MetricError::from(io::Error::from_raw_os_error(i32::MAX)));
        probe(cadence::MetricError::from(io::Error::from_raw_os_error(-1)));
    });
    // MetricValue Display is reachable through user types; Debug/Clone directly
    cx.call("misc", "MetricValue Debug/Clone", || Json::Null, || {
        for v in [
            MetricValue::Signed(i64::MIN),
            MetricValue::Unsigned(u64::MAX),
            MetricValue::Float(f64::NAN),
            MetricValue::PackedSigned(vec![]),
            MetricValue::PackedUnsigned(vec![]),
            MetricValue::PackedFloat(vec![]),
            MetricValue::PackedSigned(vec![i64::MIN]),
            MetricValue::PackedUnsigned(vec![0; 3]),
            MetricValue::PackedFloat(vec![f64::INFINITY, -0.0]),
        ] {
            let _ = format!("{:?}", v.clone());
            // Display is public too (cadence::ext::MetricValue): every variant, including empty packed ones
            let _ = format!("{}", v);
            // ... and a caller may give it (or any other public Display / Debug type) width, fill, alignment, sign and
            // precision flags, smaller or larger than the text
            let _ = (format!("{:3}", v), format!("{:>30}", v), format!("{:<1}", v), format!("{:^7}", v), format!("{:*^40}", v), format!("{:08}", v), format!("{:+}", v), format!("{:.2}", v), format!("{:10.3}", v), format!("{:#?}", v));
            let _ = (format!("{:1$}", v, 2), format!("{:.*}", 0, v), format!("{:#10?}", v), format!("{:02?}", v));
        }
        let e = cadence::MetricError::from((cadence::ErrorKind::InvalidInput, "x"));
        let _ = (format!("{:3}", e), format!("{:>40}", e), format!("{:<1}", e), format!("{:#?}", e), format!("{:5?}", e.kind()), format!("{:>30?}", e.kind()));
        let st = cadence::SinkStats::default();
        let _ = (format!("{:3?}", st), format!("{:#?}", st), format!("{:>80?}", st));
    });
    // a client over each cheap sink with an empty prefix / prefix of dots
    for p in ["", ".", "....", "a..", "\n"] {
        cx.call("misc", "client with odd prefix", || jobj! {"prefix" => p}, || {
            let c = StatsdClient::builder(p, NopMetricSink).with_tag("", "").with_tag_value("").with_container_id("").with_error_handler(|_| {}).build();
            let _ = c.incr("");
            let _ = c.decr("");
            let _ = c.count("", i64::MIN);
            let _ = c.time("", Duration::new(u64::MAX, 999_999_999));
            let _ = c.time("", vec![Duration::new(0, 0); 0]);
            let _ = c.histogram("", Vec::<f64>::new());
            let _ = c.distribution("", vec![f64::NAN]);
            let _ = c.set("", i64::MAX);
            let _ = c.meter("", u64::MAX);
            c.gauge_with_tags("", f64::NEG_INFINITY).with_sampling_rate(f64::NAN).with_timestamp(u64::MAX).with_container_id("").with_tag_value("").send();
            let _ = format!("{:?}", c);
        });
    }
}

/// One fuzzer input: the first byte picks the area, the rest drives its generator (see cvh::fuzz).
fn fuzz_case(rep: &mut Report, args: &Args, data: &[u8]) {
    let mut r = Rng::from_bytes(data);
    let mut cx = Cx { rep, args, cs: 0, replay: Some(cvh::fuzz::replay_of(data)) };
    match r.below(4) {
        0 => area_format(&mut cx, &mut r),
        1 => area_writer(&mut cx, &mut r),
        2 => area_misc(&mut cx, &mut r),
        _ => area_format(&mut cx, &mut r),
    }
}

#[allow(dead_code)]
pub fn fuzz_one(data: &[u8]) {
    cvh::fuzz::step("hostile_driver(fuzz)", |rep, args| fuzz_case(rep, args, data));
}

fn main() {
    let args = Args::from_env();
    panics::install_hook();
    let mut rep = Report::new("hostile_driver", "C20");
    if !panics::overflow_checks_enabled() {
        rep.inconclusive("overflow checks are NOT enabled in this build: C20 cannot be decided");
    } else {
        rep.obs("overflow_canary_panicked_as_required", 1);
    }
    rep.obs("debug_assertions_enabled", cfg!(debug_assertions) as u64);
    let area = args.str("area", "format");
    if args.str("mode", "") == "fuzz-one" {
        fuzz_case(&mut rep, &args, &cvh::fuzz::unhex(&args.str("hex", "")));
        std::process::exit(rep.finish(args.get("out")));
    }
    let seed = args.u64("seed", 1);
    let shard = args.u64("shard", 0);
    let cases = args.u64("cases", 50);
    let only = args.get("case-seed").map(|s| s.parse::<u64>().unwrap());
    for i in 0..cases {
        let cs = only.unwrap_or_else(|| mix(&[seed, 0xC20, cvh::rng::hash_str(&area), shard, i]));
        let mut r = Rng::new(cs);
        let mut cx = Cx { rep: &mut rep, args: &args, cs, replay: None };
        match area.as_str() {
            "format" => area_format(&mut cx, &mut r),
            "writer" => area_writer(&mut cx, &mut r),
            "sinks" => area_sinks(&mut cx, &mut r),
            "queue" => area_queue(&mut cx, &mut r),
            "misc" => area_misc(&mut cx, &mut r),
            "tls" => area_tls(&mut cx, &mut r),
            "smallstack" => area_smallstack(&mut cx, &mut r),
            a => {
                eprintln!("unknown area {}", a);
                std::process::exit(2);
            }
        }
        if only.is_some() || rep.violation_count >= 8 {
            break;
        }
    }
    // library panics on OTHER threads (the queuing sink's worker) that are not the scripted ones
    let stray: Vec<_> = panics::take_log().into_iter().filter(|p| !p.message.contains("scripted-panic") && p.location.contains("/repo/")).collect();
    if let Some(p) = stray.first() {
        rep.violation(Violation {
            property: "C20".into(),
            rule: "no-panic".into(),
            class: "panic-on-library-thread".into(),
            detail: format!("a panic was raised inside the library on thread {} at {}: {}", p.thread, p.location, p.message),
            replay_args: args.to_vec_with(&[]),
            trace: Json::Null,
        });
    }
    rep.sample(|| jobj! {"area" => area.as_str(), "note" => "hostile strings: empty, delimiter-only, NUL, 1 MiB, 64 KiB, invisible/bidi code points; numbers: MIN/MAX, NaN, +-inf, subnormal; durations at the 64-bit boundaries; packed lists of 0..10^6 elements; capacities 0, 1, 2, ..., 2^20"});
    std::process::exit(rep.finish(args.get("out")));
}
