//! queue_driver: history monitors for the queuing sink (C08 C09 C10 C11 C15 C16).
//!
//!   queue_driver --property Cxx --mode seq-enum|seq-random|conc|windows --seed S --shard I --shards N --out FILE
//!
//! seq-*: one harness thread drives {emit on handle h with outcome ok/err/panic, clone, drop, release one gated
//!        call}; the wrapped sink is gated, so after every step the worker is at rest (inside the gate or idle) and
//!        the model state is exact.
//! conc:  concurrent producers / handle churn / sampler thread.
//! windows: schedule points (hook H2) force the windows between two critical sections.

use cadence::{MetricSink, QueuingMetricSink};
use cvh::procmon;
use cvh::qmon::*;
use cvh::rng::{mix, Rng};
use cvh::{jobj, panics, Args, Json, Report, Violation};
use std::collections::VecDeque;
use std::sync::{Arc, Mutex};

#[derive(Clone, Debug, PartialEq)]
enum SOp {
    Emit { h: usize, out: Out },
    Clone { h: usize },
    Drop { h: usize },
    Release,
    /// MetricSink::flush on a handle: must return at once and must not touch the queue
    Flush { h: usize },
}

impl SOp {
    fn code(&self) -> String {
        match self {
            SOp::Emit { h, out } => format!("E{}{}", h, match out { Out::Ok => "o".to_string(), Out::Err(k) => format!("e{}", k), Out::Panic => "p".to_string(), Out::Blank(k) => format!("b{}", k) }),
            SOp::Clone { h } => format!("C{}", h),
            SOp::Drop { h } => format!("D{}", h),
            SOp::Release => "R".to_string(),
            SOp::Flush { h } => format!("F{}", h),
        }
    }
    fn parse(s: &str) -> SOp {
        let b = s.as_bytes();
        match b[0] {
            b'E' => {
                let h = (b[1] - b'0') as usize;
                let out = match b[2] {
                    b'o' => Out::Ok,
                    b'p' => Out::Panic,
                    b'b' => Out::Blank(s[3..].parse().unwrap_or(0)),
                    _ => Out::Err(s[3..].parse().unwrap_or(0)),
                };
                SOp::Emit { h, out }
            }
            b'C' => SOp::Clone { h: s[1..].parse().unwrap() },
            b'D' => SOp::Drop { h: s[1..].parse().unwrap() },
            b'F' => SOp::Flush { h: s[1..].parse().unwrap() },
            _ => SOp::Release,
        }
    }
}

#[derive(Clone, Debug)]
struct Scenario {
    cap: Option<usize>,
    handler: bool,
    ops: Vec<SOp>,
}

impl Scenario {
    fn code(&self) -> String {
        self.ops.iter().map(|o| o.code()).collect::<Vec<_>>().join(",")
    }
    fn capcode(&self) -> String {
        self.cap.map(|c| c.to_string()).unwrap_or_else(|| "unbounded".into())
    }
}

/// Light model used by the generators to produce only meaningful op sequences.
#[derive(Clone, Debug)]
struct Sim {
    cap: Option<usize>,
    alive: Vec<bool>,
    in_gate: bool,
    queue: usize,
    done: bool,
    flushes: bool,
}

impl Sim {
    fn new(cap: Option<usize>) -> Sim {
        Sim { cap, alive: vec![true], in_gate: false, queue: 0, done: false, flushes: false }
    }
    fn n_alive(&self) -> usize {
        self.alive.iter().filter(|a| **a).count()
    }
    fn options(&self, max_handles: usize) -> Vec<SOp> {
        let mut v = Vec::new();
        if self.done {
            return v;
        }
        for (h, a) in self.alive.iter().enumerate() {
            if *a {
                for out in [Out::Ok, Out::Err(0), Out::Panic] {
                    v.push(SOp::Emit { h, out });
                }
            }
        }
        if self.alive.len() < max_handles {
            if let Some(h) = self.alive.iter().position(|a| *a) {
                v.push(SOp::Clone { h });
            }
        }
        for (h, a) in self.alive.iter().enumerate() {
            if *a {
                v.push(SOp::Drop { h });
            }
        }
        if self.in_gate {
            v.push(SOp::Release);
        }
        if self.flushes {
            if let Some(h) = self.alive.iter().position(|a| *a) {
                v.push(SOp::Flush { h });
            }
        }
        v
    }
    fn apply(&mut self, op: &SOp) {
        match op {
            SOp::Emit { .. } => {
                let room = match self.cap {
                    None => true,
                    Some(0) => !self.in_gate, // rendezvous: only an idle worker can take it (timing dependent in reality)
                    Some(c) => self.queue < c,
                };
                if room {
                    if self.in_gate {
                        self.queue += 1;
                    } else {
                        self.in_gate = true;
                    }
                }
            }
            SOp::Clone { .. } => self.alive.push(true),
            SOp::Drop { h } => {
                self.alive[*h] = false;
                if self.n_alive() == 0 && !self.in_gate {
                    self.done = true;
                }
            }
            SOp::Flush { .. } => {}
            SOp::Release => {
                if self.queue > 0 {
                    self.queue -= 1;
                } else {
                    self.in_gate = false;
                    if self.n_alive() == 0 {
                        self.done = true;
                    }
                }
            }
        }
    }
}

struct V {
    props: Vec<&'static str>,
    rule: &'static str,
    class: String,
    detail: String,
}

struct SeqOutcome {
    violations: Vec<V>,
    inconclusive: Option<String>,
    log: Vec<Ev>,
    sig: String,
    obs: Vec<(&'static str, u64)>,
    nontrivial: bool,
}

fn run_seq(sc: &Scenario, sid: u64) -> SeqOutcome {
    let sh = Shared::new(true);
    // histories without a caller-side flush run against a wrapped sink whose flush behaves like a buffered sink's
    if !sc.ops.iter().any(|o| matches!(o, SOp::Flush { .. })) && sid % 2 == 0 {
        sh.st.lock().unwrap().flush_like_buffered_sink = true;
    }
    // every fourth history: the wrapped sink's flush fails (the caller of flush() gets the error; nothing else may)
    if sid % 4 == 1 {
        sh.st.lock().unwrap().flush_fails = true;
    }
    set_current(Some(sh.clone()));
    let mut viol: Vec<V> = Vec::new();
    let mut obs: Vec<(&'static str, u64)> = Vec::new();
    // (three public ways to a builder: they are the same builder)
    let mut builder = match sid % 3 {
        0 => QueuingMetricSink::builder(),
        1 => cadence::QueuingMetricSinkBuilder::new(),
        _ => cadence::QueuingMetricSinkBuilder::default(),
    };
    // the order of the builder calls must not matter: alternate it
    let handler_first = sid % 2 == 0;
    // (a handler configured again replaces the earlier one: every third history with a handler sets one twice)
    if sc.handler && sid % 3 == 2 {
        builder = builder.with_error_handler(handler_for(sh.clone()));
    }
    if sc.handler && handler_first {
        builder = builder.with_error_handler(handler_for(sh.clone()));
    }
    if let Some(c) = sc.cap {
        builder = builder.with_capacity(c);
    }
    if sc.handler && !handler_first {
        builder = builder.with_error_handler(handler_for(sh.clone()));
    }
    let built = panics::guard(|| builder.build(GatedSink { sh: sh.clone() }));
    let q0 = match built {
        Ok(q) => q,
        Err(p) => {
            return SeqOutcome { violations: vec![V { props: vec!["C20"], rule: "no-panic", class: "constructor-panicked".into(), detail: p }], inconclusive: None, log: sh.log(), sig: "!".into(), obs, nontrivial: true };
        }
    };
    let mut handles: Vec<Option<QueuingMetricSink>> = vec![Some(q0)];
    // initial rest: the worker has reached its wait (known through schedule point queuing.run.wait when hooks are on)
    let hooks = HOOKS.load(std::sync::atomic::Ordering::Relaxed);
    let mut waits_seen = 0usize;
    if hooks {
        let _ = await_log(&sh, |st| st.log.iter().any(|e| matches!(e, Ev::Point { name: "queuing.run.wait", .. })));
        waits_seen = sh.count(|e| matches!(e, Ev::Point { name: "queuing.run.wait", .. }));
    } else {
        settle();
    }
    let mut queue: VecDeque<String> = VecDeque::new(); // accepted, not yet ENTERed (model of the channel)
    let mut in_gate: Option<(String, u32)> = None;
    let mut accepted: Vec<String> = Vec::new();
    let mut ok_emits: u64 = 0;
    let mut entered: usize = 0;
    let mut exits: usize = 0;
    let mut handlers: usize = 0;
    let mut panics_n: u64 = 0;
    let mut panic_tids: Vec<u32> = Vec::new();
    let mut nonlast_drop_seen = false;
    let mut queue_len_at_last_drop: Option<usize> = None;
    let mut last_drop_while_gated = false;
    let mut sig = String::new();
    let mut inconclusive: Option<String> = None;
    let mut aborted = false;
    let mut stopped = false; // all handles dropped, worker terminated and sink released (observed)
    // (built once per history: the call watchdog gets a copy at every call, and a history can have 10^5 operations)
    let ctx_once: Json = {
        let code = sc.code();
        let code = if code.len() > 4000 { format!("{} ... ({} operations)", &code[..4000], sc.ops.len()) } else { code };
        jobj! {"capacity" => sc.capcode(), "ops" => code, "handler" => sc.handler}
    };
    let ctx = |_sc: &Scenario| ctx_once.clone();

    macro_rules! alive {
        () => {
            handles.iter().filter(|h| h.is_some()).count()
        };
    }
    // classify a "cannot make progress" verdict
    macro_rules! stuck {
        ($st:expr, $phase:expr) => {{
            let st: Stuck = $st;
            if !st.is_verdict() {
                inconclusive = Some(format!("{} while waiting for {}", st.describe(), $phase));
            } else {
                let after_panic = panics_n > 0;
                let n_alive = alive!();
                let (mut props, rule, class): (Vec<&'static str>, &'static str, String) = match $phase {
                    "delivery" if n_alive > 0 => (
                        vec!["C08"],
                        "R1",
                        if nonlast_drop_seen { "emit-after-non-last-handle-drop".to_string() } else { "accepted-never-delivered".to_string() },
                    ),
                    "delivery" => (
                        vec!["C09", "C08"],
                        "R4",
                        if queue_len_at_last_drop.is_some() && queue_len_at_last_drop == sc.cap { "queue-full-at-last-drop".to_string() } else { "undelivered-after-last-drop".to_string() },
                    ),
                    "handler" => (vec!["C16"], "R8", "handler-never-called".to_string()),
                    "release" => (
                        vec!["C09"],
                        "R4",
                        if queue_len_at_last_drop.is_some() && queue_len_at_last_drop == sc.cap && sc.cap.is_some() { "queue-full-at-last-drop".to_string() } else { "worker-or-sink-not-released".to_string() },
                    ),
                    other => (vec!["C08"], "R1", format!("stuck-{}", other)),
                };
                if after_panic && $phase != "handler" {
                    props.push("C11");
                }
                viol.push(V { props, rule, class, detail: format!("waiting for {}: {}", $phase, st.describe()) });
            }
            aborted = true;
        }};
    }

    'ops: for (k, op) in sc.ops.iter().enumerate() {
        sig.push_str(&op.code());
        match op {
            SOp::Emit { h, out } => {
                let text = metric_text(&format!("s{}.n{}", sid, k), out, 0);
                let hd = match handles.get(*h).and_then(|x| x.as_ref()) {
                    Some(x) => x,
                    None => continue,
                };
                let tid = procmon::gettid();
                sh.push(Ev::Call { h: *h, metric: text.clone(), tid });
                let r = in_call("emit", || ctx(sc), || panics::guard(|| hd.emit(&text)));
                let expected_ok = match sc.cap {
                    None => Some(true),
                    Some(0) => None,
                    Some(c) => Some(queue.len() < c),
                };
                match r {
                    Err(p) => {
                        sh.push(Ev::Ret { h: *h, metric: text.clone(), ok: Err(format!("PANIC {}", p)) });
                        viol.push(V { props: vec!["C10"], rule: "R5", class: "emit-panicked".into(), detail: format!("emit unwound into the caller: {}", p) });
                        aborted = true;
                        break 'ops;
                    }
                    Ok(Ok(n)) => {
                        sh.push(Ev::Ret { h: *h, metric: text.clone(), ok: Ok(n) });
                        sig.push('+');
                        if n != text.len() {
                            viol.push(V { props: vec!["C10"], rule: "R5", class: "return-count".into(), detail: format!("emit returned Ok({}) for a metric of {} bytes", n, text.len()) });
                        }
                        if expected_ok == Some(false) {
                            viol.push(V {
                                props: vec!["C10"],
                                rule: "R5",
                                class: "capacity-exceeded".into(),
                                detail: format!("emit accepted a metric although the bounded queue (capacity {:?}) already held {} accepted metrics not yet handed over", sc.cap, queue.len()),
                            });
                        }
                        ok_emits += 1;
                        accepted.push(text.clone());
                        queue.push_back(text.clone());
                    }
                    Ok(Err(e)) => {
                        let msg = e.to_string();
                        sh.push(Ev::Ret { h: *h, metric: text.clone(), ok: Err(msg.clone()) });
                        sig.push('-');
                        if expected_ok == Some(true) {
                            viol.push(V {
                                props: vec!["C10"],
                                rule: "R5",
                                class: if sc.cap.is_none() { "unbounded-refused".into() } else { "refused-with-room".into() },
                                detail: format!("emit refused ({}) although the queue (capacity {:?}) held only {} metrics", msg, sc.cap, queue.len()),
                            });
                        }
                        if msg.contains("scripted") {
                            viol.push(V { props: vec!["C10"], rule: "R5", class: "wrapped-error-surfaced".into(), detail: format!("emit returned the wrapped sink's error: {}", msg) });
                        }
                    }
                }
                // the idle worker takes the head of the queue
                if in_gate.is_none() && !queue.is_empty() {
                    let want = entered + 1;
                    match await_log(&sh, |st| st.log.iter().filter(|e| matches!(e, Ev::Enter { .. })).count() >= want) {
                        Ok(()) => {
                            let m = queue.pop_front().unwrap();
                            entered += 1;
                            let tid = sh.log().iter().rev().find_map(|e| if let Ev::Enter { tid, .. } = e { Some(*tid) } else { None }).unwrap_or(0);
                            in_gate = Some((m, tid));
                        }
                        Err(st) => {
                            stuck!(st, "delivery");
                            break 'ops;
                        }
                    }
                }
            }
            SOp::Clone { h } => {
                if let Some(Some(x)) = handles.get(*h) {
                    let c = x.clone();
                    handles.push(Some(c));
                    sh.push(Ev::CloneH { from: *h, to: handles.len() - 1 });
                }
            }
            SOp::Drop { h } => {
                if let Some(slot) = handles.get_mut(*h) {
                    if let Some(x) = slot.take() {
                        let last = handles.iter().all(|y| y.is_none());
                        sh.push(Ev::DropCall { h: *h });
                        let r = in_call("drop", || ctx(sc), || panics::guard(move || drop(x)));
                        sh.push(Ev::DropRet { h: *h });
                        if let Err(p) = r {
                            viol.push(V { props: vec!["C09"], rule: "R4", class: "drop-panicked".into(), detail: format!("dropping a handle unwound: {}", p) });
                            aborted = true;
                            break 'ops;
                        }
                        if last {
                            queue_len_at_last_drop = Some(queue.len());
                            last_drop_while_gated = in_gate.is_some();
                            if in_gate.is_none() {
                                // idle worker: must terminate and release the sink
                                if let Err(st) = await_log(&sh, |st| st.log.iter().any(|e| matches!(e, Ev::SinkDrop { .. }))).and_then(|_| await_no_library_thread()) {
                                    stuck!(st, "release");
                                    break 'ops;
                                }
                                stopped = true;
                            }
                        } else {
                            nonlast_drop_seen = true;
                            // nothing must happen now; give a wrongly triggered stop the time to take effect
                            settle();
                        }
                    }
                }
            }
            SOp::Flush { h } => {
                if let Some(Some(x)) = handles.get(*h) {
                    let before = sh.count(|e| matches!(e, Ev::Enter { .. }));
                    let r = in_call("flush", || ctx(sc), || panics::guard(|| x.flush()));
                    obs.push(("flush_calls_on_queuing_sink", 1));
                    if let Ok(Err(_)) = &r {
                        obs.push(("flush_calls_that_returned_the_wrapped_sinks_flush_error", 1));
                    }
                    match r {
                        Err(p) => {
                            viol.push(V { props: vec!["C10"], rule: "R5", class: "flush-panicked".into(), detail: format!("flush on the queuing sink unwound into the caller: {}", p) });
                            aborted = true;
                            break 'ops;
                        }
                        Ok(_) => {
                            // a flush by a caller must not consume queue entries: nothing new may have entered the sink
                            // beyond what the model predicts (the worker is at rest)
                            let after = sh.count(|e| matches!(e, Ev::Enter { .. }));
                            if after != before {
                                viol.push(V { props: vec!["C10", "C08"], rule: "R5", class: "flush-consumed-queue".into(), detail: format!("flush() on the queuing sink handed {} queued metric(s) to the wrapped sink", after - before) });
                                aborted = true;
                                break 'ops;
                            }
                        }
                    }
                }
            }
            SOp::Release => {
                let (m, tid) = match in_gate.take() {
                    Some(x) => x,
                    None => continue,
                };
                sh.release_one();
                let want = exits + 1;
                if let Err(st) = await_log(&sh, |st| st.n_exit >= want) {
                    stuck!(st, "delivery");
                    break 'ops;
                }
                exits += 1;
                match outcome_of(&m) {
                    Out::Err(_) if sc.handler => {
                        let wanth = handlers + 1;
                        // logical evidence that the handler was skipped: the worker has moved on past the failed metric
                        // (next schedule point / next metric entered) without calling it
                        let moved_on = |st: &St| {
                            let last_exit = st.log.iter().rposition(|e| matches!(e, Ev::Exit { .. })).unwrap_or(0);
                            st.log[last_exit..].iter().any(|e| matches!(e, Ev::Point { name: "queuing.run.wait", .. } | Ev::Point { name: "queuing.run.taken", .. } | Ev::Enter { .. }))
                        };
                        if let Err(st) = await_log(&sh, |st| st.log.iter().filter(|e| matches!(e, Ev::Handler { .. })).count() >= wanth || moved_on(st)) {
                            stuck!(st, "handler");
                            break 'ops;
                        }
                        if sh.count(|e| matches!(e, Ev::Handler { .. })) < wanth {
                            viol.push(V { props: vec!["C16"], rule: "R8", class: "handler-never-called".into(), detail: format!("the wrapped sink failed for {} and the worker went on to its next step without calling the configured handler", m) });
                            aborted = true;
                            break 'ops;
                        }
                        handlers += 1;
                    }
                    Out::Panic => {
                        panics_n += 1;
                        panic_tids.push(tid);
                        if let Err(st) = await_thread_gone(tid) {
                            stuck!(st, "delivery");
                            break 'ops;
                        }
                    }
                    _ => {}
                }
                if !queue.is_empty() {
                    let want = entered + 1;
                    match await_log(&sh, |st| st.log.iter().filter(|e| matches!(e, Ev::Enter { .. })).count() >= want) {
                        Ok(()) => {
                            let m = queue.pop_front().unwrap();
                            entered += 1;
                            let tid = sh.log().iter().rev().find_map(|e| if let Ev::Enter { tid, .. } = e { Some(*tid) } else { None }).unwrap_or(0);
                            in_gate = Some((m, tid));
                        }
                        Err(st) => {
                            stuck!(st, "delivery");
                            break 'ops;
                        }
                    }
                } else if alive!() == 0 {
                    if let Err(st) = await_log(&sh, |st| st.log.iter().any(|e| matches!(e, Ev::SinkDrop { .. }))).and_then(|_| await_no_library_thread()) {
                        stuck!(st, "release");
                        break 'ops;
                    }
                    stopped = true;
                } else if hooks {
                    // idle rest: the worker is back at its wait (not a verdict if it never gets there: the next
                    // accepted metric decides)
                    let want = waits_seen + 1;
                    let _ = await_log(&sh, |st| st.log.iter().filter(|e| matches!(e, Ev::Point { name: "queuing.run.wait", .. })).count() >= want);
                } else {
                    settle();
                }
                waits_seen = sh.count(|e| matches!(e, Ev::Point { name: "queuing.run.wait", .. }));
            }
        }
        // ---- rest point: counters (C15) ----
        if let Some(hd) = handles.iter().flatten().next() {
            if sc.cap != Some(0) {
                let (q, s, d) = (hd.queued(), hd.submitted(), hd.drained());
                obs.push(("counter_rest_points_checked", 1));
                if s != ok_emits || d != entered as u64 || q != ok_emits - entered as u64 {
                    viol.push(V {
                        props: vec!["C15"],
                        rule: "R7",
                        class: if s != ok_emits { "submitted-wrong".into() } else if d != entered as u64 { "drained-wrong".into() } else { "queued-wrong".into() },
                        detail: format!("at rest after op #{} ({}): submitted={} drained={} queued={}, but {} emits returned Ok and {} metrics were handed to the wrapped sink", k, op.code(), s, d, q, ok_emits, entered),
                    });
                    aborted = true;
                    break 'ops;
                }
            }
        }
    }

    // ---- end of the scripted part: open all gates, everything accepted must be delivered ----
    if !aborted && inconclusive.is_none() && !stopped {
        sh.open_all();
        let total = accepted.len();
        let was_alive = alive!() > 0;
        match await_log(&sh, |st| st.n_exit >= total) {
            Ok(()) => {
                // wait for every thread that panicked to be gone so that panics() is exact
                let ptids: Vec<u32> = sh.log().iter().filter_map(|e| if let Ev::Exit { out: Out::Panic, tid, .. } = e { Some(*tid) } else { None }).collect();
                for t in ptids {
                    if let Err(st) = await_thread_gone(t) {
                        stuck!(st, "delivery");
                        break;
                    }
                }
            }
            Err(st) => {
                stuck!(st, "delivery");
            }
        }
        if !aborted && inconclusive.is_none() {
            let total_panics = sh.count(|e| matches!(e, Ev::Exit { out: Out::Panic, .. })) as u64;
            if was_alive {
                if let Some(hd) = handles.iter().flatten().next() {
                    // error handler calls lag the EXIT event slightly; wait for them before judging R8
                    if sc.handler {
                        let errs = sh.count(|e| matches!(e, Ev::Exit { out: Out::Err(_), .. }));
                        if let Err(st) = await_log(&sh, |st| st.log.iter().filter(|e| matches!(e, Ev::Handler { .. })).count() >= errs) {
                            stuck!(st, "handler");
                        }
                    }
                    let p = hd.panics();
                    obs.push(("panic_counts_checked", 1));
                    if p != total_panics {
                        viol.push(V { props: vec!["C11"], rule: "R6", class: "panic-count".into(), detail: format!("panics() = {} but the wrapped sink panicked {} times", p, total_panics) });
                    }
                    if sc.cap != Some(0) {
                        let (q, s, d) = (hd.queued(), hd.submitted(), hd.drained());
                        obs.push(("counter_rest_points_checked", 1));
                        if s != ok_emits || d != total as u64 || q != 0 {
                            viol.push(V { props: vec!["C15"], rule: "R7", class: "final-counters".into(), detail: format!("at rest at the end: submitted={} drained={} queued={}, but {} emits returned Ok and all were handed over", s, d, q, ok_emits) });
                        }
                    }
                }
            }
        }
        // ---- drop what is left: the worker must terminate and release the wrapped sink (C09) ----
        if !aborted && inconclusive.is_none() {
            let n = handles.len();
            for h in 0..n {
                if let Some(x) = handles[h].take() {
                    let last = handles.iter().all(|y| y.is_none());
                    if last {
                        queue_len_at_last_drop = Some(0);
                    }
                    sh.push(Ev::DropCall { h });
                    let r = in_call("drop", || ctx(sc), || panics::guard(move || drop(x)));
                    sh.push(Ev::DropRet { h });
                    if let Err(p) = r {
                        viol.push(V { props: vec!["C09"], rule: "R4", class: "drop-panicked".into(), detail: format!("dropping a handle unwound: {}", p) });
                    }
                }
            }
            if let Err(st) = await_log(&sh, |st| st.log.iter().any(|e| matches!(e, Ev::SinkDrop { .. }))).and_then(|_| await_no_library_thread()) {
                stuck!(st, "release");
            }
        }
    }
    let _ = (last_drop_while_gated, panic_tids, waits_seen);
    set_current(None);
    if aborted {
        // leave no handle behind; threads that are stuck for good become zombies excluded from later verdicts
        for h in handles.iter_mut() {
            if let Some(x) = h.take() {
                let _ = panics::guard(move || drop(x));
            }
        }
        sh.open_all();
        std::thread::sleep(std::time::Duration::from_millis(20));
        adopt_zombies();
    }

    // ---- offline rules over the log ----
    let log = sh.log();
    if inconclusive.is_none() {
        offline_rules(sc, &log, &accepted, &mut viol, aborted);
    }
    let nontrivial = sc.ops.iter().any(|o| !matches!(o, SOp::Emit { out: Out::Ok, .. })) || sc.cap.is_some();
    obs.push(("sink_calls_observed", log.iter().filter(|e| matches!(e, Ev::Enter { .. })).count() as u64));
    obs.push(("emits_accepted", accepted.len() as u64));
    obs.push(("emits_refused", log.iter().filter(|e| matches!(e, Ev::Ret { ok: Err(_), .. })).count() as u64));
    obs.push(("scripted_panics", log.iter().filter(|e| matches!(e, Ev::Exit { out: Out::Panic, .. })).count() as u64));
    obs.push(("scripted_errors", log.iter().filter(|e| matches!(e, Ev::Exit { out: Out::Err(_), .. })).count() as u64));
    obs.push(("handler_calls", log.iter().filter(|e| matches!(e, Ev::Handler { .. })).count() as u64));
    obs.push(("sink_drops_observed", log.iter().filter(|e| matches!(e, Ev::SinkDrop { .. })).count() as u64));
    if queue_len_at_last_drop.is_some() && queue_len_at_last_drop == sc.cap && sc.cap.map(|c| c > 0).unwrap_or(false) {
        obs.push(("last_drop_with_full_queue", 1));
    }
    if last_drop_while_gated {
        obs.push(("last_drop_while_sink_blocked", 1));
    }
    SeqOutcome { violations: viol, inconclusive, log, sig: format!("{}|h{}|{}", sc.capcode(), sc.handler as u8, sig), obs, nontrivial }
}

/// Rules that only need the recorded event log.
fn offline_rules(sc: &Scenario, log: &[Ev], accepted: &[String], viol: &mut Vec<V>, aborted: bool) {
    // R1/R2: ENTER sequence == acceptance sequence (prefix if aborted), nothing unknown, nothing twice
    let enters: Vec<&String> = log.iter().filter_map(|e| if let Ev::Enter { metric, .. } = e { Some(metric) } else { None }).collect();
    let any_panic = log.iter().any(|e| matches!(e, Ev::Exit { out: Out::Panic, .. }));
    let mut props_deliv: Vec<&'static str> = vec!["C08"];
    if any_panic {
        props_deliv.push("C11");
    }
    for (i, m) in enters.iter().enumerate() {
        if enters[..i].contains(m) {
            viol.push(V { props: props_deliv.clone(), rule: "R1", class: "delivered-twice".into(), detail: format!("{} was handed to the wrapped sink twice", m) });
            return;
        }
        if !accepted.contains(m) {
            viol.push(V { props: props_deliv.clone(), rule: "R1", class: "delivered-not-accepted".into(), detail: format!("{} was handed to the wrapped sink but no emit of it returned Ok", m) });
            return;
        }
    }
    let k = enters.len().min(accepted.len());
    for i in 0..k {
        if enters[i] != &accepted[i] {
            viol.push(V { props: props_deliv.clone(), rule: "R2", class: "out-of-order".into(), detail: format!("delivery #{} is {} but the {}th accepted metric is {}", i, enters[i], i, accepted[i]) });
            return;
        }
    }
    if !aborted && enters.len() != accepted.len() {
        viol.push(V { props: props_deliv.clone(), rule: "R1", class: "accepted-never-delivered".into(), detail: format!("{} accepted, {} delivered", accepted.len(), enters.len()) });
    }
    // R3: ENTER / EXIT strictly alternate
    let mut inside = false;
    for e in log {
        match e {
            Ev::Enter { metric, .. } => {
                if inside {
                    viol.push(V { props: props_deliv.clone(), rule: "R3", class: "overlapping-sink-calls".into(), detail: format!("{} entered the wrapped sink while another call was in progress", metric) });
                    return;
                }
                inside = true;
            }
            Ev::Exit { .. } => inside = false,
            _ => {}
        }
    }
    // C10: the wrapped sink never runs on a harness (caller) thread
    for e in log {
        if let Ev::Enter { tid, metric, on_harness_thread } = e {
            if *on_harness_thread {
                viol.push(V { props: vec!["C10"], rule: "R5", class: "sink-on-caller-thread".into(), detail: format!("the wrapped sink was invoked for {} on caller thread {}", metric, tid) });
                return;
            }
        }
    }
    // R8 (C16): each EXIT(err) is followed, before the next ENTER, by exactly one HANDLER with that error on the same thread
    let sinkside: Vec<&Ev> = log.iter().filter(|e| matches!(e, Ev::Enter { .. } | Ev::Exit { .. } | Ev::Handler { .. })).collect();
    let mut i = 0;
    while i < sinkside.len() {
        match sinkside[i] {
            Ev::Exit { metric, out: Out::Err(kidx), tid } if sc.handler => {
                let want_msg = expected_handler_msg(*kidx, metric);
                let want_kind = ERR_KINDS[*kidx as usize % ERR_KINDS.len()];
                match sinkside.get(i + 1) {
                    Some(Ev::Handler { msg, kind, tid: ht, on_harness_thread: h_on_harness }) => {
                        if msg != &want_msg || *kind != want_kind {
                            viol.push(V { props: vec!["C16"], rule: "R8", class: "handler-wrong-error".into(), detail: format!("handler got {:?}/{} for the failure of {}", kind, msg, metric) });
                            return;
                        }
                        if ht != tid {
                            viol.push(V { props: vec!["C16"], rule: "R8", class: "handler-wrong-thread".into(), detail: format!("handler ran on thread {} but the wrapped sink failed on thread {}", ht, tid) });
                            return;
                        }
                        if *h_on_harness {
                            viol.push(V { props: vec!["C16"], rule: "R8", class: "handler-on-caller-thread".into(), detail: format!("handler ran on caller thread {}", ht) });
                            return;
                        }
                        if let Some(Ev::Handler { .. }) = sinkside.get(i + 2) {
                            viol.push(V { props: vec!["C16"], rule: "R8", class: "handler-called-twice".into(), detail: format!("handler invoked twice for the failure of {}", metric) });
                            return;
                        }
                        i += 2;
                        continue;
                    }
                    other => {
                        if !aborted || other.is_some() {
                            viol.push(V { props: vec!["C16"], rule: "R8", class: "handler-not-called".into(), detail: format!("no handler call between the failure of {} and the next delivery", metric) });
                            return;
                        }
                    }
                }
            }
            Ev::Handler { msg, .. } => {
                // a handler call that does not directly follow an EXIT(err)
                viol.push(V { props: vec!["C16"], rule: "R8", class: if sc.handler { "handler-without-failure".into() } else { "handler-not-configured".into() }, detail: format!("handler invoked with {} without a preceding failure of the wrapped sink", msg) });
                return;
            }
            _ => {}
        }
        i += 1;
    }
}

fn log_json(log: &[Ev]) -> Json {
    Json::Arr(log.iter().take(400).map(|e| Json::Str(e.short())).collect())
}

struct Runner<'a> {
    /// Shared with the call-watchdog thread; never held locked across a library call.
    shared: Arc<Mutex<Report>>,
    prop: String,
    args: &'a Args,
    sid: u64,
}

impl<'a> Runner<'a> {
    fn rep(&self) -> std::sync::MutexGuard<'_, Report> {
        self.shared.lock().unwrap_or_else(|e| e.into_inner())
    }

    fn should_stop(&self) -> bool {
        let r = self.rep();
        r.violation_count >= 8 || r.inconclusive.len() >= 3 || SPIN_SEEN.load(std::sync::atomic::Ordering::SeqCst)
    }

    fn run(&mut self, sc: &Scenario, mode: &str) {
        self.sid += 1;
        let out = run_seq(sc, self.sid);
        let mut rep = self.rep();
        rep.eval();
        for (k, v) in &out.obs {
            rep.obs(k, *v);
        }
        if let Some(w) = &out.inconclusive {
            rep.inconclusive(format!("{} [capacity {} ops {}]", w, sc.capcode(), sc.code()));
        }
        for v in &out.violations {
            for p in &v.props {
                if *p == self.prop {
                    rep.violation(Violation {
                        property: p.to_string(),
                        rule: v.rule.to_string(),
                        class: v.class.clone(),
                        detail: format!("[{} capacity={} handler={} ops={}] {}", mode, sc.capcode(), sc.handler, sc.code(), v.detail),
                        replay_args: self.args.to_vec_with(&[("mode", "seq-one".into()), ("cap", sc.capcode()), ("ops", sc.code()), ("handler", (sc.handler as u8).to_string()), ("sid", self.sid.to_string())]),
                        trace: jobj! {"capacity" => sc.capcode(), "handler" => sc.handler, "ops" => sc.code(), "sid" => self.sid, "event_log" => log_json(&out.log)},
                    });
                } else {
                    rep.obs("other_property_rule_hits", 1);
                }
            }
        }
        if out.nontrivial {
            rep.distinct(&out.sig);
        } else {
            rep.trivial();
        }
        if rep.want_sample() {
            rep.sample(|| jobj! {"capacity" => sc.capcode(), "handler" => sc.handler, "ops" => sc.code(), "event_log" => log_json(&out.log[..out.log.len().min(30)])});
        }
    }
}

fn parse_cap(s: &str) -> Option<usize> {
    if s == "unbounded" {
        None
    } else {
        Some(s.parse().unwrap())
    }
}

fn mode_seq_enum(r: &mut Runner) {
    let maxlen = r.args.usize("maxlen", 4);
    let shard = r.args.u64("shard", 0);
    let shards = r.args.u64("shards", 1);
    let caps: Vec<Option<usize>> = r.args.str("caps", "unbounded,1,2,3").split(',').map(parse_cap).collect();
    let max_handles = r.args.usize("max-handles", 2);
    let mut counter = 0u64;
    for cap in caps {
        // DFS over op sequences
        let mut stack: Vec<(Sim, Vec<SOp>)> = vec![(Sim::new(cap), vec![])];
        while let Some((sim, ops)) = stack.pop() {
            if !ops.is_empty() {
                counter += 1;
                if counter % shards == shard {
                    // the error handler alternates so that both configurations are enumerated over the run
                    let sc = Scenario { cap, handler: counter / shards % 2 == 0, ops: ops.clone() };
                    r.run(&sc, "seq-enum");
                    if r.should_stop() {
                        r.rep().exhaustive = Some(false);
                        return;
                    }
                }
            }
            if ops.len() < maxlen {
                for op in sim.options(max_handles) {
                    let mut s2 = sim.clone();
                    s2.apply(&op);
                    let mut o2 = ops.clone();
                    o2.push(op);
                    stack.push((s2, o2));
                }
            }
        }
    }
    r.rep().obs("enumerated_histories", counter / shards.max(1));
    r.rep().exhaustive = Some(true);
    r.rep().note(format!(
        "sequential small scope: every valid sequence of length <= {} over {{emit(h, ok|err|panic), clone, drop(h), release}} with <= {} handles, capacities {}; the error handler is present in every other history",
        maxlen,
        max_handles,
        r.args.str("caps", "unbounded,1,2,3")
    ));
}

fn mode_seq_random(r: &mut Runner) {
    let seed = r.args.u64("seed", 1);
    let shard = r.args.u64("shard", 0);
    let cases = r.args.u64("cases", 100);
    let focus = r.args.str("focus", "mixed");
    for i in 0..cases {
        let mut rng = Rng::new(mix(&[seed, 0x5E9, shard, i]));
        let cap = match rng.below(8) {
            0 | 1 => None,
            2 => Some(0),
            3 => Some(1),
            4 => Some(2),
            5 => Some(3),
            _ => Some(rng.range(4, 8) as usize),
        };
        let len = rng.range(4, 40) as usize;
        let mut sim = Sim::new(cap);
        sim.flushes = true;
        let mut ops = Vec::new();
        let mut blanks_used: u8 = 0;
        let p_panic = if focus == "panic" { 40 } else { 12 };
        let p_err = if focus == "error" { 50 } else { 15 };
        for _ in 0..len {
            let opts = sim.options(6);
            if opts.is_empty() {
                break;
            }
            // weighted choice: emits dominate, releases keep the queue moving
            let op = loop {
                let o = rng.pick(&opts).clone();
                let keep = match &o {
                    SOp::Emit { out: Out::Panic, .. } => rng.below(100) < p_panic * 3,
                    SOp::Emit { out: Out::Err(_), .. } => rng.below(100) < p_err * 3,
                    SOp::Emit { .. } => true,
                    SOp::Clone { .. } => rng.chance(1, 3),
                    SOp::Drop { .. } => rng.chance(1, 4),
                    SOp::Flush { .. } => rng.chance(1, 3),
                    SOp::Release => true,
                };
                if keep {
                    break match o {
                        SOp::Emit { h, out: Out::Err(_) } => SOp::Emit { h, out: Out::Err(rng.below(10) as u8) },
                        // blank strings are legal through MetricSink::emit; each at most once per history (identity)
                        SOp::Emit { h, out: Out::Ok } if rng.chance(1, 8) && blanks_used < 8 => {
                            blanks_used += 1;
                            SOp::Emit { h, out: Out::Blank(blanks_used - 1) }
                        }
                        o => o,
                    };
                }
            };
            sim.apply(&op);
            ops.push(op);
        }
        let sc = Scenario { cap, handler: rng.chance(2, 3), ops };
        r.run(&sc, "seq-random");
        if r.should_stop() {
            return;
        }
    }
}

/// C09 focus: for every capacity and every occupancy 0..=capacity, fill the queue behind a blocked sink, drop the last
/// handle while the gate is still closed, then let the remaining metrics finish with every ok/err/panic pattern.
fn mode_drop_matrix(r: &mut Runner) {
    let shard = r.args.u64("shard", 0);
    let shards = r.args.u64("shards", 1);
    let maxpat = r.args.usize("maxpat", 3);
    let caps: Vec<Option<usize>> = r.args.str("caps", "unbounded,0,1,2,3,8").split(',').map(parse_cap).collect();
    let outs = [Out::Ok, Out::Err(1), Out::Panic];
    let mut counter = 0u64;
    for cap in caps {
        let max_occ = match cap {
            None => 4,
            Some(c) => c,
        };
        for occ in 0..=max_occ {
            // first metric occupies the worker (inside the gate) unless occ == 0 and we test the idle drop too
            for busy in [true, false] {
                if !busy && occ > 0 {
                    continue;
                }
                let n = occ + if busy { 1 } else { 0 };
                let np = n.min(maxpat);
                let total = 3usize.pow(np as u32);
                for code in 0..total {
                    counter += 1;
                    if counter % shards != shard {
                        continue;
                    }
                    let mut c = code;
                    let mut ops = Vec::new();
                    for k in 0..n {
                        let out = if k < np {
                            let o = outs[c % 3].clone();
                            c /= 3;
                            o
                        } else {
                            Out::Ok
                        };
                        ops.push(SOp::Emit { h: 0, out });
                    }
                    // with clones: drop a clone first (must not stop anything), then the last handle
                    let with_clone = code % 2 == 1;
                    if with_clone {
                        ops.insert(0, SOp::Clone { h: 0 });
                        ops.push(SOp::Drop { h: 1 });
                    }
                    ops.push(SOp::Drop { h: 0 });
                    // sometimes release one by one (gate closed at drop), the rest is opened at the end
                    if code % 3 == 0 {
                        for _ in 0..n {
                            ops.push(SOp::Release);
                        }
                    }
                    // every 5th history carries a blank metric (legal through MetricSink::emit) at the front
                    if code % 5 == 4 {
                        let pos = if with_clone { 1 } else { 0 };
                        ops.insert(pos, SOp::Emit { h: 0, out: Out::Blank((code % 8) as u8) });
                    }
                    let sc = Scenario { cap, handler: code % 2 == 0, ops };
                    r.run(&sc, "drop-matrix");
                    if r.should_stop() {
                        r.rep().exhaustive = Some(false);
                        return;
                    }
                }
            }
        }
    }
    r.rep().exhaustive = Some(true);
    r.rep().note(format!("drop matrix: capacities {} x every occupancy 0..=capacity (unbounded: 0..=4) at the last drop x worker busy/idle x every ok/err/panic pattern of the first {} remaining metrics, with and without a clone dropped first", r.args.str("caps", "unbounded,0,1,2,3,8"), maxpat));
}

/// Fault enumeration for C11 / C16: all assignments of outcomes to n queued metrics.
/// A queuing sink built, used and dropped by a destructor that runs while its thread unwinds from an unrelated panic
/// (an application's scope guard reporting "aborted" metrics): it works like any other, and its panic count speaks of the
/// wrapped sink's panics only - there were none.
fn built_while_unwinding(r: &mut Runner) {
    struct Guard {
        sh: Arc<Shared>,
        out: Arc<Mutex<Option<(u64, u64, u64, usize)>>>,
        cap: Option<usize>,
    }
    impl Drop for Guard {
        fn drop(&mut self) {
            let q = match self.cap {
                Some(c) => QueuingMetricSink::with_capacity(GatedSink { sh: self.sh.clone() }, c),
                None => QueuingMetricSink::from(GatedSink { sh: self.sh.clone() }),
            };
            let mut ok = 0usize;
            for k in 0..3 {
                if q.emit(&format!("unwinding.n{}|ok", k)).is_ok() {
                    ok += 1;
                }
            }
            let _ = await_log(&self.sh, |st| st.n_exit >= ok);
            *self.out.lock().unwrap() = Some((q.panics(), q.submitted(), q.drained(), ok));
        }
    }
    for cap in [None, Some(8usize)] {
        let sh = Shared::new(false);
        set_current(Some(sh.clone()));
        let out = Arc::new(Mutex::new(None));
        let (sh2, out2) = (sh.clone(), out.clone());
        let _ = std::thread::spawn(move || {
            let _reg = procmon::Registration::new();
            let _g = Guard { sh: sh2, out: out2, cap };
            panic!("scripted-panic: unwinding with a guard that reports through a queuing sink");
        })
        .join();
        let got = *out.lock().unwrap();
        let _ = await_log(&sh, |st| st.log.iter().any(|e| matches!(e, Ev::SinkDrop { .. })));
        let _ = await_no_library_thread();
        set_current(None);
        let mut rep = r.rep();
        rep.eval();
        rep.obs("queuing_sinks_built_and_used_by_a_destructor_during_unwinding", 1);
        rep.distinct(&format!("built-while-unwinding|{:?}", cap));
        match got {
            Some((p, s, d, ok)) => {
                if r.prop == "C11" && p != 0 {
                    rep.violation(Violation { property: "C11".into(), rule: "R6".into(), class: "panic-count".into(), detail: format!("[queuing sink built while its thread was unwinding, capacity {:?}] panics() = {} but the wrapped sink never panicked ({} metrics accepted and handed over)", cap, p, ok), replay_args: r.args.to_vec_with(&[]), trace: Json::Null });
                }
                if r.prop == "C15" && (s != ok as u64 || d != ok as u64) {
                    rep.violation(Violation { property: "C15".into(), rule: "R7".into(), class: "submitted-wrong".into(), detail: format!("[queuing sink built while its thread was unwinding] submitted={} drained={} but {} emits returned Ok and were handed over", s, d, ok), replay_args: r.args.to_vec_with(&[]), trace: Json::Null });
                }
            }
            None => rep.inconclusive("built-while-unwinding: the guard's destructor did not finish"),
        }
    }
}

fn mode_outcomes(r: &mut Runner) {
    let shard = r.args.u64("shard", 0);
    let shards = r.args.u64("shards", 1);
    if shard == 0 {
        built_while_unwinding(r);
    }
    let n_max = r.args.usize("n", 5);
    let alphabet: Vec<Out> = match r.args.str("alphabet", "oep").as_str() {
        "oe" => vec![Out::Ok, Out::Err(2), Out::Err(3)],
        _ => vec![Out::Ok, Out::Err(2), Out::Panic],
    };
    let a = alphabet.len();
    let mut counter = 0u64;
    for n in 1..=n_max {
        for code in 0..a.pow(n as u32) {
            counter += 1;
            if counter % shards != shard {
                continue;
            }
            let mut c = code;
            let mut ops = Vec::new();
            for _ in 0..n {
                ops.push(SOp::Emit { h: 0, out: alphabet[c % a].clone() });
                c /= a;
            }
            // variants: all queued first then released; or emit-after-each-release (accepted after a panic)
            let variant = counter / shards % 3;
            let ops = match variant {
                0 => ops, // gates opened at the end: everything queued before any outcome happens
                1 => {
                    let mut v = Vec::new();
                    for o in ops {
                        v.push(o);
                        v.push(SOp::Release);
                    }
                    v
                }
                _ => {
                    // queue all, release all one by one, then one more accepted afterwards
                    let mut v = ops.clone();
                    for _ in 0..n {
                        v.push(SOp::Release);
                    }
                    v.push(SOp::Emit { h: 0, out: Out::Ok });
                    v
                }
            };
            let sc = Scenario { cap: if code % 4 == 3 { Some(n + 1) } else { None }, handler: code % 5 != 4, ops };
            r.run(&sc, "outcomes");
            if r.should_stop() {
                r.rep().exhaustive = Some(false);
                return;
            }
        }
    }
    if shard == 0 || shards == 1 {
        mode_panic_storm(r);
    }
    r.rep().exhaustive = Some(true);
    r.rep().note(format!("every assignment of {{{}}} to n <= {} metrics, in three arrangements (all queued before any outcome; one at a time; queued, released one by one, then a further metric accepted)", r.args.str("alphabet", "oep"), n_max));
}

static HOOKS: std::sync::atomic::AtomicBool = std::sync::atomic::AtomicBool::new(false);

/// Panic storms: long runs of consecutive panics with no successfully handled metric in between, released one by one
/// (so that each panic happens before the next emit), then normal traffic: the sink must keep accepting and delivering.
fn mode_panic_storm(r: &mut Runner) {
    // (limits like "give up after N restarts" sit at round numbers: 128, 256, 1024, 4096 are all crossed)
    let mut sizes = vec![(140usize, None, 1usize), (300, None, 20), (200, Some(512usize), 7), (135, Some(4), 1), (1100, None, 64), (1040, Some(64usize), 32)];
    if r.args.flag("big") {
        sizes.extend([(4200, None, 128), (9000, Some(1024), 256), (20000, None, 1024)]);
    }
    for (n_panics, cap, batch) in sizes {
        let mut ops: Vec<SOp> = Vec::new();
        let mut queued = 0;
        for i in 0..n_panics {
            ops.push(SOp::Emit { h: 0, out: Out::Panic });
            queued += 1;
            if queued == batch || i + 1 == n_panics {
                for _ in 0..queued {
                    ops.push(SOp::Release);
                }
                queued = 0;
            }
        }
        ops.push(SOp::Emit { h: 0, out: Out::Ok });
        ops.push(SOp::Release);
        ops.push(SOp::Emit { h: 0, out: Out::Err(2) });
        ops.push(SOp::Emit { h: 0, out: Out::Ok });
        let sc = Scenario { cap, handler: true, ops };
        r.run(&sc, "panic-storm");
        r.rep().obs("panic_storm_histories", 1);
    }
    // the same with failures instead of panics: every one of thousands of errors reaches the handler ("report the first N,
    // then sample" limits sit at round numbers too)
    let mut esizes = vec![(1100usize, None, 64usize), (2100, Some(64usize), 32)];
    if r.args.flag("big") {
        esizes.extend([(4200, None, 128), (9000, Some(1024), 256)]);
    }
    for (n_errs, cap, batch) in esizes {
        if SPIN_SEEN.load(std::sync::atomic::Ordering::SeqCst) {
            return;
        }
        let mut ops: Vec<SOp> = Vec::new();
        let mut queued = 0;
        for i in 0..n_errs {
            ops.push(SOp::Emit { h: 0, out: Out::Err((i % 10) as u8) });
            queued += 1;
            if queued == batch || i + 1 == n_errs {
                for _ in 0..queued {
                    ops.push(SOp::Release);
                }
                queued = 0;
            }
        }
        ops.push(SOp::Emit { h: 0, out: Out::Ok });
        ops.push(SOp::Release);
        let sc = Scenario { cap, handler: true, ops };
        r.run(&sc, "error-storm");
        r.rep().obs("error_storm_histories", 1);
    }
}


/// A caller is a caller: to a queuing sink the thread that calls `emit` may itself be the background thread of another
/// queuing sink - (a) one queue feeding a second queue, (b) an error handler that reports failures through a second
/// queuing sink. The inner queue's answers depend on its own room only (C10: an unbounded / far-from-full queue accepts),
/// and what it accepted reaches its wrapped sink once and in order (C08).
fn mode_compose(r: &mut Runner) {
    use std::sync::Mutex as M;
    struct Relay {
        inner: QueuingMetricSink,
        results: Arc<M<Vec<(String, Result<usize, String>)>>>,
    }
    impl cadence::MetricSink for Relay {
        fn emit(&self, m: &str) -> std::io::Result<usize> {
            let res = self.inner.emit(m);
            self.results.lock().unwrap_or_else(|e| e.into_inner()).push((m.to_string(), res.as_ref().map(|n| *n).map_err(|e| e.to_string())));
            res
        }
    }
    struct AlwaysFails;
    impl cadence::MetricSink for AlwaysFails {
        fn emit(&self, m: &str) -> std::io::Result<usize> {
            Err(std::io::Error::new(std::io::ErrorKind::ConnectionRefused, m.to_string()))
        }
    }
    // a wrapped sink (and an error handler) that needs a fair amount of stack - well within what any thread gets by
    // default (100 KiB of a 2 MiB stack): "all wrapped-sink behaviours" includes this one; it runs on the queue's thread
    if r.prop == "C08" || r.prop == "C10" {
        struct StackHungry {
            inner: GatedSink,
        }
        #[inline(never)]
        fn burn(depth: usize, seed: u8) -> u64 {
            let mut pad = [seed; 10 * 1024];
            std::hint::black_box(&mut pad);
            let below = if depth > 0 { burn(depth - 1, seed.wrapping_add(1)) } else { 0 };
            below + pad[pad.len() / 2] as u64 + std::hint::black_box(&pad)[0] as u64
        }
        impl cadence::MetricSink for StackHungry {
            fn emit(&self, m: &str) -> std::io::Result<usize> {
                std::hint::black_box(burn(9, m.len() as u8));
                self.inner.emit(m)
            }
        }
        let sh = Shared::new(false);
        set_current(Some(sh.clone()));
        let hits = Arc::new(std::sync::atomic::AtomicU64::new(0));
        let h2 = std::panic::AssertUnwindSafe(hits.clone());
        let q = QueuingMetricSink::builder()
            .with_error_handler(move |_e: std::io::Error| {
                h2.fetch_add(burn(9, 3) % 2 + 1, std::sync::atomic::Ordering::SeqCst);
            })
            .build(StackHungry { inner: GatedSink { sh: sh.clone() } });
        let n = 24usize;
        for k in 0..n {
            let _ = q.emit(&metric_text(&format!("stack{}.n{}", r.sid, k), &if k % 5 == 0 { Out::Err(0) } else { Out::Ok }, 0));
        }
        let waited = await_log(&sh, |st| st.n_exit >= n);
        {
            let mut rep = r.rep();
            rep.eval();
            rep.obs("metrics_through_a_wrapped_sink_that_uses_100_KiB_of_stack", n as u64);
            rep.distinct("compose|stack-hungry");
            if let Err(st) = waited {
                if st.is_verdict() && (r.prop == "C08" || r.prop == "C10") {
                    let p = r.prop.clone();
                    rep.violation(Violation { property: p, rule: "R1".into(), class: "accepted-never-delivered".into(), detail: format!("[compose stack-hungry wrapped sink] {}", st.describe()), replay_args: r.args.to_vec_with(&[]), trace: Json::Null });
                }
            }
        }
        drop(q);
        let _ = await_log(&sh, |st| st.log.iter().any(|e| matches!(e, Ev::SinkDrop { .. })));
        let _ = await_no_library_thread();
        set_current(None);
    }
    // `Clone::clone_from`: a handle re-pointed at another queue is a handle of that queue and no longer one of the old -
    // the old queue goes on while it has handles left and stops when it has none, the new one gained a handle
    if r.prop == "C08" || r.prop == "C09" {
        for drop_target_first in [false, true] {
            let (sh_a, sh_b) = (Shared::new(false), Shared::new(false));
            set_current(None);
            let a = QueuingMetricSink::from(GatedSink { sh: sh_a.clone() });
            let mut b = Some(QueuingMetricSink::with_capacity(GatedSink { sh: sh_b.clone() }, 8));
            let mut a2 = a.clone();
            a2.clone_from(b.as_ref().unwrap()); // a2 now belongs to queue B; queue A has one handle (a), queue B two (b, a2)
            let mut expect_a: Vec<String> = Vec::new();
            let mut expect_b: Vec<String> = Vec::new();
            let m = |q: &str, k: usize| metric_text(&format!("cf{}.{}.n{}", r.sid, q, k), &Out::Ok, 0);
            if drop_target_first {
                drop(b.take());
            } else {
                drop(a2.clone());
            }
            // nothing must happen now; give a wrongly triggered stop the time to take effect
            settle();
            std::thread::sleep(std::time::Duration::from_millis(20));
            for k in 0..3 {
                if a.emit(&m("a", k)).is_ok() {
                    expect_a.push(m("a", k));
                }
                if a2.emit(&m("b", k)).is_ok() {
                    expect_b.push(m("b", k));
                }
            }
            let wa = await_log(&sh_a, |st| st.n_exit >= expect_a.len());
            let wb = await_log(&sh_b, |st| st.n_exit >= expect_b.len());
            let got = |sh: &Arc<Shared>| -> Vec<String> { sh.st.lock().unwrap_or_else(|e| e.into_inner()).log.iter().filter_map(|e| if let Ev::Enter { metric, .. } = e { Some(metric.clone()) } else { None }).collect() };
            let (ga, gb) = (got(&sh_a), got(&sh_b));
            // last handles go: both wrapped sinks are released
            drop(a);
            drop(a2);
            drop(b.take());
            let ra = await_log(&sh_a, |st| st.log.iter().any(|e| matches!(e, Ev::SinkDrop { .. })));
            let rb = await_log(&sh_b, |st| st.log.iter().any(|e| matches!(e, Ev::SinkDrop { .. })));
            let _ = await_no_library_thread();
            let mut rep = r.rep();
            rep.eval();
            rep.obs("handles_re_pointed_with_clone_from", 1);
            rep.distinct(&format!("compose|clone_from|{}", drop_target_first));
            let mut inc = None;
            let mut report = |props: &[&str], class: &str, detail: String| {
                for p in props {
                    if *p == r.prop {
                        rep.violation(Violation { property: p.to_string(), rule: if class.starts_with("worker") { "R4".into() } else { "R1".into() }, class: class.into(), detail: format!("[compose clone_from, {}] {}", if drop_target_first { "the source handle dropped first" } else { "a clone of the re-pointed handle dropped first" }, detail), replay_args: r.args.to_vec_with(&[]), trace: Json::Null });
                    }
                }
            };
            for (w, g, e, name) in [(&wa, &ga, &expect_a, "A"), (&wb, &gb, &expect_b, "B")] {
                match w {
                    Err(st) if st.is_verdict() => report(&["C08"], "accepted-never-delivered", format!("queue {}: accepted {:?}, delivered {:?}: {}", name, e, g, st.describe())),
                    Err(_) => inc = Some(format!("clone_from: watchdog on queue {}", name)),
                    Ok(()) => {
                        if g != e {
                            report(&["C08"], "accepted-never-delivered", format!("queue {}: accepted {:?}, delivered {:?}", name, e, g));
                        }
                    }
                }
            }
            for (w, name) in [(&ra, "A"), (&rb, "B")] {
                match w {
                    Err(st) if st.is_verdict() => report(&["C09"], "worker-or-sink-not-released", format!("queue {}: every handle is gone, the wrapped sink was not released: {}", name, st.describe())),
                    Err(_) => inc = Some(format!("clone_from: watchdog waiting for the release of queue {}", name)),
                    Ok(()) => {}
                }
            }
            if let Some(i) = inc {
                rep.inconclusive(i);
            }
        }
    }
    // a queuing sink that is dropped without ever having been given a metric, around a wrapped sink whose destructor
    // panics or blocks: releasing the wrapped sink is the background thread's business - the caller's drop returns at
    // once and does not unwind, used queue or not
    // (third element: the dropping thread is held right after it has signalled the stop request - schedule point
    // queuing.stop.signalled - until the queue's thread has finished and gone; only then does it go on to release
    // whatever the handle still holds. A window of a few instructions in real life, forced here.)
    let forced_ok = HOOKS.load(std::sync::atomic::Ordering::Relaxed);
    for (variant, never_used, forced) in [(0u8, true, false), (1, true, false), (0, false, false), (1, false, false), (0, false, true), (0, true, true)] {
        if forced && !forced_ok {
            continue;
        }
        // (a block of this mode runs only for the properties it reports for: a change that breaks a sibling property must
        // not keep this run from reaching its own blocks)
        if SPIN_SEEN.load(std::sync::atomic::Ordering::SeqCst) || r.prop != "C09" {
            break;
        }
        struct NastyDrop {
            inner: GatedSink,
            blocks: bool,
            release: Arc<(Mutex<bool>, std::sync::Condvar)>,
            on_harness_thread: Arc<std::sync::atomic::AtomicBool>,
            dropped: Arc<std::sync::atomic::AtomicBool>,
        }
        impl cadence::MetricSink for NastyDrop {
            fn emit(&self, m: &str) -> std::io::Result<usize> {
                self.inner.emit(m)
            }
        }
        impl Drop for NastyDrop {
            fn drop(&mut self) {
                if procmon::is_harness_tid(procmon::gettid()) {
                    self.on_harness_thread.store(true, std::sync::atomic::Ordering::SeqCst);
                }
                self.dropped.store(true, std::sync::atomic::Ordering::SeqCst);
                if self.blocks {
                    let (m, cv) = &*self.release;
                    let mut g = m.lock().unwrap_or_else(|e| e.into_inner());
                    while !*g {
                        g = cv.wait(g).unwrap_or_else(|e| e.into_inner());
                    }
                } else {
                    panic!("scripted-panic: the wrapped sink's destructor");
                }
            }
        }
        let sh = Shared::new(false);
        set_current(Some(sh.clone()));
        let release = Arc::new((Mutex::new(false), std::sync::Condvar::new()));
        let on_harness = Arc::new(std::sync::atomic::AtomicBool::new(false));
        let dropped = Arc::new(std::sync::atomic::AtomicBool::new(false));
        let q = QueuingMetricSink::from(NastyDrop { inner: GatedSink { sh: sh.clone() }, blocks: variant == 1, release: release.clone(), on_harness_thread: on_harness.clone(), dropped: dropped.clone() });
        if !never_used {
            let _ = q.emit(&metric_text(&format!("nasty{}", r.sid), &Out::Ok, 0));
            let _ = await_log(&sh, |st| st.log.iter().any(|e| matches!(e, Ev::Exit { .. })));
        }
        let ctx = jobj! {"capacity" => "unbounded", "ops" => format!("drop of a {} queuing sink whose wrapped sink's destructor {}", if never_used { "never used" } else { "used" }, if variant == 1 { "blocks" } else { "panics" })};
        let dr = if forced {
            arm("queuing.stop.signalled");
            let t = std::thread::spawn(move || {
                let _reg = procmon::Registration::new();
                panics::guard(move || drop(q))
            });
            let reached = await_parked("queuing.stop.signalled", std::time::Duration::from_secs(20));
            if reached {
                // the queue's thread sees the request, finishes and goes away (or the destructor has run there)
                let t0 = std::time::Instant::now();
                while !dropped.load(std::sync::atomic::Ordering::SeqCst) && !procmon::library_tids().is_empty() && t0.elapsed().as_secs() < 20 {
                    std::thread::sleep(std::time::Duration::from_millis(1));
                }
                std::thread::sleep(std::time::Duration::from_millis(5));
                r.rep().obs("last_drops_held_after_the_stop_signal_until_the_queue_thread_was_gone", 1);
            }
            cvh::qmon::release("queuing.stop.signalled");
            disarm_all();
            t.join().unwrap_or_else(|_| Err("the dropping thread died".into()))
        } else {
            in_call("drop", || ctx.clone(), || panics::guard(move || drop(q)))
        };
        // give the background thread the time to get to the destructor
        let t0 = std::time::Instant::now();
        while !dropped.load(std::sync::atomic::Ordering::SeqCst) && t0.elapsed().as_secs() < 20 {
            std::thread::sleep(std::time::Duration::from_millis(2));
        }
        {
            let mut rep = r.rep();
            rep.eval();
            rep.obs("drops_of_queuing_sinks_whose_wrapped_sink_has_a_hostile_destructor", 1);
            rep.distinct(&format!("compose|nasty-drop|{}|{}|{}", variant, never_used, forced));
            if r.prop == "C09" {
                if let Err(p) = &dr {
                    rep.violation(Violation { property: "C09".into(), rule: "R4".into(), class: "drop-panicked".into(), detail: format!("[{}] drop unwound into the caller: {}", ctx.to_string(), p), replay_args: r.args.to_vec_with(&[]), trace: Json::Null });
                } else if on_harness.load(std::sync::atomic::Ordering::SeqCst) {
                    rep.violation(Violation { property: "C09".into(), rule: "R4".into(), class: "sink-released-on-caller-thread".into(), detail: format!("[{}] the wrapped sink's destructor ran on the thread that dropped the handle (whatever it does there - wait, panic - happens to the caller)", ctx.to_string()), replay_args: r.args.to_vec_with(&[]), trace: Json::Null });
                } else if !dropped.load(std::sync::atomic::Ordering::SeqCst) {
                    rep.violation(Violation { property: "C09".into(), rule: "R4".into(), class: "worker-or-sink-not-released".into(), detail: format!("[{}] 20 s after the last drop the wrapped sink has not been dropped", ctx.to_string()), replay_args: r.args.to_vec_with(&[]), trace: Json::Null });
                }
            }
        }
        {
            let (m, cv) = &*release;
            *m.lock().unwrap() = true;
            cv.notify_all();
        }
        let _ = await_no_library_thread();
        set_current(None);
    }
    // the queue's own thread as a caller of the SAME queue: the wrapped sink (or the error handler) emits follow-up
    // metrics through a clone of the queue it sits behind, more of them than the small bounded queue has room for. They
    // are answered by queue room like anybody's (the last one is refused), never run inline, and what was accepted is
    // handed over afterwards, in acceptance order, one at a time.
    for via_handler in [false, true] {
        if SPIN_SEEN.load(std::sync::atomic::Ordering::SeqCst) || !(r.prop == "C08" || r.prop == "C10") {
            break;
        }
        struct SelfFeeding {
            inner: GatedSink,
            slot: Arc<M<Option<QueuingMetricSink>>>,
            accepted: Arc<M<Vec<String>>>,
            via_handler: bool,
        }
        fn feed(slot: &Arc<M<Option<QueuingMetricSink>>>, accepted: &Arc<M<Vec<String>>>, of: &str) {
            let q = slot.lock().unwrap_or_else(|e| e.into_inner()).clone();
            if let Some(q) = q {
                for k in 0..4 {
                    let x = format!("{}.follow{}|ok", of.trim_end_matches("|ok").trim_end_matches("|err0"), k);
                    if q.emit(&x).is_ok() {
                        accepted.lock().unwrap_or_else(|e| e.into_inner()).push(x);
                    }
                }
            }
        }
        impl cadence::MetricSink for SelfFeeding {
            fn emit(&self, m: &str) -> std::io::Result<usize> {
                if !self.via_handler && m.contains("feed") && !m.contains("follow") {
                    feed(&self.slot, &self.accepted, m);
                }
                self.inner.emit(m)
            }
        }
        let sh = Shared::new(false);
        set_current(Some(sh.clone()));
        let slot: Arc<M<Option<QueuingMetricSink>>> = Arc::new(M::new(None));
        let accepted: Arc<M<Vec<String>>> = Arc::new(M::new(Vec::new()));
        let (slot2, acc2) = (std::panic::AssertUnwindSafe(slot.clone()), std::panic::AssertUnwindSafe(accepted.clone()));
        let q = QueuingMetricSink::builder()
            .with_capacity(2)
            .with_error_handler(move |e: std::io::Error| {
                if via_handler {
                    let m = e.to_string();
                    if !m.contains("follow") {
                        feed(&slot2, &acc2, "feed.from.handler|ok");
                    }
                }
            })
            .build(SelfFeeding { inner: GatedSink { sh: sh.clone() }, slot: slot.clone(), accepted: accepted.clone(), via_handler });
        *slot.lock().unwrap() = Some(q.clone());
        let first = if via_handler { format!("feed{}.n0|err0", r.sid) } else { format!("feed{}.n0|ok", r.sid) };
        let ok = q.emit(&first).is_ok();
        if ok {
            accepted.lock().unwrap().insert(0, first.clone());
        }
        // come to rest: everything accepted (the first metric and the follow-ups that found room) handed over
        let waited = await_log(&sh, |st| {
            let n = accepted.lock().unwrap_or_else(|e| e.into_inner()).len();
            n >= 2 && st.n_exit >= n
        });
        std::thread::sleep(std::time::Duration::from_millis(5));
        let acc: Vec<String> = accepted.lock().unwrap().clone();
        let delivered: Vec<String> = sh.st.lock().unwrap_or_else(|e| e.into_inner()).log.iter().filter_map(|e| if let Ev::Enter { metric, .. } = e { Some(metric.clone()) } else { None }).collect();
        let label = format!("compose self-feeding queue (capacity 2), follow-ups emitted by {}", if via_handler { "the error handler" } else { "the wrapped sink" });
        {
            let mut rep = r.rep();
            rep.eval();
            rep.obs("emits_made_on_the_queues_own_thread_into_the_same_queue", 4);
            rep.distinct(&format!("compose|self|{}", via_handler));
            let mut inconc = None;
            let mut report = |props: &[&str], rule: &str, class: &str, detail: String| {
                for p in props {
                    if *p == r.prop {
                        rep.violation(Violation { property: p.to_string(), rule: rule.into(), class: class.into(), detail: format!("[{}] {}", label, detail), replay_args: r.args.to_vec_with(&[]), trace: Json::Null });
                    }
                }
            };
            if acc.len() > 1 + 3 {
                // (one taken by the thread + at most capacity 2 ... the thread holds the first: 2 follow-ups fit, a third
                // may fit if the first was already counted out; 4 of 4 never)
                report(&["C10"], "R5", "capacity-exceeded", format!("{} follow-up metrics were accepted by a queue of capacity 2 whose thread was busy with the metric that caused them", acc.len() - 1));
            }
            match waited {
                Err(st) if st.is_verdict() => report(&["C08"], "R1", "accepted-never-delivered", format!("accepted {:?}, delivered {:?}: {}", acc, delivered, st.describe())),
                Err(_) => inconc = Some(format!("{}: watchdog", label)),
                Ok(()) => {
                    if delivered != acc {
                        report(&["C08"], "R2", "out-of-order", format!("accepted in this order {:?}, handed to the wrapped sink in this order {:?}", acc, delivered));
                    }
                }
            }
            if let Some(i) = inconc {
                rep.inconclusive(i);
            }
        }
        *slot.lock().unwrap() = None;
        drop(q);
        let _ = await_log(&sh, |st| st.log.iter().any(|e| matches!(e, Ev::SinkDrop { .. })));
        let _ = await_no_library_thread();
        set_current(None);
    }
    // a queuing sink wrapped DIRECTLY in a queuing sink (the wrapped sink's type is the library's own): the inner queue
    // is small and its wrapped sink blocked, so it refuses most metrics - to the outer queue that is a failing wrapped
    // sink like any other: its own emit keeps answering Ok (unbounded), and its handler hears of every refusal, once, on
    // the outer queue's thread. In the second variant the handler also calls flush() on a clone of its own queue (a
    // handler may use the sink it belongs to; the flush must come back).
    for flushing_handler in [false, true] {
        if SPIN_SEEN.load(std::sync::atomic::Ordering::SeqCst) || !(r.prop == "C16" || r.prop == "C10" || r.prop == "C08") {
            break;
        }
        let sh = Shared::new(true);
        set_current(Some(sh.clone()));
        let inner = QueuingMetricSink::with_capacity(GatedSink { sh: sh.clone() }, 2);
        let seen: Arc<M<Vec<(String, u32, bool)>>> = Arc::new(M::new(Vec::new()));
        let slot: Arc<M<Option<QueuingMetricSink>>> = Arc::new(M::new(None));
        let (seen2, slot2) = (std::panic::AssertUnwindSafe(seen.clone()), std::panic::AssertUnwindSafe(slot.clone()));
        let outer = QueuingMetricSink::builder()
            .with_error_handler(move |e: std::io::Error| {
                let tid = procmon::gettid();
                if flushing_handler {
                    let q = slot2.lock().unwrap_or_else(|e| e.into_inner()).clone();
                    if let Some(q) = q {
                        let _ = q.flush();
                    }
                }
                seen2.lock().unwrap_or_else(|e| e.into_inner()).push((e.to_string(), tid, procmon::is_harness_tid(tid)));
            })
            .build(inner.clone());
        *slot.lock().unwrap() = Some(outer.clone());
        let n = 30usize;
        let mut outer_refused = 0usize;
        for k in 0..n {
            if panics::guard(|| outer.emit(&metric_text(&format!("nest{}.n{}", r.sid, k), &Out::Ok, 0))).map(|x| x.is_err()).unwrap_or(true) {
                outer_refused += 1;
            }
        }
        // the inner queue takes 2 or 3 (its capacity, plus the one its thread holds in the closed gate if it got there in
        // time) and refuses the others: at rest, handler calls + metrics the inner queue accepted = n
        let t0 = std::time::Instant::now();
        let mut spin_verdict: Option<String> = None;
        let mut cpu0: std::collections::BTreeMap<u32, u64> = std::collections::BTreeMap::new();
        let mut calls_at_base = 0usize;
        while seen.lock().unwrap_or_else(|e| e.into_inner()).len() + (inner.submitted() as usize) < n && outer_refused == 0 {
            std::thread::sleep(std::time::Duration::from_millis(5));
            // a library thread that burns 3 s of CPU time without a single new handler call spins
            let now_calls = seen.lock().unwrap_or_else(|e| e.into_inner()).len();
            if now_calls != calls_at_base {
                calls_at_base = now_calls;
                cpu0.clear();
            }
            for t in live_library_tids() {
                if let Some(c) = procmon::task_cpu_ticks(t) {
                    let base = *cpu0.entry(t).or_insert(c);
                    if c.saturating_sub(base) >= 300 {
                        spin_verdict = Some(format!("library thread {} consumed {} ms of CPU time without another handler call", t, (c - base) * 10));
                        SPIN_SEEN.store(true, std::sync::atomic::Ordering::SeqCst);
                    }
                }
            }
            if spin_verdict.is_some() || t0.elapsed().as_secs() > 100 {
                break;
            }
        }
        // (give a surplus call the time to show up)
        std::thread::sleep(std::time::Duration::from_millis(20));
        let calls = seen.lock().unwrap_or_else(|e| e.into_inner()).clone();
        let want_handler = n - inner.submitted() as usize;
        let label = format!("compose queue wrapped directly in a queue, inner capacity 2 blocked{}", if flushing_handler { ", handler flushes its own queue" } else { "" });
        {
            let mut rep = r.rep();
            rep.eval();
            rep.obs("refusals_of_an_inner_queue_reported_to_the_outer_queues_handler", calls.len() as u64);
            rep.distinct(&format!("compose|direct|{}", flushing_handler));
            let mut late = false;
            let mut report = |props: &[&str], rule: &str, class: &str, detail: String| {
                for p in props {
                    if *p == r.prop {
                        rep.violation(Violation { property: p.to_string(), rule: rule.into(), class: class.into(), detail: format!("[{}] {}", label, detail), replay_args: r.args.to_vec_with(&[]), trace: Json::Null });
                    }
                }
            };
            if outer_refused > 0 {
                report(&["C10"], "R5", "false-refusal", format!("{} of {} emits on the unbounded outer queue were refused", outer_refused, n));
                report(&["C16"], "R8", "handler-never-called", format!("the wrapped (inner) queue refused metrics, the outer queue's handler was called {} times and {} refusals came back to the caller instead", calls.len(), outer_refused));
            } else if let Some(sv) = &spin_verdict {
                report(&["C16", "C08", "C10"], "R8", "handler-not-called", format!("{} of {} failures reported, then: {}", calls.len(), want_handler, sv));
            } else if calls.len() < want_handler {
                late = true;
            } else if calls.len() > want_handler {
                report(&["C16"], "R8", "handler-called-twice", format!("{} handler calls for {} failures of the wrapped sink", calls.len(), want_handler));
            }
            if let Some((m, t, _)) = calls.iter().find(|(_, _, on_harness)| *on_harness) {
                report(&["C16"], "R8", "handler-on-caller-thread", format!("handler ran on caller thread {} for {:?}", t, m));
            }
            if late {
                rep.inconclusive(format!("{}: {} of {} handler calls after 100 s", label, calls.len(), want_handler));
            }
        }
        *slot.lock().unwrap() = None;
        sh.open_all();
        drop(outer);
        drop(inner);
        if spin_verdict.is_none() {
            let _ = await_log(&sh, |st| st.log.iter().any(|e| matches!(e, Ev::SinkDrop { .. })));
            let _ = await_no_library_thread();
        } else {
            adopt_zombies();
        }
        set_current(None);
    }
    for variant in 0..6u64 {
        if SPIN_SEEN.load(std::sync::atomic::Ordering::SeqCst) || !(r.prop == "C08" || r.prop == "C10") {
            break;
        }
        let n = [40usize, 300, 120, 40, 300, 120][variant as usize];
        let inner_cap = if variant % 3 == 1 { Some(4096usize) } else { None };
        let through_handler = variant >= 3;
        let sh = Shared::new(false);
        set_current(Some(sh.clone()));
        let inner = match inner_cap {
            Some(c) => QueuingMetricSink::with_capacity(GatedSink { sh: sh.clone() }, c),
            None => QueuingMetricSink::from(GatedSink { sh: sh.clone() }),
        };
        let results: Arc<M<Vec<(String, Result<usize, String>)>>> = Arc::new(M::new(Vec::new()));
        let sid = r.sid + variant;
        let texts: Vec<String> = (0..n).map(|k| metric_text(&format!("comp{}.n{}", sid, k), &Out::Ok, 0)).collect();
        let outer = if through_handler {
            // every metric fails in the outer queue's wrapped sink; the handler passes its text on through the inner queue
            let (inner2, results2) = (std::panic::AssertUnwindSafe(inner.clone()), std::panic::AssertUnwindSafe(results.clone()));
            QueuingMetricSink::builder()
                .with_error_handler(move |e: std::io::Error| {
                    let m = e.get_ref().map(|x| x.to_string()).unwrap_or_default();
                    let res = inner2.emit(&m);
                    results2.lock().unwrap_or_else(|e| e.into_inner()).push((m, res.map_err(|e| e.to_string())));
                })
                .build(AlwaysFails)
        } else {
            QueuingMetricSink::from(Relay { inner: inner.clone(), results: results.clone() })
        };
        let mut outer_refused = 0usize;
        for t in &texts {
            if panics::guard(|| outer.emit(t)).map(|x| x.is_err()).unwrap_or(true) {
                outer_refused += 1;
            }
        }
        // come to rest: every metric the outer queue accepted has been passed on (result recorded) ...
        let t0 = std::time::Instant::now();
        while results.lock().unwrap_or_else(|e| e.into_inner()).len() < n - outer_refused && t0.elapsed().as_secs() < 60 {
            std::thread::yield_now();
        }
        let res: Vec<(String, Result<usize, String>)> = results.lock().unwrap_or_else(|e| e.into_inner()).clone();
        let accepted_by_inner: Vec<String> = res.iter().filter(|(_, r)| r.is_ok()).map(|(m, _)| m.clone()).collect();
        // ... and everything the inner queue accepted has reached the recording sink
        let waited = await_log(&sh, |st| st.n_exit >= accepted_by_inner.len());
        let delivered: Vec<String> = sh.st.lock().unwrap_or_else(|e| e.into_inner()).log.iter().filter_map(|e| if let Ev::Enter { metric, .. } = e { Some(metric.clone()) } else { None }).collect();
        let label = format!("compose {} inner capacity {}", if through_handler { "handler->queue" } else { "queue->queue" }, inner_cap.map(|c| c.to_string()).unwrap_or_else(|| "unbounded".into()));
        {
            let mut rep = r.rep();
            rep.eval();
            rep.obs(if through_handler { "emits_made_by_an_error_handler_on_a_queue_thread" } else { "emits_made_by_another_queues_thread" }, res.len() as u64);
            rep.distinct(&format!("compose|{}|{:?}|{}", through_handler, inner_cap, n));
            let mut report = |props: &[&str], rule: &str, class: &str, detail: String| {
                for p in props {
                    if *p == r.prop {
                        rep.violation(Violation { property: p.to_string(), rule: rule.into(), class: class.into(), detail: format!("[{}] {}", label, detail), replay_args: r.args.to_vec_with(&[]), trace: Json::Null });
                    }
                }
            };
            if outer_refused > 0 {
                report(&["C10"], "R5", "false-refusal", format!("{} of {} emits on an unbounded queuing sink were refused", outer_refused, n));
            } else if res.len() < n {
                report(&["C08"], "R1", "accepted-never-delivered", format!("the outer queue accepted {} metrics but passed on only {}", n, res.len()));
            }
            if let Some((m, Err(e))) = res.iter().find(|(_, r)| r.is_err()) {
                report(&["C10"], "R5", "false-refusal", format!("emit({:?}) made on the background thread of another queuing sink was refused with {:?} although the queue (capacity {:?}) holds at most {} entries", m, e, inner_cap, n));
            }
            if let Some((m, Ok(k))) = res.iter().find(|(m, r)| matches!(r, Ok(k) if *k != m.len())) {
                report(&["C10"], "R5", "return-count", format!("emit({:?}) returned Ok({}) for {} bytes", m, k, m.len()));
            }
            match waited {
                Err(st) if st.is_verdict() => report(&["C08"], "R1", "accepted-never-delivered", format!("{} accepted by the inner queue, {} delivered: {}", accepted_by_inner.len(), delivered.len(), st.describe())),
                Err(_) => rep.inconclusive(format!("{}: watchdog while waiting for the inner queue", label)),
                Ok(()) => {
                    if delivered != accepted_by_inner {
                        let at = delivered.iter().zip(accepted_by_inner.iter()).position(|(a, b)| a != b).unwrap_or(delivered.len().min(accepted_by_inner.len()));
                        report(&["C08"], "R2", "out-of-order", format!("the inner queue's wrapped sink received {} metrics, {} were accepted; first difference at #{}", delivered.len(), accepted_by_inner.len(), at));
                    }
                }
            }
        }
        drop(outer);
        drop(inner);
        let _ = await_log(&sh, |st| st.log.iter().any(|e| matches!(e, Ev::SinkDrop { .. })));
        let _ = await_no_library_thread();
        set_current(None);
    }
    // two queuing sinks with handlers in one process: while the handler of the first is busy (it waits for the harness),
    // the second sink's failures are reported to ITS handler, each once - handlers of different sinks owe each other nothing
    for _once in 0..1 {
        if r.prop != "C16" {
            break;
        }
        let gate = Arc::new((Mutex::new(false), std::sync::Condvar::new()));
        let in_first = Arc::new(std::sync::atomic::AtomicBool::new(false));
        let first_calls = Arc::new(std::sync::atomic::AtomicU64::new(0));
        let second_calls = Arc::new(std::sync::atomic::AtomicU64::new(0));
        let (g2, if2, fc2) = (std::panic::AssertUnwindSafe(gate.clone()), in_first.clone(), first_calls.clone());
        let q1 = QueuingMetricSink::builder()
            .with_error_handler(move |_e| {
                fc2.fetch_add(1, std::sync::atomic::Ordering::SeqCst);
                if2.store(true, std::sync::atomic::Ordering::SeqCst);
                let (m, cv) = &**g2;
                let mut g = m.lock().unwrap_or_else(|e| e.into_inner());
                while !*g {
                    g = cv.wait(g).unwrap_or_else(|e| e.into_inner());
                }
            })
            .build(AlwaysFails);
        let sc2 = second_calls.clone();
        let q2 = QueuingMetricSink::builder()
            .with_error_handler(move |_e| {
                sc2.fetch_add(1, std::sync::atomic::Ordering::SeqCst);
            })
            .build(AlwaysFails);
        let _ = q1.emit("first.queue:1|c");
        let t0 = std::time::Instant::now();
        while !in_first.load(std::sync::atomic::Ordering::SeqCst) && t0.elapsed().as_secs() < 30 {
            std::thread::yield_now();
        }
        let n = 25u64;
        for k in 0..n {
            let _ = q2.emit(&format!("second.queue.n{}:1|c", k));
        }
        // the second queue comes to rest on its own (its thread has nothing to wait for)
        let stuck = procmon::watch(|| q2.drained() >= n && second_calls.load(std::sync::atomic::Ordering::SeqCst) >= n, 40, std::time::Duration::from_millis(400), std::time::Duration::from_secs(60));
        let got = second_calls.load(std::sync::atomic::Ordering::SeqCst);
        {
            let (m, cv) = &*gate;
            *m.lock().unwrap() = true;
            cv.notify_all();
        }
        {
            let mut rep = r.rep();
            rep.eval();
            rep.obs("failures_of_one_queue_while_another_queues_handler_was_busy", n);
            rep.distinct("compose|two-queues-busy-handler");
            if !in_first.load(std::sync::atomic::Ordering::SeqCst) {
                rep.inconclusive("two-queues: the first queue's handler was not entered within 30 s");
            } else if got > n {
                rep.violation(Violation { property: "C16".into(), rule: "R8".into(), class: "handler-called-twice".into(), detail: format!("[compose two queuing sinks, the first one's handler busy] {} failures of the second sink, its handler was called {} times", n, got), replay_args: r.args.to_vec_with(&[]), trace: Json::Null });
            } else if got < n {
                // (the only other library thread is the first queue's, which waits inside its handler on the harness's gate)
                match stuck {
                    Some(procmon::Quiescence::Active) | Some(procmon::Quiescence::Spinning { .. }) => rep.inconclusive("two-queues: the second queue's thread was still busy after 60 s"),
                    _ => rep.violation(Violation { property: "C16".into(), rule: "R8".into(), class: "handler-never-called".into(), detail: format!("[compose two queuing sinks, the first one's handler busy] the second sink's wrapped sink failed {} metrics (drained() = {}), its handler was called {} times", n, q2.drained(), got), replay_args: r.args.to_vec_with(&[]), trace: Json::Null }),
                }
            }
        }
        drop(q1);
        drop(q2);
        let _ = await_no_library_thread();
    }
    // the crate's OWN sinks behind the queue (a queue over NopMetricSink is the documented way to measure the client's
    // overhead; spy sinks are what tests use) and the rendezvous capacity 0, with nothing gated: at rest `submitted` is
    // the number of emits that returned Ok, `drained` has caught up with it and nothing is queued
    for variant in 0..8u64 {
        if r.prop != "C15" {
            break;
        }
        let cap = [None, Some(0usize), Some(1), Some(64), None, Some(0), Some(3), None][variant as usize];
        let kind = variant % 4;
        let mut keep_rx: Option<Box<dyn std::any::Any>> = None;
        let mk = |b: cadence::QueuingMetricSinkBuilder, keep: &mut Option<Box<dyn std::any::Any>>| -> QueuingMetricSink {
            match kind {
                0 => b.build(cadence::NopMetricSink),
                1 => {
                    let (rx, s) = cadence::SpyMetricSink::new();
                    *keep = Some(Box::new(rx));
                    b.build(s)
                }
                2 => {
                    let (rx, s) = cadence::BufferedSpyMetricSink::new();
                    *keep = Some(Box::new(rx));
                    b.build(s)
                }
                _ => b.build(AlwaysFails),
            }
        };
        let mut b = QueuingMetricSink::builder();
        if let Some(c) = cap {
            b = b.with_capacity(c);
        }
        let q = mk(b, &mut keep_rx);
        let n = 300usize;
        let mut oks = 0u64;
        for k in 0..n {
            if q.emit(&format!("stock{}.n{}:1|c", variant, k)).is_ok() {
                oks += 1;
            }
            if cap == Some(0) && k % 8 == 0 {
                std::thread::yield_now();
            }
        }
        // come to rest: the queue's thread has caught up, or it is asleep for good / gone with the counters as they are
        // (decided from its /proc entries, not by a deadline)
        let t0 = std::time::Instant::now();
        let verdict = procmon::watch(|| q.drained() >= q.submitted() && q.queued() == 0, 40, std::time::Duration::from_millis(400), std::time::Duration::from_secs(60));
        if matches!(verdict, Some(procmon::Quiescence::Active) | Some(procmon::Quiescence::Spinning { .. })) {
            r.rep().inconclusive(format!("compose stock sinks: the queue's thread was still busy after 60 s ({:?})", verdict));
            drop(q);
            continue;
        }
        let last = (q.submitted(), q.drained(), q.queued());
        let (sub, dr, qd) = last;
        let label = format!("compose stock sink #{} ({}) capacity {:?}", kind, ["NopMetricSink", "SpyMetricSink", "BufferedSpyMetricSink", "a sink that fails every metric"][kind as usize], cap);
        {
            let mut rep = r.rep();
            rep.eval();
            rep.obs("counter_checks_on_queues_over_the_crates_own_sinks", 1);
            rep.distinct(&format!("compose-stock|{}|{:?}", kind, cap));
            if sub != oks {
                rep.violation(Violation { property: "C15".into(), rule: "R7".into(), class: "submitted-wrong".into(), detail: format!("[{}] {} emits returned Ok, submitted() = {} at rest", label, oks, sub), replay_args: r.args.to_vec_with(&[]), trace: Json::Null });
            } else if dr != sub || qd != 0 {
                rep.violation(Violation { property: "C15".into(), rule: "R7".into(), class: "drained-wrong".into(), detail: format!("[{}] at rest ({} ms after the last emit; the queue's thread: {}): submitted() = {}, drained() = {}, queued() = {}", label, t0.elapsed().as_millis(), match &verdict { None => "caught up".to_string(), Some(v) => format!("{:?}", v) }, sub, dr, qd), replay_args: r.args.to_vec_with(&[]), trace: Json::Null });
            }
        }
        drop(q);
        drop(keep_rx);
        let _ = await_no_library_thread();
    }
    // the LAST handle of a queue goes away on the thread of ANOTHER queue (it was owned by that queue's wrapped sink, or by
    // its error handler, and that queue is finishing): stopping is stopping, whoever asks
    for variant in 0..2u64 {
        if r.prop != "C09" {
            break;
        }
        struct Owner {
            inner: M<Option<QueuingMetricSink>>,
        }
        impl cadence::MetricSink for Owner {
            fn emit(&self, m: &str) -> std::io::Result<usize> {
                // told to let go of the handle it owns: this runs on the thread of the queue that wraps this sink
                if m.starts_with("let-go") {
                    drop(self.inner.lock().unwrap_or_else(|e| e.into_inner()).take());
                    return Ok(m.len());
                }
                self.inner.lock().unwrap_or_else(|e| e.into_inner()).as_ref().map(|q| q.emit(m)).unwrap_or(Ok(0))
            }
        }
        let sh = Shared::new(false);
        set_current(Some(sh.clone()));
        let x = QueuingMetricSink::from(GatedSink { sh: sh.clone() });
        if variant == 1 {
            let _ = x.emit(&metric_text(&format!("owned{}", r.sid), &Out::Ok, 0));
            let _ = await_log(&sh, |st| st.n_exit >= 1);
        }
        // the only handle of x moves into the sink wrapped by y; x's thread is idle
        let y = QueuingMetricSink::from(Owner { inner: M::new(Some(x)) });
        settle();
        let _ = y.emit("let-go:1|c");
        let released = await_log(&sh, |st| st.log.iter().any(|e| matches!(e, Ev::SinkDrop { .. })));
        {
            let mut rep = r.rep();
            rep.eval();
            rep.obs("last_handles_dropped_on_another_queues_thread", 1);
            rep.distinct(&format!("compose|owned-by-queue|{}", variant));
            match released {
                Ok(()) => {}
                Err(st) if st.is_verdict() => rep.violation(Violation { property: "C09".into(), rule: "R4".into(), class: "worker-or-sink-not-released".into(), detail: format!("[compose: the last handle of a queuing sink is owned by the sink another queuing sink wraps, and goes away on that queue's thread] the wrapped sink was never released: {}", st.describe()), replay_args: r.args.to_vec_with(&[]), trace: Json::Null }),
                Err(st) => rep.inconclusive(format!("owned-by-queue: {}", st.describe())),
            }
        }
        drop(y);
        adopt_zombies();
        set_current(None);
    }
    // metrics that an error handler itself sends through a queuing sink are queued metrics like any other: when their
    // wrapped sink fails them, that queue's handler hears of each exactly once. Two shapes: the handler of one queue
    // forwards into a second queue (whose sink fails too), and the handler sends a follow-up into its own queue.
    for variant in 0..4u64 {
        if r.prop != "C16" {
            break;
        }
        let own_queue = variant % 2 == 1;
        let n = if variant < 2 { 40usize } else { 400 };
        let calls: Arc<M<Vec<(String, String)>>> = Arc::new(M::new(Vec::new())); // (which handler, text)
        // None = every expected call came; Parked / NoLibraryThread = the queues' threads are done and fewer came (the verdict
        // is theirs, not a deadline's); Active = still busy after 60 s (inconclusive)
        #[allow(unused_assignments)]
        let mut stuck: Option<procmon::Quiescence> = None;
        let submit_failed: Arc<M<Vec<String>>> = Arc::new(M::new(Vec::new()));
        let sid = r.sid + 6 + variant;
        let expected: usize;
        let first: QueuingMetricSink;
        let mut second: Option<QueuingMetricSink> = None;
        if own_queue {
            let slot: Arc<M<Option<QueuingMetricSink>>> = Arc::new(M::new(None));
            let (calls2, slot2, sf2) = (std::panic::AssertUnwindSafe(calls.clone()), std::panic::AssertUnwindSafe(slot.clone()), std::panic::AssertUnwindSafe(submit_failed.clone()));
            first = QueuingMetricSink::builder()
                .with_error_handler(move |e: std::io::Error| {
                    let m = e.get_ref().map(|x| x.to_string()).unwrap_or_default();
                    calls2.lock().unwrap_or_else(|e| e.into_inner()).push(("own".into(), m.clone()));
                    if !m.starts_with("followup.") {
                        let q = slot2.lock().unwrap_or_else(|e| e.into_inner()).clone();
                        if let Some(q) = q {
                            let f = format!("followup.{}", m);
                            if q.emit(&f).is_err() {
                                sf2.lock().unwrap_or_else(|e| e.into_inner()).push(f);
                            }
                        }
                    }
                })
                .build(AlwaysFails);
            *slot.lock().unwrap() = Some(first.clone());
            expected = 2 * n;
            for k in 0..n {
                let _ = first.emit(&format!("h{}.n{}:1|c", sid, k));
            }
            stuck = procmon::watch(|| calls.lock().unwrap_or_else(|e| e.into_inner()).len() >= expected, 40, std::time::Duration::from_millis(400), std::time::Duration::from_secs(60));
            // a little longer: a surplus call would come now
            std::thread::sleep(std::time::Duration::from_millis(30));
            *slot.lock().unwrap() = None;
        } else {
            let calls_b = std::panic::AssertUnwindSafe(calls.clone());
            let q2 = QueuingMetricSink::builder()
                .with_error_handler(move |e: std::io::Error| {
                    let m = e.get_ref().map(|x| x.to_string()).unwrap_or_default();
                    calls_b.lock().unwrap_or_else(|e| e.into_inner()).push(("second".into(), m));
                })
                .build(AlwaysFails);
            let (calls_a, q2c, sf2) = (std::panic::AssertUnwindSafe(calls.clone()), std::panic::AssertUnwindSafe(q2.clone()), std::panic::AssertUnwindSafe(submit_failed.clone()));
            first = QueuingMetricSink::builder()
                .with_error_handler(move |e: std::io::Error| {
                    let m = e.get_ref().map(|x| x.to_string()).unwrap_or_default();
                    calls_a.lock().unwrap_or_else(|e| e.into_inner()).push(("first".into(), m.clone()));
                    let f = format!("followup.{}", m);
                    if q2c.emit(&f).is_err() {
                        sf2.lock().unwrap_or_else(|e| e.into_inner()).push(f);
                    }
                })
                .build(AlwaysFails);
            second = Some(q2);
            expected = 2 * n;
            for k in 0..n {
                let _ = first.emit(&format!("h{}.n{}:1|c", sid, k));
            }
            stuck = procmon::watch(|| calls.lock().unwrap_or_else(|e| e.into_inner()).len() >= expected, 40, std::time::Duration::from_millis(400), std::time::Duration::from_secs(60));
            std::thread::sleep(std::time::Duration::from_millis(30));
        }
        let got: Vec<(String, String)> = calls.lock().unwrap_or_else(|e| e.into_inner()).clone();
        let sf = submit_failed.lock().unwrap_or_else(|e| e.into_inner()).len();
        let label = format!("compose handler sends {} n={}", if own_queue { "a follow-up into its own queue" } else { "into a second queue whose sink fails too" }, n);
        {
            let mut rep = r.rep();
            rep.eval();
            rep.obs("failures_of_metrics_sent_by_an_error_handler", got.iter().filter(|(_, m)| m.starts_with("followup.")).count() as u64);
            rep.distinct(&format!("compose-h|{}|{}", own_queue, n));
            let followups = got.iter().filter(|(_, m)| m.starts_with("followup.")).count();
            let mut dup = std::collections::HashMap::new();
            for (_, m) in &got {
                *dup.entry(m.clone()).or_insert(0usize) += 1;
            }
            let twice = dup.iter().find(|(_, c)| **c > 1).map(|(m, c)| (m.clone(), *c));
            if matches!(stuck, Some(procmon::Quiescence::Active) | Some(procmon::Quiescence::Spinning { .. })) {
                rep.inconclusive(format!("{}: the queues' threads were still busy after 60 s", label));
            } else if sf > 0 {
                rep.inconclusive(format!("{}: {} follow-ups were refused by an unbounded queue (C10's business)", label, sf));
            } else if let Some((m, c)) = twice {
                rep.violation(Violation { property: "C16".into(), rule: "R8".into(), class: "handler-called-twice".into(), detail: format!("[{}] the handler was called {} times for {:?}", label, c, m), replay_args: r.args.to_vec_with(&[]), trace: Json::Null });
            } else if followups < n {
                rep.violation(Violation { property: "C16".into(), rule: "R8".into(), class: "handler-never-called".into(), detail: format!("[{}] {} metrics sent from inside an error handler were accepted by a queuing sink and failed by its wrapped sink; its handler was called for {} of them ({} handler calls in all, {} expected)", label, n, followups, got.len(), expected), replay_args: r.args.to_vec_with(&[]), trace: Json::Null });
            }
        }
        drop(first);
        drop(second);
        let _ = await_no_library_thread();
    }
    r.sid += 6;
}

/// The last handle is dropped while the wrapped sink is slow but alive: a pacer thread lets one queued metric through
/// every 10 ms for as long as the drop has not returned. Dropping never waits - neither for the backlog nor for a grace
/// period: the call watchdog decides (the dropping thread found waiting sample after sample, or burning CPU, inside drop).
/// Afterwards everything accepted is still handed over and the sink is released.
fn mode_slow_drop(r: &mut Runner) {
    for (cap, n, blocked_for_good) in [(None, 400usize, false), (Some(512usize), 400, false), (None, 12, true), (Some(16), 12, true)] {
        let sh = Shared::new(true);
        set_current(Some(sh.clone()));
        let mut b = QueuingMetricSink::builder();
        if let Some(c) = cap {
            b = b.with_capacity(c);
        }
        let q = b.build(GatedSink { sh: sh.clone() });
        let mut accepted = 0usize;
        for k in 0..n {
            if q.emit(&format!("slow{}.n{}|ok", r.sid, k)).is_ok() {
                accepted += 1;
            }
        }
        let _ = await_log(&sh, |st| st.log.iter().any(|e| matches!(e, Ev::Enter { .. })));
        let stop = Arc::new(std::sync::atomic::AtomicBool::new(false));
        let pacer = {
            let (sh2, stop2) = (sh.clone(), stop.clone());
            std::thread::spawn(move || {
                let _reg = procmon::Registration::new();
                let mut released = 0usize;
                while !stop2.load(std::sync::atomic::Ordering::SeqCst) && !blocked_for_good {
                    std::thread::sleep(std::time::Duration::from_millis(10));
                    if sh2.count(|e| matches!(e, Ev::DropRet { .. })) > 0 {
                        break;
                    }
                    sh2.release_one();
                    released += 1;
                }
                released
            })
        };
        sh.push(Ev::DropCall { h: 0 });
        let ctx = jobj! {"capacity" => cap.map(|c| c.to_string()).unwrap_or_else(|| "unbounded".into()), "ops" => format!("slow-drop backlog={} wrapped sink {}", accepted, if blocked_for_good { "blocked for good" } else { "lets one metric through every 10 ms" })};
        let dr = in_call("drop", || ctx.clone(), || panics::guard(move || drop(q)));
        sh.push(Ev::DropRet { h: 0 });
        stop.store(true, std::sync::atomic::Ordering::SeqCst);
        let released_before_return = pacer.join().unwrap_or(0);
        {
            let mut rep = r.rep();
            rep.eval();
            rep.obs("slow_sink_last_drops", 1);
            rep.obs("max_metrics_let_through_before_drop_returned", 0);
            rep.obs_max("max_metrics_let_through_before_drop_returned", released_before_return as u64);
            rep.distinct(&format!("slowdrop|{:?}|{}|{}", cap, n, blocked_for_good));
            if let Err(p) = dr {
                if r.prop == "C09" {
                    rep.violation(Violation { property: "C09".into(), rule: "R4".into(), class: "drop-panicked".into(), detail: p, replay_args: r.args.to_vec_with(&[]), trace: Json::Null });
                }
            }
        }
        sh.open_all();
        let res = await_log(&sh, |st| st.n_exit >= accepted)
            .and_then(|_| await_log(&sh, |st| st.log.iter().any(|e| matches!(e, Ev::SinkDrop { .. }))))
            .and_then(|_| await_no_library_thread());
        if let Err(st) = res {
            let mut rep = r.rep();
            if st.is_verdict() {
                if r.prop == "C09" || r.prop == "C08" {
                    let p = r.prop.clone();
                    rep.violation(Violation { property: p, rule: "R4".into(), class: "undelivered-after-last-drop".into(), detail: format!("slow-drop: {} accepted: {}", accepted, st.describe()), replay_args: r.args.to_vec_with(&[]), trace: Json::Null });
                }
                adopt_zombies();
            } else {
                rep.inconclusive(st.describe());
            }
        }
        set_current(None);
    }
}

fn main() {
    let args = Args::from_env();
    panics::install_hook();
    procmon::register_current();
    HOOKS.store(install_point_logger(), std::sync::atomic::Ordering::Relaxed);
    let prop = args.str("property", "C08");
    let rep = Arc::new(Mutex::new(Report::new("queue_driver", &prop)));
    // a library call that blocks the harness thread for good is a verdict, written by the watchdog thread
    {
        let rep2 = rep.clone();
        let out = args.get("out").map(|s| s.to_string());
        let prop2 = prop.clone();
        let args2 = args.clone();
        spawn_call_watchdog(move |what, ctx, evidence| {
            let mut r = rep2.lock().unwrap_or_else(|e| e.into_inner());
            let (p, class) = if what == "drop" { ("C09", "drop-blocked") } else if what == "flush" { ("C10", "flush-blocked") } else { ("C10", "emit-blocked") };
            if p == prop2 {
                let cap = ctx.get("capacity").and_then(|c| c.as_str()).unwrap_or("?").to_string();
                let ops = ctx.get("ops").and_then(|c| c.as_str()).unwrap_or("").to_string();
                r.violation(Violation {
                    property: p.into(),
                    rule: if what == "drop" { "R4".into() } else { "R5".into() },
                    class: class.into(),
                    detail: format!("`{}` waits for the wrapped sink (blocked or slow): {}", what, evidence),
                    replay_args: args2.to_vec_with(&[("mode", "seq-one".into()), ("cap", cap), ("ops", ops)]),
                    trace: ctx.clone(),
                });
            } else {
                r.inconclusive(format!("`{}` blocked for good in a run for {} (the {} check reports it): {}", what, prop2, p, evidence));
            }
            let code = r.finish(out.as_deref());
            std::process::exit(code);
        });
    }
    let mode = args.str("mode", "seq-enum");
    {
        let mut runner = Runner { shared: rep.clone(), prop: prop.clone(), args: &args, sid: mix(&[args.u64("shard", 0)]) % 1000 * 1_000_000 };
        match mode.as_str() {
            "seq-enum" => mode_seq_enum(&mut runner),
            "seq-random" => mode_seq_random(&mut runner),
            "drop-matrix" => mode_drop_matrix(&mut runner),
            "outcomes" => mode_outcomes(&mut runner),
            "panic-storm" => mode_panic_storm(&mut runner),
            "slow-drop" => mode_slow_drop(&mut runner),
            "compose" => mode_compose(&mut runner),
            "seq-one" => {
                let sc = Scenario {
                    cap: parse_cap(&args.str("cap", "unbounded")),
                    handler: args.str("handler", "1") == "1",
                    ops: args.str("ops", "").split(',').filter(|s| !s.is_empty()).map(SOp::parse).collect(),
                };
                // the scenario id selects builder call order and the wrapped sink's flush behaviour: replay the same one
                if let Some(sid) = args.get("sid").and_then(|s| s.parse::<u64>().ok()) {
                    runner.sid = sid.wrapping_sub(1);
                }
                runner.run(&sc, "seq-one");
            }
            m => {
                eprintln!("unknown mode {}", m);
                std::process::exit(2);
            }
        }
    }
    rep.lock().unwrap_or_else(|e| e.into_inner()).obs("proc_listings_that_missed_a_live_thread", procmon::SCAN_GLITCHES.load(std::sync::atomic::Ordering::Relaxed));
    let code = rep.lock().unwrap_or_else(|e| e.into_inner()).finish(args.get("out"));
    std::process::exit(code);
}
