//! holder_stress (C18, observers 2 and 3): a plain program - no hooks, no scheduler - in which setters and
//! readers race on fresh `SingletonHolder`s with no other synchronisation than a relaxed start flag. It is run
//! under Miri (data-race detector + weak-memory emulation + UB checks, many seeds) and under ThreadSanitizer.
//! A small value oracle runs along: one winner, same instance everywhere, a thread that completed a set (and a
//! reader that saw the value once) sees the value from then on.
//!
//!   holder_stress [rounds] [setters] [readers] [reads-per-reader]
//! exit 0 = nothing observed; exit 1 = value oracle failed (message on stdout). Miri / TSan report on their own.

use cadence_macros::SingletonHolder;
use std::sync::atomic::{AtomicBool, AtomicUsize, Ordering};
use std::sync::Arc;

#[derive(Debug)]
struct Payload {
    id: usize,
    words: [usize; 6],
}

fn words_for(id: usize) -> [usize; 6] {
    let mut w = [0usize; 6];
    for (i, x) in w.iter_mut().enumerate() {
        *x = id.wrapping_mul(0x9E37_79B9).rotate_left(i as u32 * 5) ^ 0x5A5A_A5A5;
    }
    w
}

impl Default for Payload {
    fn default() -> Payload {
        Payload::new(0)
    }
}

impl Payload {
    fn new(id: usize) -> Payload {
        Payload { id, words: words_for(id) }
    }
    fn intact(&self) -> bool {
        self.words == words_for(self.id)
    }
}

fn main() {
    let a: Vec<usize> = std::env::args().skip(1).filter_map(|s| s.parse().ok()).collect();
    let rounds = a.first().copied().unwrap_or(20);
    let setters = a.get(1).copied().unwrap_or(2);
    let readers = a.get(2).copied().unwrap_or(2);
    let reads = a.get(3).copied().unwrap_or(4);
    let mut observed_unset = 0usize;
    let mut observed_set = 0usize;
    let mut winners = [0usize; 8];
    for round in 0..rounds {
        let holder: Arc<SingletonHolder<Payload>> = if round % 2 == 1 { Arc::new(SingletonHolder::default()) } else { Arc::new(SingletonHolder::new()) };
        if holder.is_set() || holder.get().is_some() {
            println!("HOLDER-ORACLE-FAILED round={} a freshly constructed holder reports 'set'", round);
            std::process::exit(1);
        }
        let go = Arc::new(AtomicBool::new(false));
        let failures = Arc::new(AtomicUsize::new(0));
        let mut joins = Vec::new();
        for s in 0..setters {
            let (h, go, fail) = (holder.clone(), go.clone(), failures.clone());
            joins.push(std::thread::spawn(move || {
                while !go.load(Ordering::Relaxed) {
                    std::thread::yield_now();
                }
                h.set(Payload::new(round * 16 + s + 1));
                // a set that returned because another set is in flight may still see "not set"; once a value is
                // visible it must be intact and never change
                let first = h.get();
                let second = h.get();
                match (&first, &second) {
                    (Some(a), Some(b)) => {
                        if !Arc::ptr_eq(a, b) || !a.intact() {
                            fail.fetch_add(1, Ordering::Relaxed);
                        }
                    }
                    (Some(_), None) => {
                        fail.fetch_add(1, Ordering::Relaxed);
                    }
                    _ => {}
                }
                (0usize, first.map(|a| a.id))
            }));
        }
        for _ in 0..readers {
            let (h, go, fail) = (holder.clone(), go.clone(), failures.clone());
            joins.push(std::thread::spawn(move || {
                while !go.load(Ordering::Relaxed) {
                    std::thread::yield_now();
                }
                let mut seen: Option<Arc<Payload>> = None;
                let mut unset = 0usize;
                for _ in 0..reads {
                    // every public way of looking at a holder counts, `{:?}` included: no read of the stored value
                    // without the ordering that makes it safe (Miri / TSan judge)
                    std::hint::black_box(format!("{:?}", h));
                    let flag = h.is_set();
                    match h.get() {
                        Some(v) => {
                            if !v.intact() {
                                fail.fetch_add(1, Ordering::Relaxed);
                            }
                            if let Some(prev) = &seen {
                                if !Arc::ptr_eq(prev, &v) {
                                    fail.fetch_add(1, Ordering::Relaxed);
                                }
                            }
                            seen = Some(v);
                        }
                        None => {
                            // "set" was reported (or a value seen) earlier: it can never become unset again
                            if flag || seen.is_some() {
                                fail.fetch_add(1, Ordering::Relaxed);
                            }
                            unset += 1;
                        }
                    }
                }
                (unset, seen.map(|a| a.id))
            }));
        }
        go.store(true, Ordering::Relaxed);
        let mut ids: Vec<usize> = Vec::new();
        for j in joins {
            let (unset, id) = j.join().expect("thread panicked");
            observed_unset += unset;
            if let Some(i) = id {
                observed_set += 1;
                ids.push(i);
            }
        }
        let fin = holder.get();
        let ok_final = match &fin {
            Some(v) => v.intact() && ids.iter().all(|i| *i == v.id) && v.id > round * 16 && v.id <= round * 16 + setters,
            None => setters == 0,
        };
        if let Some(v) = &fin {
            winners[(v.id - round * 16 - 1) % 8] += 1;
        }
        if !ok_final || failures.load(Ordering::Relaxed) != 0 || !holder.is_set() && setters > 0 {
            println!("HOLDER-ORACLE-FAILED round={} final={:?} seen_ids={:?} failures={}", round, fin.map(|v| v.id), ids, failures.load(Ordering::Relaxed));
            std::process::exit(1);
        }
    }
    println!("holder_stress ok rounds={} setters={} readers={} reads_unset={} reads_set={} winners_by_setter={:?}", rounds, setters, readers, observed_unset, observed_set, &winners[..setters.min(8)]);
}
