//! sock_driver: the socket sinks observed at the syscall boundary (interposed sendto) and at the receiving
//! socket. C13 (exact bytes / destination / result), C14 (telemetry adds up), and the socket embodiments W3/W4
//! of the framing rules (C05 C06 C07 C19).
//!
//!   sock_driver --property Cxx --mode unbuffered|buffered|stats --seed S --shard I --cases N --out FILE

use cadence::{BufferedUdpMetricSink, BufferedUnixMetricSink, MetricSink, QueuingMetricSink, UdpMetricSink, UnixMetricSink};
use cvh::frame::*;
use cvh::json::clip_bytes;
use cvh::rng::{mix, Rng};
use cvh::{jobj, panics, Args, Json, Report, Violation};
use std::net::{SocketAddr, UdpSocket};
use std::os::fd::AsRawFd;
use std::os::unix::net::UnixDatagram;
use std::path::PathBuf;
use std::sync::atomic::{AtomicU64, Ordering};
use std::sync::{Arc, Mutex};
use std::time::Duration;

pub mod interpose {
    include!("../interpose.rs");
}

/// What the caller configured on the socket it hands to a sink and what a sink has no business changing: the
/// blocking mode and the send / receive timeouts decide whether a send waits, fails or gives up. Read through a
/// dup()ed descriptor (same open file description) so that it can still be read after the sink has gone.
#[derive(Clone, Debug, PartialEq)]
struct SockMode {
    nonblocking: bool,
    send_timeout: (i64, i64),
    recv_timeout: (i64, i64),
}

struct ModeProbe {
    fd: i32,
    at_hand_over: SockMode,
}

extern "C" {
    fn dup(fd: i32) -> i32;
    fn close(fd: i32) -> i32;
    fn fcntl(fd: i32, cmd: i32, ...) -> i32;
    fn getsockopt(fd: i32, level: i32, name: i32, val: *mut u8, len: *mut u32) -> i32;
}

fn sock_mode(fd: i32) -> SockMode {
    const F_GETFL: i32 = 3;
    const O_NONBLOCK: i32 = 0o4000;
    const SOL_SOCKET: i32 = 1;
    const SO_RCVTIMEO: i32 = 20;
    const SO_SNDTIMEO: i32 = 21;
    let fl = unsafe { fcntl(fd, F_GETFL) };
    let tv = |name: i32| -> (i64, i64) {
        let mut v = [0i64; 2];
        let mut l = 16u32;
        unsafe { getsockopt(fd, SOL_SOCKET, name, v.as_mut_ptr() as *mut u8, &mut l) };
        (v[0], v[1])
    };
    SockMode { nonblocking: fl >= 0 && fl & O_NONBLOCK != 0, send_timeout: tv(SO_SNDTIMEO), recv_timeout: tv(SO_RCVTIMEO) }
}

impl ModeProbe {
    fn new(fd: i32) -> ModeProbe {
        let d = unsafe { dup(fd) };
        ModeProbe { fd: d, at_hand_over: sock_mode(d) }
    }
    /// None if the mode is still what the caller set.
    fn changed(&self) -> Option<String> {
        let now = sock_mode(self.fd);
        if now == self.at_hand_over {
            None
        } else {
            Some(format!("socket handed over as {:?} is now {:?}", self.at_hand_over, now))
        }
    }
}

impl ModeProbe {
    /// The application's own handle of the socket (a dup made before the hand-over) can still send once the sink is
    /// gone: None if so. A sink that shuts the shared socket down on its way out is seen here (EPIPE).
    fn still_sends_unix(&self, dest: &std::path::Path) -> Option<String> {
        use std::os::fd::FromRawFd;
        let s = unsafe { UnixDatagram::from_raw_fd(dup(self.fd)) };
        match s.send_to(b"app", dest) {
            Ok(_) => None,
            Err(e) if e.raw_os_error() == Some(EAGAIN) || e.raw_os_error() == Some(ENOBUFS) => None,
            Err(e) => Some(format!("the application's own handle of the socket can no longer send: {}", e)),
        }
    }
}

impl Drop for ModeProbe {
    fn drop(&mut self) {
        unsafe { close(self.fd) };
    }
}

const EAGAIN: i32 = 11;
const ENOBUFS: i32 = 105;
const ECONNREFUSED: i32 = 111;
const EMSGSIZE: i32 = 90;
const EPERM: i32 = 1;
const EINTR: i32 = 4;
const ENETUNREACH: i32 = 101;

static DIRN: AtomicU64 = AtomicU64::new(0);

fn fresh_dir() -> PathBuf {
    let d = PathBuf::from(format!("/var/tmp/cvh-sock-{}-{}", std::process::id(), DIRN.fetch_add(1, Ordering::Relaxed)));
    let _ = std::fs::remove_dir_all(&d);
    std::fs::create_dir_all(&d).expect("create run dir");
    d
}

/// A run directory whose absolute path is longer than a sockaddr_un can hold (108 bytes): sockets in it can only be
/// reached through a RELATIVE path from inside it - a perfectly legal way to address a Unix socket.
fn deep_dir() -> PathBuf {
    let d = fresh_dir().join("d".repeat(60)).join("e".repeat(60));
    std::fs::create_dir_all(&d).expect("create deep run dir");
    d
}

fn rand_metric(r: &mut Rng, len: usize) -> String {
    // random UTF-8 of exactly `len` bytes
    let mut s = String::with_capacity(len);
    let pool = ["a", "Z", "0", ":", "|", "#", ",", "@", ".", " ", "é", "ж", "中", "🎉", "\t", "\r", "\n", "\u{0}"];
    while s.len() < len {
        let c = pool[r.usize_below(pool.len())];
        if s.len() + c.len() <= len {
            s.push_str(c);
        } else {
            s.push('x');
        }
    }
    s
}

fn decode_dest_inet(dest: &[u8]) -> Option<SocketAddr> {
    let fam = if dest.len() >= 2 { u16::from_ne_bytes([dest[0], dest[1]]) } else { 0 };
    if dest.len() >= 8 && fam == 2 {
        let port = u16::from_be_bytes([dest[2], dest[3]]);
        Some(SocketAddr::from(([dest[4], dest[5], dest[6], dest[7]], port)))
    } else if dest.len() >= 24 && fam == 10 {
        // sockaddr_in6: family, port, flowinfo, 16 address bytes, scope id
        let port = u16::from_be_bytes([dest[2], dest[3]]);
        let mut a = [0u8; 16];
        a.copy_from_slice(&dest[8..24]);
        Some(SocketAddr::from((std::net::Ipv6Addr::from(a), port)))
    } else {
        None
    }
}

/// "127.0.0.1:0", or "[::1]:0" for a third of the cases when this machine has an IPv6 loopback.
fn loopback(r: &mut Rng) -> &'static str {
    static V6: std::sync::OnceLock<bool> = std::sync::OnceLock::new();
    let v6 = *V6.get_or_init(|| UdpSocket::bind("[::1]:0").is_ok());
    if v6 && r.chance(1, 3) {
        "[::1]:0"
    } else {
        "127.0.0.1:0"
    }
}

/// Socket file name: every fifth case one that is not valid UTF-8 (paths are bytes on this platform), every fifth one
/// whose first byte means something special elsewhere (abstract-namespace marker `@`, option dash, tilde, comment sign,
/// blank, percent, colon) - to a Unix socket sink a path is a path.
fn sock_name(r: &mut Rng) -> std::ffi::OsString {
    use std::os::unix::ffi::OsStringExt;
    match r.below(5) {
        0 => std::ffi::OsString::from_vec(b"t\xe9rg\xff\xfe.sock".to_vec()),
        1 | 2 => (*r.pick(&["@statsd.sock", "-target.sock", "~target.sock", "#target.sock", " target.sock", "%40target.sock", ":target.sock", "@", "tar get\n.sock", "unix:target.sock"])).into(),
        _ => "target.sock".into(),
    }
}

/// `dir/name`, or - when the sink is addressed relative to the working directory - half of the time the bare name
/// (so that the path's first byte is the name's first byte).
fn sock_path(r: &mut Rng, dir: &std::path::Path, relative: bool) -> PathBuf {
    let name = sock_name(r);
    if relative && r.chance(2, 3) {
        PathBuf::from(name)
    } else {
        dir.join(name)
    }
}

fn decode_dest_unix(dest: &[u8]) -> Option<PathBuf> {
    if dest.len() >= 3 && u16::from_ne_bytes([dest[0], dest[1]]) == 1 {
        let p = &dest[2..];
        let end = p.iter().position(|b| *b == 0).unwrap_or(p.len());
        Some(PathBuf::from(<std::ffi::OsStr as std::os::unix::ffi::OsStrExt>::from_bytes(&p[..end])))
    } else {
        None
    }
}

struct Cx<'a> {
    rep: &'a mut Report,
    prop: String,
    args: &'a Args,
}

impl<'a> Cx<'a> {
    fn violation(&mut self, property: &str, rule: &str, class: &str, detail: String, trace: Json, cs: u64) {
        if property != self.prop {
            self.rep.obs("other_property_rule_hits", 1);
            return;
        }
        self.rep.violation(Violation {
            property: property.into(),
            rule: rule.into(),
            class: class.into(),
            detail,
            replay_args: self.args.to_vec_with(&[("case-seed", cs.to_string()), ("cases", "1".into())]),
            trace,
        });
    }
}

// ------------------------------------------------------------------------------------------------
// C13 unbuffered: one datagram per emit, exact bytes, exact destination, truthful result
// ------------------------------------------------------------------------------------------------


/// An address list whose FIRST entry is of the other address family than the socket (an IPv6 address for an IPv4
/// socket or the other way round) and whose second entry the socket could reach: the sink was given a list, the first
/// address is the destination - every datagram is addressed to it (the socket refuses: that is the socket's answer, and
/// the caller gets it), nothing goes to the second one.
fn case_mixed_family(cx: &mut Cx, cs: u64) {
    let mut r = Rng::new(cs ^ 0xFA41);
    if UdpSocket::bind("[::1]:0").is_err() {
        return;
    }
    let sock_v6 = r.chance(1, 2);
    let (sock_lo, other_lo) = if sock_v6 { ("[::1]:0", "127.0.0.1:0") } else { ("127.0.0.1:0", "[::1]:0") };
    let first_recv = UdpSocket::bind(other_lo).unwrap();
    let second_recv = UdpSocket::bind(sock_lo).unwrap();
    first_recv.set_nonblocking(true).unwrap();
    second_recv.set_nonblocking(true).unwrap();
    let list: Vec<SocketAddr> = vec![first_recv.local_addr().unwrap(), second_recv.local_addr().unwrap()];
    let sock = UdpSocket::bind(sock_lo).unwrap();
    let fd = sock.as_raw_fd();
    let buffered = r.chance(1, 2);
    let cap = *r.pick(&[16usize, 64, 512]);
    let sink: Box<dyn MetricSink> = if buffered {
        match r.below(2) {
            0 => Box::new(BufferedUdpMetricSink::with_capacity(&list[..], sock, cap).expect("BufferedUdpMetricSink::with_capacity")),
            _ => Box::new(BufferedUdpMetricSink::from(&list[..], sock).expect("BufferedUdpMetricSink::from")),
        }
    } else {
        Box::new(UdpMetricSink::from(&list[..], sock).expect("UdpMetricSink::from"))
    };
    let label = if buffered { "BufferedUdpMetricSink(mixed-family list)" } else { "UdpMetricSink(mixed-family list)" };
    cx.rep.eval();
    cx.rep.obs("address_lists_whose_first_entry_is_of_the_other_family", 1);
    let mark = interpose::mark();
    let n = r.range(3, 12) as usize;
    let mut results = Vec::new();
    for k in 0..n {
        let m = format!("mixed.n{}:{}|c", k, r.below(1000));
        results.push((m.clone(), panics::guard(|| sink.emit(&m))));
    }
    let _ = panics::guard(|| sink.flush());
    let recs: Vec<interpose::Rec> = interpose::since(mark).into_iter().filter(|x| x.fd == fd).collect();
    let trace = jobj! {"sink" => label, "socket" => sock_lo, "address_list" => format!("{:?}", list),
        "sendto_calls" => Json::Arr(recs.iter().map(|x| jobj!{"len" => x.payload.len(), "result" => x.result as i64, "errno" => x.errno, "dest" => format!("{:?}", decode_dest_inet(&x.dest))}).collect())};
    if let Some(x) = recs.iter().find(|x| decode_dest_inet(&x.dest) != Some(list[0])) {
        cx.violation("C13", "destination", "wrong-destination", format!("{}: the sink was built from {:?} on a socket bound to {}; a datagram was addressed to {:?}, not to the first address", label, list, sock_lo, decode_dest_inet(&x.dest)), trace.clone(), cs);
        return;
    }
    let mut buf = [0u8; 2048];
    if second_recv.recv(&mut buf).is_ok() {
        cx.violation("C13", "destination", "decoy-received", format!("{}: a datagram arrived at the SECOND address of the list {:?}", label, list), trace.clone(), cs);
        return;
    }
    if !buffered {
        if recs.len() != n {
            cx.violation("C13", "one-datagram-per-emit", "sendto-count", format!("{}: {} sendto calls for {} emits", label, recs.len(), n), trace.clone(), cs);
            return;
        }
        for ((m, res), rec) in results.iter().zip(recs.iter()) {
            let ok = match (res, rec.result) {
                (Ok(Ok(nb)), sent) if sent >= 0 => *nb as isize == sent,
                (Ok(Err(e)), sent) if sent < 0 => e.raw_os_error() == Some(rec.errno),
                _ => false,
            };
            if !ok {
                cx.violation("C13", "returns-bytes-sent", "result-contradicts-socket", format!("{}: emit({:?}) returned {:?} but sendto returned {} (errno {})", label, m, res, rec.result, rec.errno), trace.clone(), cs);
                return;
            }
        }
    } else if recs.is_empty() {
        cx.violation("C13", "one-datagram-per-emit", "sendto-count", format!("{}: {} emits and a flush made no sendto call at all", label, n), trace, cs);
        return;
    }
    cx.rep.obs("kernel_socket_errors_checked", recs.iter().filter(|x| x.result < 0).count() as u64);
    cx.rep.distinct(&format!("mixed|{}|{}|{}", sock_v6, buffered, cap));
}

/// Destinations of unusual kinds: port 0, an IPv6 address with a zone (link-local `fe80::1%1`) or a flow label, the
/// unspecified address (on Linux: "the address this socket is bound to") from a socket bound to 127.0.0.2, broadcast
/// addresses (refused with EACCES unless the socket allows broadcasts), an IPv4-mapped IPv6 address. Whatever the kernel
/// makes of them is the socket's answer and the caller's: exactly one sendto per emit, addressed - byte for byte of the
/// socket address, as std itself encodes it for a plain `send_to` - to the address given, result passed on and counted.
fn case_port_zero(cx: &mut Cx, cs: u64) {
    let mut r = Rng::new(cs ^ 0x9021);
    let v6 = UdpSocket::bind("[::1]:0").is_ok();
    let live = UdpSocket::bind("127.0.0.2:0").ok();
    let live_port = live.as_ref().and_then(|s| s.local_addr().ok()).map(|a| a.port()).unwrap_or(9);
    let mut kinds: Vec<(&str, String, &str)> = vec![
        ("port 0", "127.0.0.1:0".into(), "127.0.0.1:0"),
        ("unspecified address from a socket bound to 127.0.0.2", format!("0.0.0.0:{}", live_port), "127.0.0.2:0"),
        ("loopback broadcast", "127.255.255.255:9".into(), "127.0.0.1:0"),
        ("limited broadcast", "255.255.255.255:9".into(), "0.0.0.0:0"),
    ];
    if v6 {
        kinds.push(("port 0 (IPv6)", "[::1]:0".into(), "[::1]:0"));
        kinds.push(("link-local address with a zone", "[fe80::1%1]:8125".into(), "[::]:0"));
        kinds.push(("IPv4-mapped IPv6 address", "[::ffff:127.0.0.1]:9".into(), "[::]:0"));
        kinds.push(("unspecified IPv6 address", "[::]:9".into(), "[::1]:0"));
    }
    let (kind, dest_s, bind_s) = kinds[r.usize_below(kinds.len())].clone();
    let mut dest: SocketAddr = match dest_s.parse() {
        Ok(d) => d,
        Err(_) => return,
    };
    if let (SocketAddr::V6(d6), true) = (&mut dest, r.chance(1, 3)) {
        d6.set_flowinfo(0x000A_BCDE);
    }
    // how std encodes this destination for the kernel: a plain send_to through the same interposer
    let reference: Vec<u8> = {
        let probe = match UdpSocket::bind(bind_s) {
            Ok(p) => p,
            Err(_) => return,
        };
        let pfd = probe.as_raw_fd();
        let m = interpose::mark();
        let _ = probe.send_to(b"", dest);
        match interpose::since(m).into_iter().find(|x| x.fd == pfd) {
            Some(x) => x.dest,
            None => return,
        }
    };
    let sock = match UdpSocket::bind(bind_s) {
        Ok(s) => s,
        Err(_) => return,
    };
    let fd = sock.as_raw_fd();
    let buffered = r.chance(1, 2);
    let sink: Box<dyn MetricSink> = if buffered { Box::new(BufferedUdpMetricSink::with_capacity(dest, sock, 32).expect("with_capacity")) } else { Box::new(UdpMetricSink::from(dest, sock).expect("from")) };
    let label = format!("{}({})", if buffered { "BufferedUdpMetricSink" } else { "UdpMetricSink" }, kind);
    cx.rep.eval();
    cx.rep.obs("udp_sinks_addressed_to_port_0", if kind.starts_with("port 0") { 1 } else { 0 });
    cx.rep.obs("udp_sinks_addressed_to_an_unusual_kind_of_destination", 1);
    let mark = interpose::mark();
    let mut results = Vec::new();
    for k in 0..r.range(2, 8) {
        let m = format!("odd.n{}:{}|c", k, r.below(1000));
        results.push((m.clone(), panics::guard(|| sink.emit(&m))));
    }
    let _ = panics::guard(|| sink.flush());
    let stats = sink.stats();
    let recs: Vec<interpose::Rec> = interpose::since(mark).into_iter().filter(|x| x.fd == fd).collect();
    let trace = jobj! {"sink" => label.as_str(), "destination" => dest.to_string(), "socket_bound_to" => bind_s,
        "sendto_calls" => Json::Arr(recs.iter().map(|x| jobj!{"len" => x.payload.len(), "result" => x.result as i64, "errno" => x.errno, "dest" => format!("{:?}", decode_dest_inet(&x.dest)), "sockaddr" => format!("{:02x?}", x.dest)}).collect())};
    if let Some(x) = recs.iter().find(|x| x.dest != reference) {
        cx.violation("C13", "destination", "wrong-destination", format!("{}: the sink was built for {} (socket address {:02x?}), a datagram was addressed to {:?} (socket address {:02x?})", label, dest, reference, decode_dest_inet(&x.dest), x.dest), trace, cs);
        return;
    }
    if recs.is_empty() {
        cx.violation("C13", "one-datagram-per-emit", "sendto-count", format!("{}: emits and a flush made no sendto call", label), trace, cs);
        return;
    }
    if !buffered {
        if recs.len() != results.len() {
            cx.violation("C13", "one-datagram-per-emit", "sendto-count", format!("{}: {} sendto calls for {} emits", label, recs.len(), results.len()), trace, cs);
            return;
        }
        for ((m, res), rec) in results.iter().zip(recs.iter()) {
            let ok = match (res, rec.result) {
                (Ok(Ok(nb)), sent) if sent >= 0 => *nb as isize == sent,
                (Ok(Err(e)), sent) if sent < 0 => e.raw_os_error() == Some(rec.errno),
                _ => false,
            };
            if !ok {
                cx.violation("C13", "returns-bytes-sent", "result-contradicts-socket", format!("{}: emit({:?}) returned {:?} but sendto returned {} (errno {})", label, m, res, rec.result, rec.errno), trace, cs);
                return;
            }
        }
    }
    // C14: every attempt is accounted for by its own result
    let (ok_n, ok_b) = recs.iter().filter(|x| x.result >= 0).fold((0u64, 0u64), |a, x| (a.0 + 1, a.1 + x.result as u64));
    let (bad_n, bad_b) = recs.iter().filter(|x| x.result < 0).fold((0u64, 0u64), |a, x| (a.0 + 1, a.1 + x.payload.len() as u64));
    if (stats.packets_sent, stats.bytes_sent, stats.packets_dropped, stats.bytes_dropped) != (ok_n, ok_b, bad_n, bad_b) {
        cx.violation("C14", "packets-add-up", "sent-dropped-split", format!("{}: stats() = {:?} but the socket accepted {} datagrams / {} bytes and refused {} / {}", label, stats, ok_n, ok_b, bad_n, bad_b), trace, cs);
        return;
    }
    cx.rep.obs("kernel_socket_errors_checked", bad_n);
    cx.rep.distinct(&format!("odd-dest|{}|{}", kind, buffered));
    drop(live);
}

/// A blocking Unix socket with a SEND TIMEOUT (the caller set it, as the sink's documentation allows) and a server whose
/// receive queue is full: after the timeout the kernel says EAGAIN, and that - kind, OS code and all - is what the caller
/// gets; accepted datagrams are exactly the metric bytes.
fn case_send_timeout(cx: &mut Cx, cs: u64) {
    let mut r = Rng::new(cs ^ 0x71E0);
    let dir = fresh_dir();
    let path = dir.join("slow.sock");
    let server = match UnixDatagram::bind(&path) {
        Ok(s) => s,
        Err(_) => return,
    };
    let sock = UnixDatagram::unbound().unwrap();
    sock.set_write_timeout(Some(Duration::from_millis(15))).unwrap();
    let fd = sock.as_raw_fd();
    let buffered = r.chance(1, 2);
    let sink: Box<dyn MetricSink> = if buffered { Box::new(BufferedUnixMetricSink::with_capacity(&path, sock, 8)) } else { Box::new(UnixMetricSink::from(&path, sock)) };
    let label = if buffered { "BufferedUnixMetricSink(send timeout, full queue)" } else { "UnixMetricSink(send timeout, full queue)" };
    cx.rep.eval();
    cx.rep.obs("unix_sinks_on_a_socket_with_a_send_timeout_and_a_server_that_does_not_read", 1);
    let n = 15;
    for k in 0..n {
        let m = format!("timeout.n{}:{}|c", k, r.below(1000));
        let mark = interpose::mark();
        let res = panics::guard(|| sink.emit(&m));
        let recs: Vec<interpose::Rec> = interpose::since(mark).into_iter().filter(|x| x.fd == fd).collect();
        let trace = jobj! {"sink" => label, "emit#" => k, "result" => format!("{:?}", res), "sendto_calls" => Json::Arr(recs.iter().map(|x| jobj!{"len" => x.payload.len(), "result" => x.result as i64, "errno" => x.errno}).collect())};
        let res = match res {
            Ok(x) => x,
            Err(p) => {
                cx.violation("C13", "no-panic", "emit-panicked", p, trace, cs);
                break;
            }
        };
        // the call's answer is the answer of the last send attempt it made (the buffered sink makes one when a line does not fit)
        match (recs.last(), &res) {
            (Some(rec), Err(e)) if rec.result < 0 => {
                if e.raw_os_error() != Some(rec.errno) {
                    cx.violation("C13", "returns-socket-error", "wrong-error", format!("{}: the socket failed with errno {} but emit returned {:?} (kind {:?}, OS code {:?})", label, rec.errno, e.to_string(), e.kind(), e.raw_os_error()), trace, cs);
                    break;
                }
                cx.rep.obs("kernel_socket_errors_checked", 1);
            }
            (Some(rec), Ok(_)) if rec.result < 0 => {
                cx.violation("C13", "returns-bytes-sent", "result-contradicts-socket", format!("{}: emit returned Ok although its send attempt failed with errno {}", label, rec.errno), trace, cs);
                break;
            }
            (_, Err(e)) if recs.iter().all(|x| x.result >= 0) => {
                cx.violation("C13", "returns-socket-error", "spurious-error", format!("{}: emit returned {:?} although no send attempt of this call failed", label, e.to_string()), trace, cs);
                break;
            }
            _ => {}
        }
    }
    cx.rep.distinct(&format!("send-timeout|{}", buffered));
    drop(sink);
    drop(server);
    let _ = std::fs::remove_dir_all(dir);
}

fn case_unbuffered(cx: &mut Cx, cs: u64) {
    let mut r = Rng::new(cs);
    let udp = r.chance(1, 2);
    let nonblocking = r.chance(1, 2);
    let relative = !udp && r.chance(1, 3);
    let dir = if relative { deep_dir() } else { fresh_dir() };
    let old_cwd = std::env::current_dir().ok();
    if relative {
        std::env::set_current_dir(&dir).expect("chdir into the run dir");
        cx.rep.obs("unix_sinks_addressed_by_relative_path", 1);
    }
    let dir_abs = dir.clone();
    let dir = if relative { PathBuf::from(".") } else { dir };
    let n = r.range(5, 40) as usize;
    cx.rep.eval();
    // receivers: the addressed one and a decoy that must stay empty
    let lo = loopback(&mut r);
    if lo.starts_with('[') {
        cx.rep.obs("ipv6_loopback_cases", 1);
    }
    let udp_recv = UdpSocket::bind(lo).unwrap();
    let udp_decoy = UdpSocket::bind(lo).unwrap();
    udp_recv.set_read_timeout(Some(Duration::from_millis(500))).unwrap();
    udp_decoy.set_nonblocking(true).unwrap();
    let unix_path = sock_path(&mut r, &dir, relative);
    if unix_path.as_os_str().as_encoded_bytes().first().map(|b| !b.is_ascii_alphanumeric() && *b != b'/' && *b != b'.').unwrap_or(false) {
        cx.rep.obs("unix_socket_paths_starting_with_a_special_byte", 1);
    }
    let unix_decoy_path = dir.join("decoy.sock");
    // what sits at the sink's path: usually a datagram server; in a sixth of the Unix cases something a datagram cannot
    // be sent to (a stream listener, a regular file, a socket file nobody listens on, nothing). The sink still makes
    // exactly its one sendto per emit and hands back the socket's error - no other transport, no other socket.
    let alt_server = if !udp && r.chance(1, 6) { Some(r.below(4)) } else { None };
    let mut stream_listener: Option<std::os::unix::net::UnixListener> = None;
    // ... and in another sixth the path is a symbolic link to the server's socket (statsd.sock -> agent-v1.sock): the sink
    // keeps sending to the path it was given, link and all - the address on every datagram is that path
    let via_symlink = !udp && alt_server.is_none() && r.chance(1, 6);
    let recv_path = if alt_server.is_some() { dir.join("dgram-unused.sock") } else if via_symlink { dir.join("real-target.sock") } else { unix_path.clone() };
    match alt_server {
        Some(0) => {
            let l = std::os::unix::net::UnixListener::bind(&unix_path).unwrap();
            l.set_nonblocking(true).unwrap();
            stream_listener = Some(l);
            cx.rep.obs("unix_sinks_whose_path_is_a_stream_listener", 1);
        }
        Some(1) => {
            std::fs::write(&unix_path, b"not a socket").unwrap();
            cx.rep.obs("unix_sinks_whose_path_is_a_regular_file", 1);
        }
        Some(2) => {
            drop(UnixDatagram::bind(&unix_path).unwrap());
            cx.rep.obs("unix_sinks_whose_path_is_a_dead_socket", 1);
        }
        Some(_) => cx.rep.obs("unix_sinks_whose_path_does_not_exist", 1),
        None => {}
    }
    let unix_recv = UnixDatagram::bind(&recv_path).unwrap();
    if via_symlink {
        std::os::unix::fs::symlink("real-target.sock", &unix_path).unwrap();
        cx.rep.obs("unix_sinks_whose_path_is_a_symbolic_link_to_the_servers_socket", 1);
    }
    let unix_decoy = UnixDatagram::bind(&unix_decoy_path).unwrap();
    unix_recv.set_read_timeout(Some(Duration::from_millis(500))).unwrap();
    unix_decoy.set_nonblocking(true).unwrap();
    let target_addr = udp_recv.local_addr().unwrap();
    let decoy_addr = udp_decoy.local_addr().unwrap();
    // the address argument resolves to several addresses: the FIRST must be used
    let multi: Vec<SocketAddr> = vec![target_addr, decoy_addr];
    let connected_elsewhere = r.chance(1, 5);
    let sink: Box<dyn MetricSink>;
    let fd;
    let probe;
    let label;
    if udp {
        let sock = UdpSocket::bind(lo).unwrap();
        sock.set_nonblocking(nonblocking).unwrap();
        if connected_elsewhere {
            // the caller's socket happens to be connect()ed to some other peer: the sink still sends to ITS address
            sock.connect(decoy_addr).unwrap();
            cx.rep.obs("sinks_given_a_socket_connected_to_another_peer", 1);
        }
        fd = sock.as_raw_fd();
        probe = ModeProbe::new(fd);
        let made = if r.chance(1, 2) { UdpMetricSink::from(&multi[..], sock) } else { UdpMetricSink::from(target_addr, sock) };
        sink = Box::new(made.expect("UdpMetricSink::from"));
        label = "UdpMetricSink";
    } else {
        let sock = UnixDatagram::unbound().unwrap();
        sock.set_nonblocking(nonblocking).unwrap();
        if connected_elsewhere {
            sock.connect(&unix_decoy_path).unwrap();
            cx.rep.obs("sinks_given_a_socket_connected_to_another_peer", 1);
        }
        fd = sock.as_raw_fd();
        probe = ModeProbe::new(fd);
        sink = Box::new(UnixMetricSink::from(&unix_path, sock));
        label = "UnixMetricSink";
    }
    cx.rep.obs("socket_mode_probes", 1);
    if let Some(d) = probe.changed() {
        cx.rep.obs("socket_mode_changes_seen", 1);
        cx.violation("C13", "socket-left-as-configured", "socket-mode-changed", format!("[{}] after constructing the sink: {}", label, d), jobj! {"sink" => label}, cs);
    }
    let mut buf = vec![0u8; 70000];
    for k in 0..n {
        let len = match r.below(14) {
            0 => 0,
            1 => 1,
            2 => 1472,
            3 => 1473,
            4 => 65507,
            5 => 65508,
            6 => r.range(8000, 60000) as usize,
            _ => r.range(2, 600) as usize,
        };
        let metric = rand_metric(&mut r, len);
        let scripted = if r.chance(1, 10) { Some(*r.pick(&[EAGAIN, ENOBUFS, ECONNREFUSED, EPERM, ENETUNREACH])) } else { None };
        if let Some(e) = scripted {
            interpose::push_script(Some(e));
        }
        let mark = interpose::mark();
        let res = panics::guard(|| sink.emit(&metric));
        interpose::clear_script();
        let recs: Vec<interpose::Rec> = interpose::since(mark).into_iter().filter(|x| x.fd == fd).collect();
        let res_text = format!("{:?}", res);
        let trace = |extra: &str| -> Json {
            jobj! {"sink" => label, "nonblocking" => nonblocking, "emit#" => k, "metric_len" => metric.len(), "metric" => cvh::json::clip(&metric, 120),
                   "scripted_errno" => scripted.map(|e| e as i64), "result" => res_text.as_str(),
                   "sendto_calls" => Json::Arr(recs.iter().map(|x| jobj!{"len" => x.payload.len(), "result" => x.result as i64, "errno" => x.errno, "dest" => format!("{:?}", decode_dest_inet(&x.dest).map(|a| a.to_string()).or(decode_dest_unix(&x.dest).map(|p| p.display().to_string())))}).collect()),
                   "note" => extra}
        };
        cx.rep.obs("unbuffered_emits_checked", 1);
        let res = match res {
            Ok(x) => x,
            Err(p) => {
                cx.violation("C13", "no-panic", "emit-panicked", p, trace("panic"), cs);
                break;
            }
        };
        if recs.len() != 1 {
            cx.violation("C13", "one-datagram-per-emit", "sendto-count", format!("{}: {} sendto calls for one emit", label, recs.len()), trace(""), cs);
            break;
        }
        let rec = &recs[0];
        if rec.payload != metric.as_bytes() {
            cx.violation("C13", "payload-is-metric-bytes", "payload-differs", format!("{}: payload {:?} differs from the metric's UTF-8 bytes", label, clip_bytes(&rec.payload, 80)), trace(""), cs);
            break;
        }
        let dest_ok = if udp { decode_dest_inet(&rec.dest) == Some(target_addr) } else { decode_dest_unix(&rec.dest).as_deref() == Some(unix_path.as_path()) };
        if !dest_ok {
            cx.violation("C13", "destination", "wrong-destination", format!("{}: datagram addressed to {:?}/{:?}", label, decode_dest_inet(&rec.dest), decode_dest_unix(&rec.dest)), trace(""), cs);
            break;
        }
        match (&res, rec.result) {
            (Ok(nb), sent) if sent >= 0 => {
                if *nb as isize != sent {
                    cx.violation("C13", "returns-bytes-sent", "wrong-return", format!("{}: emit returned Ok({}) but the socket sent {}", label, nb, sent), trace(""), cs);
                    break;
                }
                // the datagram arrives, whole, on the addressed socket
                let got = if udp { udp_recv.recv(&mut buf) } else { unix_recv.recv(&mut buf) };
                match got {
                    Ok(g) if buf[..g] == *metric.as_bytes() => cx.rep.obs("datagrams_received_and_compared", 1),
                    Ok(g) => {
                        cx.violation("C13", "payload-is-metric-bytes", "received-differs", format!("{}: received {} bytes differing from the metric", label, g), trace(""), cs);
                        break;
                    }
                    Err(e) => {
                        cx.rep.inconclusive(format!("loop-back receive failed after an accepted sendto: {}", e));
                        break;
                    }
                }
            }
            (Err(e), sent) if sent < 0 => {
                if e.raw_os_error() != Some(rec.errno) {
                    cx.violation("C13", "returns-socket-error", "wrong-error", format!("{}: socket failed with errno {} but emit returned {:?}", label, rec.errno, e), trace(""), cs);
                    break;
                }
                cx.rep.obs(if rec.scripted { "scripted_socket_errors_checked" } else { "kernel_socket_errors_checked" }, 1);
            }
            (a, b) => {
                cx.violation("C13", "returns-bytes-sent", "result-contradicts-socket", format!("{}: emit returned {:?} but sendto returned {}", label, a, b), trace(""), cs);
                break;
            }
        }
        // decoys stay empty
        let decoy_got = if udp { udp_decoy.recv(&mut buf).is_ok() } else { unix_decoy.recv(&mut buf).is_ok() };
        if decoy_got {
            cx.violation("C13", "destination", "decoy-received", format!("{}: a datagram arrived on a socket that was not addressed", label), trace(""), cs);
            break;
        }
        cx.rep.distinct(&format!("{}|nb{}|len{}|{}", label, nonblocking, match len { 0 => "0".into(), 1 => "1".into(), 2..=600 => "small".into(), 1472 | 1473 => len.to_string(), 65507 | 65508 => len.to_string(), _ => "big".to_string() }, match (&res, scripted) { (Ok(_), _) => "ok".to_string(), (Err(e), _) => format!("errno{:?}", e.raw_os_error()) }));
        if cx.rep.want_sample() {
            cx.rep.sample(|| trace("sample"));
        }
    }
    // address resolution: none => InvalidInput
    if udp && r.chance(1, 3) {
        let empty: Vec<SocketAddr> = vec![];
        let sock = UdpSocket::bind("127.0.0.1:0").unwrap();
        match panics::guard(|| UdpMetricSink::from(&empty[..], sock)) {
            Ok(Err(e)) if e.kind() == cadence::ErrorKind::InvalidInput => cx.rep.obs("empty_address_list_rejected", 1),
            other => cx.violation("C13", "destination", "empty-address-list", format!("constructing a sink from an empty address list gave {:?}", other.map(|r| r.map(|_| "a sink").map_err(|e| e.to_string()))), Json::Null, cs),
        }
    }
    drop(sink);
    if let Some(d) = probe.changed() {
        cx.rep.obs("socket_mode_changes_seen", 1);
        cx.violation("C13", "socket-left-as-configured", "socket-mode-changed", format!("[{}] after the sink was dropped: {}", label, d), jobj! {"sink" => label}, cs);
    }
    if let Some(l) = &stream_listener {
        match l.accept() {
            Err(e) if e.kind() == std::io::ErrorKind::WouldBlock => cx.rep.obs("stream_listeners_left_alone", 1),
            other => cx.violation("C13", "one-datagram-per-emit", "other-transport", format!("[{}] a stream listener bound at the sink's path was connected to: {:?}", label, other.map(|_| "connection")), jobj! {"sink" => label}, cs),
        }
    }
    if !udp && alt_server.is_none() {
        cx.rep.obs("application_handles_used_after_the_sink_was_dropped", 1);
        if let Some(d) = probe.still_sends_unix(&unix_path) {
            cx.violation("C13", "socket-left-as-configured", "socket-shut-down", format!("[{}] after the sink was dropped: {}", label, d), jobj! {"sink" => label}, cs);
        }
    }
    if let Some(c) = old_cwd {
        let _ = std::env::set_current_dir(c);
    }
    // remove the whole run directory (the deep one is two levels below it)
    let top: PathBuf = dir_abs.components().take(4).collect();
    let _ = std::fs::remove_dir_all(top);
}

// ------------------------------------------------------------------------------------------------
// buffered sinks on real sockets: framing model over the interposer log (W3 / W4)
// ------------------------------------------------------------------------------------------------

fn case_buffered(cx: &mut Cx, cs: u64) {
    let mut r = Rng::new(cs);
    let udp = r.chance(1, 2);
    let faults = cx.prop == "C07" || (cx.prop == "C14" && r.chance(1, 2));
    let default_cap = r.chance(1, 5);
    // capacities above what one datagram can carry are legal too (UDP: 65507 bytes; the kernel then refuses with EMSGSIZE)
    // a destination on another host (documentation networks; this sandbox cannot reach it, the interposer answers for the
    // kernel): how a sink packs does not depend on where the datagrams go
    let remote = udp && !faults && !default_cap && r.chance(1, 5);
    let cap = if remote { *r.pick(&[1433usize, 1500, 2000, 4000, 9000, 1233, 1400]) } else if default_cap { 512 } else if r.chance(1, 6) { *r.pick(&[66000usize, 70000, 100000]) } else { *r.pick(&[0usize, 1, 8, 40, 100, 512, 1432, 9000]) };
    let relative = !udp && r.chance(1, 4);
    let dir = fresh_dir();
    let old_cwd = std::env::current_dir().ok();
    if relative {
        std::env::set_current_dir(&dir).expect("chdir into the run dir");
        cx.rep.obs("buffered_unix_sinks_addressed_by_relative_path", 1);
    }
    // at the end of the case: back to the old working directory, run directory removed
    struct Back(Option<PathBuf>, PathBuf);
    impl Drop for Back {
        fn drop(&mut self) {
            if let Some(d) = &self.0 {
                let _ = std::env::set_current_dir(d);
            }
            let _ = std::fs::remove_dir_all(&self.1);
        }
    }
    let _back = Back(if relative { old_cwd } else { None }, dir.clone());
    let dir = if relative { PathBuf::from(".") } else { dir };
    cx.rep.eval();
    let lo = loopback(&mut r);
    if udp && lo.starts_with('[') {
        cx.rep.obs("ipv6_loopback_cases", 1);
    }
    let lo = if remote { if lo.starts_with('[') { "[::]:0" } else { "0.0.0.0:0" } } else { lo };
    let udp_recv = UdpSocket::bind(if remote { if lo.starts_with('[') { "[::1]:0" } else { "127.0.0.1:0" } } else { lo }).unwrap();
    udp_recv.set_read_timeout(Some(Duration::from_millis(500))).unwrap();
    let udp_dest: SocketAddr = if remote {
        if lo.starts_with('[') { "[2001:db8::7]:8125".parse().unwrap() } else { (*r.pick(&["192.0.2.7:8125", "198.51.100.9:8125", "10.11.12.13:8125", "8.8.8.8:8125"])).parse().unwrap() }
    } else {
        udp_recv.local_addr().unwrap()
    };
    struct FakeOff;
    impl Drop for FakeOff {
        fn drop(&mut self) {
            interpose::FAKE_OK_FD.store(-1, Ordering::SeqCst);
        }
    }
    let _fake_off = FakeOff;
    let unix_path = sock_path(&mut r, &dir, relative);
    if unix_path.as_os_str().as_encoded_bytes().first().map(|b| !b.is_ascii_alphanumeric() && *b != b'/' && *b != b'.').unwrap_or(false) {
        cx.rep.obs("unix_socket_paths_starting_with_a_special_byte", 1);
    }
    let unix_recv = UnixDatagram::bind(&unix_path).unwrap();
    unix_recv.set_read_timeout(Some(Duration::from_millis(500))).unwrap();
    // kernel-made faults: a non-blocking Unix socket whose receiver does not read => EAGAIN once the queue is full
    let kernel_eagain = faults && !udp && r.chance(1, 2);
    let write_timeout = kernel_eagain && r.chance(1, 6);
    // slow server: an ordinary blocking Unix socket whose receiver's queue is full and drained only slowly - writes
    // wait for room, nothing fails, so everything accepted must arrive exactly once (also what is left at drop)
    let slow_server = !udp && !faults && cap <= 9000 && r.chance(1, 5);
    let slow_stop = Arc::new(std::sync::atomic::AtomicBool::new(false));
    let slow_got: Arc<Mutex<Vec<Vec<u8>>>> = Arc::new(Mutex::new(Vec::new()));
    let mut slow_thread = None;
    let mut slow_fillers: Vec<UnixDatagram> = Vec::new();
    if slow_server {
        'fill: for _ in 0..4096 {
            let f = UnixDatagram::unbound().unwrap();
            f.set_nonblocking(true).unwrap();
            let mut n = 0;
            while f.send_to(b"filler", &unix_path).is_ok() {
                n += 1;
            }
            slow_fillers.push(f);
            if n == 0 {
                break 'fill;
            }
        }
        let rx = unix_recv.try_clone().unwrap();
        let (stop, got) = (slow_stop.clone(), slow_got.clone());
        let mut sr = Rng::new(cs ^ 0x510);
        slow_thread = Some(std::thread::spawn(move || {
            rx.set_read_timeout(Some(Duration::from_millis(30))).unwrap();
            let mut b = vec![0u8; 220000];
            loop {
                let stopping = stop.load(Ordering::SeqCst);
                match rx.recv(&mut b) {
                    Ok(n) => {
                        if &b[..n] != b"filler" {
                            got.lock().unwrap().push(b[..n].to_vec());
                        }
                        if !stopping && sr.chance(1, 2) {
                            std::thread::sleep(Duration::from_micros(sr.range(50, 1500)));
                        }
                    }
                    Err(_) => {
                        if stopping {
                            break;
                        }
                    }
                }
            }
        }));
    }
    let sink: Box<dyn MetricSink>;
    let fd;
    let probe;
    let label;
    if udp {
        let sock = UdpSocket::bind(lo).unwrap();
        fd = sock.as_raw_fd();
        probe = ModeProbe::new(fd);
        if remote {
            interpose::FAKE_OK_FD.store(fd, Ordering::SeqCst);
            cx.rep.obs("buffered_udp_sinks_sending_to_another_host", 1);
        }
        sink = Box::new(if default_cap { BufferedUdpMetricSink::from(udp_dest, sock).unwrap() } else { BufferedUdpMetricSink::with_capacity(udp_dest, sock, cap).unwrap() });
        label = if default_cap { "W3-udp-default-capacity" } else { "W3-udp" };
    } else {
        let sock = UnixDatagram::unbound().unwrap();
        if kernel_eagain {
            if write_timeout {
                // a BLOCKING socket with a short send timeout: a full receive queue then shows as EAGAIN after 20 ms
                sock.set_write_timeout(Some(Duration::from_millis(20))).unwrap();
                cx.rep.obs("blocking_unix_sockets_with_a_send_timeout_and_a_full_receive_queue", 1);
            } else {
                sock.set_nonblocking(true).unwrap();
            }
        }
        fd = sock.as_raw_fd();
        probe = ModeProbe::new(fd);
        sink = Box::new(if default_cap { BufferedUnixMetricSink::from(&unix_path, sock) } else { BufferedUnixMetricSink::with_capacity(&unix_path, sock, cap) });
        label = if slow_server { "W4-unix-slow-server" } else if default_cap { "W4-unix-default-capacity" } else { "W4-unix" };
    }
    cx.rep.obs("socket_mode_probes", 1);
    if let Some(d) = probe.changed() {
        cx.rep.obs("socket_mode_changes_seen", 1);
        cx.violation("C13", "socket-left-as-configured", "socket-mode-changed", format!("[{}] after constructing the sink: {}", label, d), jobj! {"sink" => label}, cs);
    }
    let nops = if write_timeout { r.range(5, 24) as usize } else { r.range(5, 70) as usize };
    let mut steps: Vec<Step> = Vec::new();
    let mut fill_hint = 0usize;
    let mut received: Vec<Vec<u8>> = Vec::new();
    let mut buf = vec![0u8; 70000];
    let mut wrong_error: Option<String> = None;
    let mut wrong_dest: Option<String> = None;
    let p_script = if faults && !kernel_eagain { *r.pick(&[50u64, 200, 500]) } else { 0 };
    for k in 0..nops {
        // receiver behaviour: drain always, except in the kernel-EAGAIN scenario where the queue is left to fill up
        if !slow_server && (!kernel_eagain || r.chance(1, 6)) {
            loop {
                if udp {
                    udp_recv.set_nonblocking(true).unwrap();
                    match udp_recv.recv(&mut buf) {
                        Ok(n) => received.push(buf[..n].to_vec()),
                        Err(_) => break,
                    }
                } else {
                    unix_recv.set_nonblocking(true).unwrap();
                    match unix_recv.recv(&mut buf) {
                        Ok(n) => received.push(buf[..n].to_vec()),
                        Err(_) => break,
                    }
                }
            }
        }
        if p_script > 0 {
            // script the next few sendto calls of this API call
            for _ in 0..3 {
                interpose::push_script(if r.below(1000) < p_script { Some(*r.pick(&[EAGAIN, ENOBUFS, ECONNREFUSED, EPERM, EINTR])) } else { None });
            }
        }
        let mark = interpose::mark();
        let (op, res, ioerr) = if r.chance(1, 12) {
            // a telemetry query must not write
            let _ = panics::guard(|| sink.stats());
            (Op::Query, Res::OkUnit, None)
        } else if r.chance(1, 8) {
            fill_hint = 0;
            let x = panics::guard(|| sink.flush());
            let e = if let Ok(Err(e)) = &x { e.raw_os_error() } else { None };
            (Op::Flush, match x { Ok(Ok(())) => Res::OkUnit, Ok(Err(_)) => Res::Err(None), Err(p) => Res::Panicked(p) }, e)
        } else {
            let room = cap.saturating_sub(fill_hint);
            let len = match r.below(10) {
                0 => 0,
                1 => room.saturating_sub(1),
                2 => room.saturating_sub(2),
                3 => room,
                4 => cap.saturating_sub(1),
                5 => cap,
                6 => cap + r.range(1, 50) as usize,
                _ => r.range(0, (cap / 3).max(3) as u64) as usize,
            }
            .min(if udp { 90000 } else { 150000 });
            let req = len + 1;
            if req <= cap {
                if req > cap - fill_hint.min(cap) {
                    fill_hint = 0;
                }
                fill_hint += req;
            }
            // every third metric carries 2-byte characters (byte length != char count)
            let m = if k % 3 == 0 && len >= 8 {
                let mut s = format!("m{}.", k);
                while s.len() + 2 <= len {
                    s.push('é');
                }
                while s.len() < len {
                    s.push('q');
                }
                s
            } else {
                let mut s = format!("m{}.{}", k, "q".repeat(len)).chars().take(len).collect::<String>();
                // the metric's own bytes may end with / contain the terminator
                if len >= 1 && r.chance(1, 8) {
                    let at = if r.chance(1, 2) { len - 1 } else { r.usize_below(len) };
                    s.replace_range(at..at + 1, "\n");
                }
                s
            };
            let x = panics::guard(|| sink.emit(&m));
            let e = if let Ok(Err(e)) = &x { e.raw_os_error() } else { None };
            (Op::Emit(m.into_bytes()), match x { Ok(Ok(n)) => Res::OkN(n), Ok(Err(_)) => Res::Err(None), Err(p) => Res::Panicked(p) }, e)
        };
        interpose::clear_script();
        let recs: Vec<interpose::Rec> = interpose::since(mark).into_iter().filter(|x| x.fd == fd).collect();
        let attempts: Vec<Attempt> = recs
            .iter()
            .map(|x| Attempt { bytes: Some(x.payload.clone()), out: if x.result >= 0 { AOut::Ok } else if x.errno == EINTR { AOut::Interrupted(x.seq) } else { AOut::Failed(x.seq) } })
            .collect();
        // every datagram of the sink goes to the address / path it was constructed with
        for x in &recs {
            let ok = if udp { decode_dest_inet(&x.dest) == Some(udp_dest) } else { decode_dest_unix(&x.dest).as_deref() == Some(unix_path.as_path()) };
            if !ok && wrong_dest.is_none() {
                wrong_dest = Some(format!("call #{}: datagram addressed to {:?}/{:?}", k, decode_dest_inet(&x.dest), decode_dest_unix(&x.dest)));
            }
        }
        // the error handed back must be the socket's own error
        if let (Res::Err(_), Some(last)) = (&res, recs.iter().rev().find(|x| x.result < 0)) {
            if ioerr != Some(last.errno) {
                wrong_error = Some(format!("call #{} returned os error {:?} but the failing sendto had errno {}", k, ioerr, last.errno));
            }
            cx.rep.obs(if last.scripted { "scripted_socket_errors_checked" } else { "kernel_socket_errors_checked" }, 1);
        }
        let panicked = matches!(res, Res::Panicked(_));
        steps.push(Step { op, attempts, res });
        if panicked {
            break;
        }
    }
    // drop: what remains is sent
    let mark = interpose::mark();
    let dr = panics::guard(move || drop(sink));
    let recs: Vec<interpose::Rec> = interpose::since(mark).into_iter().filter(|x| x.fd == fd).collect();
    let attempts: Vec<Attempt> = recs.iter().map(|x| Attempt { bytes: Some(x.payload.clone()), out: if x.result >= 0 { AOut::Ok } else if x.errno == EINTR { AOut::Interrupted(x.seq) } else { AOut::Failed(x.seq) } }).collect();
    steps.push(Step { op: Op::Drop, attempts, res: if let Err(p) = dr { Res::Panicked(p) } else { Res::Dropped } });
    if let Some(d) = probe.changed() {
        cx.rep.obs("socket_mode_changes_seen", 1);
        cx.violation("C13", "socket-left-as-configured", "socket-mode-changed", format!("[{}] after the sink was dropped: {}", label, d), jobj! {"sink" => label}, cs);
    }
    // the application's own handle of the socket (a dup made before the hand-over) still sends once the sink is gone
    if !udp && !kernel_eagain && !slow_server {
        cx.rep.obs("application_handles_used_after_the_sink_was_dropped", 1);
        if let Some(d) = probe.still_sends_unix(&unix_path) {
            cx.violation("C13", "socket-left-as-configured", "socket-shut-down", format!("[{}] after the sink was dropped: {}", label, d), jobj! {"sink" => label}, cs);
        }
    }
    if let Some(t) = slow_thread.take() {
        slow_stop.store(true, Ordering::SeqCst);
        let _ = t.join();
        drop(slow_fillers);
        // end-to-end oracle of this scenario: no send may have failed, and the server has received every datagram once, in order
        // (what each send has to carry is the framing model's business below; here: every send succeeded and arrived)
        let expect: Vec<u8> = steps.iter().flat_map(|s| s.attempts.iter()).filter(|a| matches!(a.out, AOut::Ok)).flat_map(|a| a.bytes.clone().unwrap_or_default()).collect();
        let got: Vec<u8> = slow_got.lock().unwrap().iter().flatten().copied().collect();
        let failed = steps.iter().flat_map(|s| s.attempts.iter()).filter(|a| !matches!(a.out, AOut::Ok)).count();
        cx.rep.obs("slow_server_histories", 1);
        cx.rep.obs("slow_server_bytes_received", got.len() as u64);
        if cx.prop == "C06" || cx.prop == "C13" {
            if failed > 0 || got != expect {
                let hist: Vec<Json> = steps
                    .iter()
                    .map(|s| jobj! {"op" => match &s.op { Op::Emit(m) => format!("emit({} bytes)", m.len()), Op::Flush => "flush".into(), Op::Drop => "drop".into(), Op::Query => "stats".into() },
                    "sendto" => Json::Arr(s.attempts.iter().map(|a| Json::Str(format!("{:?} -> {:?}", a.bytes.as_ref().map(|b| clip_bytes(b, 50)), a.out))).collect()), "result" => format!("{:?}", s.res)})
                    .collect();
                cx.violation(
                    if cx.prop == "C13" { "C13" } else { "C06" },
                    "F2",
                    "slow-server-loss",
                    format!("[{} cap={}] blocking socket, slow but live server: {} send attempts failed; server received {} bytes, {} were sent", label, cap, failed, got.len(), expect.len()),
                    jobj! {"embodiment" => label, "capacity" => cap, "history" => Json::Arr(hist)},
                    cs,
                );
                return;
            }
        }
    }
    // ---- judge ----
    let mut ck = FrameChecker::new(cap, b"\n");
    ck.tolerate_f4 = cx.prop == "C07";
    let mut sig = String::new();
    let hist = |steps: &[Step]| -> Json {
        Json::Arr(
            steps
                .iter()
                .map(|s| {
                    jobj! {"op" => match &s.op { Op::Emit(m) => format!("emit({} bytes)", m.len()), Op::Flush => "flush".into(), Op::Drop => "drop".into(), Op::Query => "stats".into() },
                    "sendto" => Json::Arr(s.attempts.iter().map(|a| Json::Str(format!("{:?} -> {:?}", a.bytes.as_ref().map(|b| clip_bytes(b, 50)), a.out))).collect()),
                    "result" => format!("{:?}", s.res)}
                })
                .collect(),
        )
    };
    let mut violated = false;
    for s in &steps {
        match ck.step(s) {
            Ok(o) => sig.push(o.code()),
            Err(v) => {
                violated = true;
                let target: Option<&str> = if cx.prop == "C13" {
                    // C13: datagrams of the C05 form with a single newline; leftovers sent on flush / drop
                    if !v.after_fault && (v.rule == "F1" || (v.rule == "F2" && matches!(v.class, "flush-left-data" | "lost-at-drop"))) { Some("C13") } else { None }
                } else {
                    attribute(&v).into_iter().find(|p| *p == cx.prop)
                };
                if let Some(p) = target {
                    cx.violation(p, v.rule, v.class, format!("[{} cap={} step {}] {}", label, cap, v.step, v.detail), jobj! {"embodiment" => label, "capacity" => cap, "history" => hist(&steps)}, cs);
                } else {
                    cx.rep.obs("other_property_rule_hits", 1);
                }
                break;
            }
        }
    }
    if let Some(w) = wrong_dest {
        cx.violation("C13", "destination", "wrong-destination", format!("[{}] {}", label, w), jobj! {"history" => hist(&steps)}, cs);
    }
    if let (false, Some(w)) = (violated, wrong_error) {
        cx.violation(if cx.prop == "C13" { "C13" } else { "C07" }, "F3", "wrong-error", format!("[{}] {}", label, w), jobj! {"history" => hist(&steps)}, cs);
    }
    cx.rep.obs("socket_api_calls_checked", steps.len() as u64);
    cx.rep.obs("sendto_attempts_observed", steps.iter().map(|s| s.attempts.len() as u64).sum());
    cx.rep.obs("underlying_write_attempts", steps.iter().map(|s| s.attempts.len() as u64).sum());
    cx.rep.obs("datagrams_written", ck.datagrams as u64);
    cx.rep.obs("metrics_accepted", ck.accepted as u64);
    let capc = if cap <= 8 { cap } else if cap < 512 { 9 } else if cap == 512 { 11 } else { 12 };
    let cs_: Vec<char> = sig.chars().collect();
    let mut wins: Vec<String> = Vec::new();
    for w in cs_.windows(3) {
        if w.iter().any(|c| !matches!(c, 'b' | 'f' | 'd')) {
            let s3 = format!("{}|{}|{}{}{}", label, capc, w[0], w[1], w[2]);
            cx.rep.fine("outcome_windows_of_3_calls", &s3);
            wins.push(s3);
        }
    }
    if wins.is_empty() {
        cx.rep.trivial();
    } else {
        cx.rep.distinct_set(&format!("{}|{}", label, capc), &mut wins);
    }
    if cx.rep.want_sample() {
        cx.rep.sample(|| jobj! {"embodiment" => label, "capacity" => cap, "outcomes" => sig.as_str(), "history" => hist(&steps[..steps.len().min(6)])});
    }
    let _ = received;
}

// ------------------------------------------------------------------------------------------------
// C14: telemetry adds up
// ------------------------------------------------------------------------------------------------

fn case_stats(cx: &mut Cx, cs: u64, enum_pattern: Option<Vec<bool>>) {
    let mut r = Rng::new(cs);
    let which = r.below(5); // 0 udp, 1 unix, 2 buffered udp, 3 buffered unix, 4 a user-written buffered UDP sink made of cadence::ext parts
    let threads = if enum_pattern.is_some() { 1 } else { *r.pick(&[1usize, 1, 2, 4, 8, 16]) };
    let through_queue = r.chance(1, 3);
    let dir = fresh_dir();
    cx.rep.eval();
    let udp_recv = UdpSocket::bind("127.0.0.1:0").unwrap();
    let unix_path = dir.join("t.sock");
    let unix_recv = UnixDatagram::bind(&unix_path).unwrap();
    // receivers are drained by a thread so that blocking sends never stall
    let stop = Arc::new(std::sync::atomic::AtomicBool::new(false));
    let drain = {
        let (stop_a, stop_b) = (stop.clone(), stop.clone());
        let u = udp_recv.try_clone().unwrap();
        let x = unix_recv.try_clone().unwrap();
        u.set_read_timeout(Some(Duration::from_millis(20))).unwrap();
        x.set_read_timeout(Some(Duration::from_millis(20))).unwrap();
        let a = std::thread::spawn(move || {
            let mut b = vec![0u8; 70000];
            while !stop_a.load(Ordering::Relaxed) {
                let _ = u.recv(&mut b);
            }
        });
        let b = std::thread::spawn(move || {
            let mut b = vec![0u8; 70000];
            while !stop_b.load(Ordering::Relaxed) {
                let _ = x.recv(&mut b);
            }
        });
        (a, b)
    };
    let cap = *r.pick(&[16usize, 64, 512]);
    let fd;
    let label;
    // a quarter of the UDP cases: nobody listens at the destination, and (half of those) the caller hands over a socket
    // it has connect()ed there - the kernel then reports ECONNREFUSED for the datagram AFTER the one that bounced. What
    // was accepted stays accepted; every attempt is accounted for by its own result.
    let dead_dest: Option<SocketAddr> = if which % 2 == 0 && r.chance(1, 4) {
        let t = UdpSocket::bind("127.0.0.1:0").unwrap();
        let a = t.local_addr().unwrap();
        drop(t);
        Some(a)
    } else {
        None
    };
    let connect_first = dead_dest.is_some() && r.chance(1, 2);
    if dead_dest.is_some() {
        cx.rep.obs(if connect_first { "udp_sinks_on_a_connected_socket_with_nobody_listening" } else { "udp_sinks_with_nobody_listening" }, 1);
    }
    let udp_to: SocketAddr = dead_dest.unwrap_or_else(|| udp_recv.local_addr().unwrap());
    let base: Arc<dyn MetricSink + Send + Sync + std::panic::RefUnwindSafe> = match which {
        0 => {
            let s = UdpSocket::bind("127.0.0.1:0").unwrap();
            if connect_first {
                s.connect(udp_to).unwrap();
            }
            fd = s.as_raw_fd();
            label = "UdpMetricSink";
            // (the address argument may resolve to several addresses: only the first is ever used, so every attempt the
            // sink accounts for is exactly one sendto)
            if r.chance(1, 2) {
                let list: Vec<SocketAddr> = vec![udp_to, "127.0.0.1:9".parse().unwrap()];
                Arc::new(UdpMetricSink::from(&list[..], s).unwrap())
            } else {
                Arc::new(UdpMetricSink::from(udp_to, s).unwrap())
            }
        }
        1 => {
            let s = UnixDatagram::unbound().unwrap();
            fd = s.as_raw_fd();
            label = "UnixMetricSink";
            Arc::new(UnixMetricSink::from(&unix_path, s))
        }
        2 => {
            let s = UdpSocket::bind("127.0.0.1:0").unwrap();
            if connect_first {
                s.connect(udp_to).unwrap();
            }
            fd = s.as_raw_fd();
            label = "BufferedUdpMetricSink";
            if r.chance(1, 2) {
                let list: Vec<SocketAddr> = vec![udp_to, "127.0.0.1:9".parse().unwrap()];
                Arc::new(BufferedUdpMetricSink::with_capacity(&list[..], s, cap).unwrap())
            } else {
                Arc::new(BufferedUdpMetricSink::with_capacity(udp_to, s, cap).unwrap())
            }
        }
        3 => {
            let s = UnixDatagram::unbound().unwrap();
            fd = s.as_raw_fd();
            label = "BufferedUnixMetricSink";
            Arc::new(BufferedUnixMetricSink::with_capacity(&unix_path, s, cap))
        }
        _ => {
            // what the library's documentation shows users how to build: a sink of their own from the public parts
            // `cadence::ext::{MultiLineWriter, SocketStats}` - the write adapter counts through a CLONE of the stats
            // handle, `stats()` reads the sink's own handle
            struct Adapter {
                sock: UdpSocket,
                to: SocketAddr,
                stats: cadence::ext::SocketStats,
            }
            impl std::io::Write for Adapter {
                fn write(&mut self, b: &[u8]) -> std::io::Result<usize> {
                    self.stats.update(self.sock.send_to(b, self.to), b.len())
                }
                fn flush(&mut self) -> std::io::Result<()> {
                    Ok(())
                }
            }
            struct UserSink {
                w: std::sync::Mutex<cadence::ext::MultiLineWriter<Adapter>>,
                stats: cadence::ext::SocketStats,
            }
            impl MetricSink for UserSink {
                fn emit(&self, m: &str) -> std::io::Result<usize> {
                    use std::io::Write;
                    self.w.lock().unwrap().write(m.as_bytes())
                }
                fn flush(&self) -> std::io::Result<()> {
                    use std::io::Write;
                    self.w.lock().unwrap().flush()
                }
                fn stats(&self) -> cadence::SinkStats {
                    (&self.stats).into()
                }
            }
            let sck = UdpSocket::bind("127.0.0.1:0").unwrap();
            fd = sck.as_raw_fd();
            label = "user-written sink (ext::MultiLineWriter + ext::SocketStats)";
            let stats = cadence::ext::SocketStats::default();
            cx.rep.obs("user_written_sinks_counting_through_a_cloned_stats_handle", 1);
            Arc::new(UserSink { w: std::sync::Mutex::new(cadence::ext::MultiLineWriter::new(Adapter { sock: sck, to: udp_to, stats: stats.clone() }, cap)), stats })
        }
    };
    struct Fwd(Arc<dyn MetricSink + Send + Sync + std::panic::RefUnwindSafe>, Arc<AtomicU64>);
    impl MetricSink for Fwd {
        fn emit(&self, m: &str) -> std::io::Result<usize> {
            let r = self.0.emit(m);
            self.1.fetch_add(1, Ordering::SeqCst);
            r
        }
        fn flush(&self) -> std::io::Result<()> {
            self.0.flush()
        }
        fn stats(&self) -> cadence::SinkStats {
            self.0.stats()
        }
    }
    let mark = interpose::mark();
    // a third of the wrapped sinks have been used directly before they are put behind the queue: the figures read through
    // the wrapper are the sink's figures, from the sink's first datagram on
    if through_queue && enum_pattern.is_none() && r.chance(1, 3) {
        for k in 0..r.range(1, 6) {
            let _ = base.emit(&format!("before.the.queue.n{}:1|c", k));
        }
        let _ = base.flush();
        cx.rep.obs("sinks_used_directly_before_being_wrapped_in_a_queuing_sink", 1);
    }
    let done = Arc::new(AtomicU64::new(0));
    // every way of building the wrapper must hand the wrapped sink's figures through
    let qvariant = r.below(6);
    let queue = if through_queue {
        let f = Fwd(base.clone(), done.clone());
        Some(match qvariant {
            0 => QueuingMetricSink::from(f),
            1 => QueuingMetricSink::with_capacity(f, 100_000),
            2 => QueuingMetricSink::builder().with_error_handler(|_e| {}).build(f),
            3 => QueuingMetricSink::builder().with_capacity(100_000).with_error_handler(|_e| {}).build(f),
            // a tiny queue that overflows: what the queue refuses never reaches the socket and is not the socket's drop
            4 => QueuingMetricSink::with_capacity(f, 2),
            _ => QueuingMetricSink::builder().with_error_handler(|_e| {}).with_capacity(1).build(f),
        })
    } else {
        None
    };
    // faults: an enumerated pattern (single thread), or random per-call failures
    if let Some(p) = &enum_pattern {
        for ok in p {
            interpose::push_script(if *ok { None } else { Some(ENOBUFS) });
        }
    } else if r.chance(2, 3) {
        interpose::set_random(*r.pick(&[50u64, 300, 700]), vec![EAGAIN, ENOBUFS, ECONNREFUSED, EPERM], cs);
    }
    let per_thread = if enum_pattern.is_some() { enum_pattern.as_ref().unwrap().len() } else { r.range(20, 400) as usize };
    let ok_count = Arc::new(AtomicU64::new(0));
    let ok_bytes = Arc::new(AtomicU64::new(0));
    let err_count = Arc::new(AtomicU64::new(0));
    let err_bytes = Arc::new(AtomicU64::new(0));
    let submitted = Arc::new(AtomicU64::new(0));
    let mut joins = Vec::new();
    for t in 0..threads {
        let target: Arc<dyn MetricSink + Send + Sync> = match &queue {
            Some(q) => Arc::new(q.clone()),
            None => {
                struct A(Arc<dyn MetricSink + Send + Sync + std::panic::RefUnwindSafe>);
                impl MetricSink for A {
                    fn emit(&self, m: &str) -> std::io::Result<usize> {
                        self.0.emit(m)
                    }
                    fn flush(&self) -> std::io::Result<()> {
                        self.0.flush()
                    }
                }
                Arc::new(A(base.clone()))
            }
        };
        let (okc, okb, erc, erb, sub) = (ok_count.clone(), ok_bytes.clone(), err_count.clone(), err_bytes.clone(), submitted.clone());
        let mut tr = r.fork();
        let big = which == 0; // UDP: provoke EMSGSIZE from the kernel sometimes
        joins.push(std::thread::spawn(move || {
            for k in 0..per_thread {
                let len = if big && tr.chance(1, 40) { 65600 } else { tr.range(1, 90) as usize };
                // now and then the empty string: an unbuffered sink really sends an empty datagram for it
                let m = if tr.chance(1, 25) { String::new() } else { format!("t{}.k{}.{}", t, k, "z".repeat(len)) };
                match target.emit(&m) {
                    Ok(_) => {
                        okc.fetch_add(1, Ordering::Relaxed);
                        okb.fetch_add(m.len() as u64, Ordering::Relaxed);
                        sub.fetch_add(1, Ordering::Relaxed);
                    }
                    Err(_) => {
                        erc.fetch_add(1, Ordering::Relaxed);
                        erb.fetch_add(m.len() as u64, Ordering::Relaxed);
                    }
                }
                if tr.chance(1, 30) {
                    let _ = target.flush();
                }
            }
        }));
    }
    for j in joins {
        let _ = j.join();
    }
    // quiescent point: all threads joined; behind a queue wait until every accepted metric went through the wrapped sink
    if through_queue {
        let want = submitted.load(Ordering::SeqCst);
        let t0 = std::time::Instant::now();
        while done.load(Ordering::SeqCst) < want {
            if t0.elapsed() > Duration::from_secs(60) {
                cx.rep.inconclusive("stats: the queuing sink did not drain within 60 s");
                break;
            }
            std::thread::yield_now();
        }
    }
    // (behind a queue the flush goes through the queue's handle: what it writes must show in the figures read through
    // the queue at once, not only after the next metric)
    match &queue {
        Some(q) => {
            let _ = q.flush();
        }
        None => {
            let _ = base.flush();
        }
    }
    interpose::set_random(0, vec![], 0);
    interpose::clear_script();
    let stats_direct = base.stats();
    let stats_via = queue.as_ref().map(|q| q.stats());
    let recs: Vec<interpose::Rec> = interpose::since(mark).into_iter().filter(|x| x.fd == fd).collect();
    let attempts = recs.len() as u64;
    let sent_n = recs.iter().filter(|x| x.result >= 0).count() as u64;
    let sent_b: u64 = recs.iter().filter(|x| x.result >= 0).map(|x| x.result as u64).sum();
    let drop_n = attempts - sent_n;
    let drop_b: u64 = recs.iter().filter(|x| x.result < 0).map(|x| x.payload.len() as u64).sum();
    let trace = jobj! {"sink" => label, "threads" => threads, "through_queuing_sink" => through_queue, "capacity" => cap,
        "sendto_attempts" => attempts, "accepted" => sent_n, "accepted_bytes" => sent_b, "refused" => drop_n, "refused_bytes" => drop_b,
        "stats" => format!("{:?}", stats_direct), "stats_through_queue" => format!("{:?}", stats_via),
        "emits_ok" => ok_count.load(Ordering::Relaxed), "emits_err" => err_count.load(Ordering::Relaxed),
        "enumerated_pattern" => enum_pattern.as_ref().map(|p| p.iter().map(|b| if *b { '1' } else { '0' }).collect::<String>())};
    let s = &stats_direct;
    if s.packets_sent + s.packets_dropped != attempts {
        cx.violation("C14", "packets-add-up", "attempt-count", format!("{}: packets_sent {} + packets_dropped {} != {} send attempts", label, s.packets_sent, s.packets_dropped, attempts), trace.clone(), cs);
    } else if s.packets_sent != sent_n || s.packets_dropped != drop_n {
        cx.violation("C14", "packets-add-up", "sent-dropped-split", format!("{}: packets sent/dropped {}/{} but the socket accepted/refused {}/{}", label, s.packets_sent, s.packets_dropped, sent_n, drop_n), trace.clone(), cs);
    } else if s.bytes_sent != sent_b || s.bytes_dropped != drop_b {
        cx.violation("C14", "bytes-add-up", "byte-totals", format!("{}: bytes sent/dropped {}/{} but the socket accepted/refused {}/{} bytes", label, s.bytes_sent, s.bytes_dropped, sent_b, drop_b), trace.clone(), cs);
    } else if which < 2 && !through_queue && (s.packets_sent != ok_count.load(Ordering::Relaxed) || s.packets_dropped != err_count.load(Ordering::Relaxed) || s.bytes_sent != ok_bytes.load(Ordering::Relaxed) || s.bytes_dropped != err_bytes.load(Ordering::Relaxed)) {
        cx.violation("C14", "unbuffered-equals-emit-results", "emit-results", format!("{}: stats {:?} but emits Ok/Err = {}/{} with {}/{} bytes", label, s, ok_count.load(Ordering::Relaxed), err_count.load(Ordering::Relaxed), ok_bytes.load(Ordering::Relaxed), err_bytes.load(Ordering::Relaxed)), trace.clone(), cs);
    } else if let Some(v) = &stats_via {
        if (v.packets_sent, v.packets_dropped, v.bytes_sent, v.bytes_dropped) != (s.packets_sent, s.packets_dropped, s.bytes_sent, s.bytes_dropped) {
            cx.violation("C14", "same-through-queuing-sink", "queue-stats-differ", format!("{}: stats read through the queuing sink {:?} differ from the wrapped sink's {:?}", label, v, s), trace.clone(), cs);
        }
    }
    cx.rep.obs("quiescent_stat_comparisons", 1);
    cx.rep.obs("sendto_attempts_observed", attempts);
    cx.rep.obs("refused_datagrams_observed", drop_n);
    cx.rep.obs("kernel_refusals_observed", recs.iter().filter(|x| x.result < 0 && !x.scripted).count() as u64);
    if through_queue {
        cx.rep.obs("comparisons_through_queuing_sink", 1);
    }
    if threads > 1 {
        cx.rep.obs("comparisons_with_concurrent_emitters", 1);
    }
    cx.rep.distinct(&format!("{}|T{}|q{}v{}|drop{}|{}", label, threads, through_queue, qvariant, if drop_n == 0 { 0 } else if drop_n < 10 { 1 } else { 2 }, enum_pattern.as_ref().map(|p| p.iter().map(|b| if *b { '1' } else { '0' }).collect::<String>()).unwrap_or_default()));
    if cx.rep.want_sample() {
        cx.rep.sample(|| trace);
    }
    drop(queue);
    stop.store(true, Ordering::Relaxed);
    let _ = drain.0.join();
    let _ = drain.1.join();
    let _ = std::fs::remove_dir_all(dir);
}

/// Many threads hammer ONE unbuffered sink while every send fails at once in the interposer's lock-free fast path:
/// nothing but the sink's own bookkeeping is contended. Afterwards packets_dropped / bytes_dropped must equal the
/// attempts counted by the interposer and the emits that returned Err.
fn case_contention(cx: &mut Cx, cs: u64) {
    let mut r = Rng::new(cs);
    let udp = r.chance(1, 2);
    let threads = *r.pick(&[4usize, 8, 12, 16]);
    // every third run is about volume, not contention: 1 MiB metrics until the byte counters have passed 2^32 (and the
    // packet counters 2^16), refused or - every other volume run - accepted at once
    let volume = r.chance(1, 3);
    let accept = volume && r.chance(1, 2);
    let per = if volume { 4400 / threads + 1 } else { r.range(8000, 30000) as usize };
    let dir = fresh_dir();
    cx.rep.eval();
    let sink: Arc<dyn MetricSink + Send + Sync> = if udp {
        let s = UdpSocket::bind("127.0.0.1:0").unwrap();
        Arc::new(UdpMetricSink::from("127.0.0.1:9", s).unwrap())
    } else {
        Arc::new(UnixMetricSink::from(dir.join("nobody.sock"), UnixDatagram::unbound().unwrap()))
    };
    let before = sink.stats();
    interpose::FAST_ATTEMPTS.store(0, Ordering::SeqCst);
    interpose::FAST_BYTES.store(0, Ordering::SeqCst);
    interpose::FAST_FAIL_ERRNO.store(if accept { -1 } else { ENOBUFS }, Ordering::SeqCst);
    let barrier = Arc::new(std::sync::Barrier::new(threads));
    let mut joins = Vec::new();
    for t in 0..threads {
        let sink = sink.clone();
        let barrier = barrier.clone();
        joins.push(std::thread::spawn(move || {
            let m = if volume { format!("contend.t{}:{}|c", t, "9".repeat(1 << 20)) } else { format!("contend.t{}:1|c", t) };
            let mut errs = 0u64;
            let mut bytes = 0u64;
            barrier.wait();
            for _ in 0..per {
                // (counted alike whether refused or accepted: the run knows which of the two it scripted)
                let res = sink.emit(&m);
                if res.is_err() != accept {
                    errs += 1;
                    bytes += m.len() as u64;
                }
            }
            (errs, bytes)
        }));
    }
    let mut errs = 0u64;
    let mut bytes = 0u64;
    for j in joins {
        let (e, b) = j.join().unwrap();
        errs += e;
        bytes += b;
    }
    interpose::FAST_FAIL_ERRNO.store(0, Ordering::SeqCst);
    let attempts = interpose::FAST_ATTEMPTS.load(Ordering::SeqCst);
    let abytes = interpose::FAST_BYTES.load(Ordering::SeqCst);
    let st = sink.stats();
    let label = if udp { "UdpMetricSink" } else { "UnixMetricSink" };
    let trace = jobj! {"sink" => label, "threads" => threads, "emits_per_thread" => per, "attempts_seen_by_interposer" => attempts, "emits_err" => errs, "stats" => format!("{:?}", st)};
    cx.rep.obs("contention_runs", 1);
    cx.rep.obs("contended_updates", attempts);
    cx.rep.distinct(&format!("contention|{}|T{}", label, threads));
    if volume {
        cx.rep.obs("volume_runs_past_4GiB", (abytes > (1u64 << 32)) as u64);
    }
    let (dp, db, sp, sb) = (st.packets_dropped - before.packets_dropped, st.bytes_dropped - before.bytes_dropped, st.packets_sent - before.packets_sent, st.bytes_sent - before.bytes_sent);
    let want = if accept { (0, 0, attempts, abytes) } else { (attempts, abytes, 0, 0) };
    if (dp, db, sp, sb) != want || errs != attempts || bytes != abytes {
        cx.violation(
            "C14",
            "exact-under-concurrency",
            if volume { "wrong-after-4GiB" } else { "lost-updates" },
            format!("{}: {} threads made {} sends ({} bytes, all {}); stats moved by packets_dropped={} bytes_dropped={} packets_sent={} bytes_sent={}", label, threads, attempts, abytes, if accept { "accepted" } else { "refused" }, dp, db, sp, sb),
            trace.clone(),
            cs,
        );
    }
    if cx.rep.want_sample() {
        cx.rep.sample(|| trace);
    }
    let _ = std::fs::remove_dir_all(dir);
}

fn main() {
    let args = Args::from_env();
    panics::install_hook();
    let prop = args.str("property", "C13");
    let mut rep = Report::new("sock_driver", &prop);
    let mode = args.str("mode", "unbuffered");
    let seed = args.u64("seed", 1);
    let shard = args.u64("shard", 0);
    let shards = args.u64("shards", 1);
    let cases = args.u64("cases", 20);
    let only = args.get("case-seed").map(|s| s.parse::<u64>().unwrap());
    {
        let mut cx = Cx { rep: &mut rep, prop: prop.clone(), args: &args };
        if mode == "stats-enum" {
            // every accept/refuse pattern of length <= maxlen for each sink kind
            let maxlen = args.usize("maxlen", 6);
            let mut counter = 0u64;
            for len in 1..=maxlen {
                for bits in 0..(1u32 << len) {
                    for kind in 0..4u64 {
                        counter += 1;
                        if counter % shards != shard {
                            continue;
                        }
                        let pattern: Vec<bool> = (0..len).map(|i| bits & (1 << i) != 0).collect();
                        // choose a case seed whose first draw selects this sink kind
                        let mut cs = mix(&[seed, 0xE14, counter]);
                        while Rng::new(cs).below(4) != kind {
                            cs = cs.wrapping_add(1);
                        }
                        case_stats(&mut cx, cs, Some(pattern));
                        if cx.rep.violation_count >= 6 {
                            break;
                        }
                    }
                }
            }
            cx.rep.exhaustive = Some(cx.rep.violation_count == 0);
            cx.rep.note(format!("every accept/refuse pattern of length <= {} of the underlying sendto, for each of the four socket sinks (single emitting thread)", maxlen));
        } else {
            for i in 0..cases {
                let cs = only.unwrap_or_else(|| mix(&[seed, cvh::rng::hash_str(&mode), shard, i]));
                match mode.as_str() {
                    "unbuffered" => {
                        case_unbuffered(&mut cx, cs);
                        if cs % 8 == 0 {
                            case_mixed_family(&mut cx, cs);
                        }
                        if cs % 8 == 1 {
                            case_port_zero(&mut cx, cs);
                        }
                        if cs % 32 == 2 {
                            case_send_timeout(&mut cx, cs);
                        }
                    }
                    "buffered" => case_buffered(&mut cx, cs),
                    "stats" => case_stats(&mut cx, cs, None),
                    "contention" => case_contention(&mut cx, cs),
                    m => {
                        eprintln!("unknown mode {}", m);
                        std::process::exit(2);
                    }
                }
                if only.is_some() || cx.rep.violation_count >= 6 || cx.rep.inconclusive.len() >= 3 {
                    break;
                }
            }
        }
    }
    // totals of what actually entered the kernel, for the independent strace observer (thorough tier)
    {
        let all = interpose::since(0);
        let kernel: Vec<&interpose::Rec> = all.iter().filter(|r| !r.scripted).collect();
        rep.obs("sendto_entered_kernel", kernel.len() as u64);
        rep.obs("sendto_kernel_accepted", kernel.iter().filter(|r| r.result >= 0).count() as u64);
        rep.obs("sendto_kernel_accepted_bytes", kernel.iter().filter(|r| r.result >= 0).map(|r| r.result as u64).sum());
        rep.obs("sendto_scripted_failures", all.iter().filter(|r| r.scripted).count() as u64);
    }
    std::process::exit(rep.finish(args.get("out")));
}
