//! miri_time: time-dependent behaviour under Miri's VIRTUAL clock (hooks off, isolation on). A sleep costs nothing in
//! real time there - the clock jumps when every thread is blocked - so histories with pauses of an hour between calls
//! are as cheap as histories without: whatever a sink does "after a while" (a linger timer in the line writer, an idle
//! flush or a grace period in the queuing sink's thread) shows, whatever its threshold.
//!
//!   miri_time        prints "miri_time ok ..." and exits 0, or "TIME-ORACLE-FAILED property=Cxx ..." and exits 1

use cadence::{BufferedSpyMetricSink, MetricSink, QueuingMetricSink};
use std::io;
use std::sync::atomic::{AtomicBool, AtomicU64, AtomicUsize, Ordering};
use std::sync::Arc;
use std::time::Duration;

const PAUSE: Duration = Duration::from_secs(3600);

fn fail(prop: &str, msg: String) -> ! {
    println!("TIME-ORACLE-FAILED property={} {}", prop, msg);
    std::process::exit(1);
}

fn drain(rx: &crossbeam_channel::Receiver<Vec<u8>>) -> Vec<String> {
    let mut v = Vec::new();
    while let Ok(b) = rx.try_recv() {
        v.push(String::from_utf8_lossy(&b).to_string());
    }
    v
}

/// Poll with short virtual sleeps (a spinning thread would keep the virtual clock from jumping).
fn wait_for(what: &str, prop: &str, mut pred: impl FnMut() -> bool) {
    for _ in 0..200_000 {
        if pred() {
            return;
        }
        std::thread::sleep(Duration::from_secs(5));
    }
    fail(prop, format!("{}: not reached after 10^6 virtual seconds", what));
}

/// A buffered sink used directly: metrics that fit stay buffered however long the caller pauses (C19: a write happens
/// only when a metric does not fit, on flush, on drop), and the flush then writes them in one datagram (C06).
fn direct_pauses() -> usize {
    let (rx, sink) = BufferedSpyMetricSink::with_capacity(None, Some(64));
    let mut n = 0;
    for (i, m) in ["a.b:1|c", "c.d:2|g", "e.f:3|ms"].iter().enumerate() {
        sink.emit(m).unwrap();
        n += 1;
        std::thread::sleep(PAUSE * (i as u32 + 1));
        let early = drain(&rx);
        if !early.is_empty() {
            fail("C19", format!("buffered sink (capacity 64) wrote {:?} during a pause after {} short metrics: nothing made a write necessary", early, n));
        }
    }
    sink.flush().unwrap();
    let got = drain(&rx);
    if got != vec!["a.b:1|c\nc.d:2|g\ne.f:3|ms\n".to_string()] {
        fail("C06", format!("after the flush the datagrams are {:?}", got));
    }
    std::thread::sleep(PAUSE);
    sink.emit("g.h:4|c").unwrap();
    std::thread::sleep(PAUSE);
    drop(sink);
    let got = drain(&rx);
    if got != vec!["g.h:4|c\n".to_string()] {
        fail("C06", format!("after the drop the datagrams are {:?}", got));
    }
    n + 1
}

/// The same behind a queuing sink with a handle alive and nothing to do for an hour: the queue's thread must not write
/// (or flush) on its own.
fn queued_pauses(cap: Option<usize>) -> usize {
    let (rx, spy) = BufferedSpyMetricSink::with_capacity(None, Some(64));
    let q = match cap {
        Some(c) => QueuingMetricSink::with_capacity(spy, c),
        None => QueuingMetricSink::from(spy),
    };
    let q2 = q.clone();
    let mut sent = 0u64;
    for (i, m) in ["a.b:1|c", "c.d:2|g", "e.f:3|ms"].iter().enumerate() {
        q.emit(m).unwrap();
        sent += 1;
        wait_for("hand-over", "C08", || q.drained() >= sent);
        std::thread::sleep(PAUSE * (i as u32 + 1));
        let early = drain(&rx);
        if !early.is_empty() {
            fail("C19", format!("buffered sink behind a queuing sink wrote {:?} while the queue was idle for an hour ({} short metrics buffered, capacity 64, no flush, no drop)", early, sent));
        }
    }
    if q.panics() != 0 {
        fail("C11", format!("panics() = {} after hours of idling although the wrapped sink never panicked", q.panics()));
    }
    drop(q);
    std::thread::sleep(PAUSE);
    let early = drain(&rx);
    if !early.is_empty() {
        fail("C19", format!("dropping one of two handles made the buffered sink write {:?}", early));
    }
    q2.flush().unwrap();
    let got = drain(&rx);
    if got != vec!["a.b:1|c\nc.d:2|g\ne.f:3|ms\n".to_string()] {
        fail("C06", format!("after the flush through the queuing sink the datagrams are {:?}", got));
    }
    q2.emit("g.h:4|c").unwrap();
    if q2.panics() != 0 {
        fail("C11", format!("panics() = {} after an emit that followed hours of idling; the wrapped sink never panicked", q2.panics()));
    }
    // (bounded queues: the queue has been idle for an hour when its last handle goes away - a stop request is seen however
    // long nothing has happened; unbounded ones are dropped right after the last emit)
    if cap.is_some() {
        wait_for("hand-over", "C08", || q2.drained() >= 4);
        std::thread::sleep(PAUSE);
    }
    drop(q2);
    // the last drop releases the buffered sink, which writes what it holds: wait for the channel to disconnect
    let mut rest = Vec::new();
    loop {
        match rx.recv_timeout(PAUSE * 24) {
            Ok(b) => rest.push(String::from_utf8_lossy(&b).to_string()),
            Err(crossbeam_channel::RecvTimeoutError::Disconnected) => break,
            Err(crossbeam_channel::RecvTimeoutError::Timeout) => fail("C09", "the wrapped buffered sink was not released within a virtual day after the last drop".into()),
        }
    }
    if rest != vec!["g.h:4|c\n".to_string()] {
        fail("C09", format!("after the last drop the datagrams are {:?}", rest));
    }
    4
}

struct SlowSink {
    per_metric: Duration,
    delivered: Arc<AtomicUsize>,
    dropped: Arc<AtomicBool>,
}

impl MetricSink for SlowSink {
    fn emit(&self, m: &str) -> io::Result<usize> {
        std::thread::sleep(self.per_metric);
        self.delivered.fetch_add(1, Ordering::SeqCst);
        Ok(m.len())
    }
}

impl Drop for SlowSink {
    fn drop(&mut self) {
        self.dropped.store(true, Ordering::SeqCst);
    }
}

/// Last drop with a backlog behind a sink that needs ten (virtual) minutes per metric: drop returns at once, the whole
/// backlog is still handed over however long that takes, then the sink is released (C09).
fn slow_backlog(cap: Option<usize>, n: usize) -> usize {
    let delivered = Arc::new(AtomicUsize::new(0));
    let dropped = Arc::new(AtomicBool::new(false));
    let sink = SlowSink { per_metric: Duration::from_secs(600), delivered: delivered.clone(), dropped: dropped.clone() };
    // a handler is configured: a wrapped sink that is slow but answers Ok gives it nothing to do
    let handled = Arc::new(AtomicUsize::new(0));
    let h2 = handled.clone();
    let mut b = QueuingMetricSink::builder().with_error_handler(move |_e| {
        h2.fetch_add(1, Ordering::SeqCst);
    });
    if let Some(c) = cap {
        b = b.with_capacity(c);
    }
    let q = b.build(sink);
    let q2 = q.clone();
    let mut acc = 0;
    for k in 0..n {
        if q.emit(&format!("slow.n{}:1|c", k)).is_ok() {
            acc += 1;
        }
    }
    let t0 = std::time::Instant::now();
    drop(q);
    drop(q2);
    let waited = t0.elapsed();
    if waited >= Duration::from_secs(60) {
        fail("C09", format!("dropping the handles took {:?} of virtual time with a backlog of {} behind a sink that takes 600 s per metric: drop waits for the wrapped sink", waited, acc));
    }
    wait_for("release of the wrapped sink", "C09", || dropped.load(Ordering::SeqCst));
    if handled.load(Ordering::SeqCst) != 0 {
        fail("C16", format!("the error handler was invoked {} times although the slow wrapped sink (600 s per metric) accepted every metric", handled.load(Ordering::SeqCst)));
    }
    let d = delivered.load(Ordering::SeqCst);
    if d != acc {
        fail("C09", format!("{} metrics were accepted before the last drop, the slow wrapped sink (600 s per metric) received {} before it was released", acc, d));
    }
    acc
}

struct StallingSink {
    got: Arc<std::sync::Mutex<Vec<String>>>,
}

impl MetricSink for StallingSink {
    fn emit(&self, m: &str) -> io::Result<usize> {
        if m.starts_with("stall") {
            std::thread::sleep(PAUSE);
        }
        self.got.lock().unwrap().push(m.to_string());
        Ok(m.len())
    }
}

/// The wrapped sink stalls for an hour on one metric while others are accepted behind it (handles alive): however long
/// a metric has waited in the queue, it is handed over - once, in order (C08). Age is not a reason to skip it.
fn stall_with_backlog(cap: Option<usize>) -> usize {
    let got = Arc::new(std::sync::Mutex::new(Vec::new()));
    let sink = StallingSink { got: got.clone() };
    let q = match cap {
        Some(c) => QueuingMetricSink::with_capacity(sink, c),
        None => QueuingMetricSink::from(sink),
    };
    let mut accepted = Vec::new();
    for m in ["stall.a:1|c", "b:2|c", "c:3|c", "stall.d:4|c", "e:5|c"] {
        // (five short metrics: never more than the capacity of 8 - the answer depends on queue room only, however
        // long the wrapped sink has been busy with one call)
        match q.emit(m) {
            Ok(n) if n == m.len() => accepted.push(m.to_string()),
            other => fail("C10", format!("emit({:?}) returned {:?} with {} metrics queued (capacity {:?}) while the wrapped sink was busy for a long time", m, other, q.queued(), cap)),
        }
        std::thread::sleep(Duration::from_secs(7));
    }
    let n = accepted.len() as u64;
    // (at rest = the queue's thread has taken everything and is no longer inside the wrapped sink)
    wait_for("the queue coming to rest", "C08", || q.drained() >= n && q.queued() == 0);
    std::thread::sleep(PAUSE * 3);
    let g = got.lock().unwrap().clone();
    if g != accepted {
        fail("C08", format!("accepted {:?} (the wrapped sink stalls for an hour on the 'stall' metrics), delivered {:?}", accepted, g));
    }
    drop(q);
    accepted.len()
}

/// An outage that lasts: the wrapped sink fails every metric for hours (one failure every few virtual minutes, then one
/// after an idle hour). Every failure is reported to the handler, the last like the first (C16) - how long the sink has
/// been failing is no reason to stop telling.
fn long_outage() -> usize {
    struct Failing;
    impl MetricSink for Failing {
        fn emit(&self, m: &str) -> std::io::Result<usize> {
            Err(std::io::Error::new(std::io::ErrorKind::ConnectionRefused, m.to_string()))
        }
    }
    let calls = Arc::new(AtomicU64::new(0));
    let c2 = calls.clone();
    let q = QueuingMetricSink::builder()
        .with_error_handler(move |_e| {
            c2.fetch_add(1, Ordering::SeqCst);
        })
        .build(Failing);
    let mut sent = 0u64;
    for i in 0..6u64 {
        q.emit(&format!("outage.n{}:1|c", i)).unwrap();
        sent += 1;
        wait_for("hand-over", "C08", || q.drained() >= sent);
        std::thread::sleep(if i == 4 { PAUSE } else { Duration::from_secs(240) });
        let got = calls.load(Ordering::SeqCst);
        if got != sent {
            fail("C16", format!("the wrapped sink has failed {} metrics over {} virtual minutes without a success in between; the handler was called {} times", sent, (i + 1) * 4, got));
        }
    }
    drop(q);
    sent as usize
}

fn main() {
    let mut metrics = 0;
    metrics += long_outage();
    metrics += stall_with_backlog(None);
    metrics += stall_with_backlog(Some(8));
    metrics += direct_pauses();
    metrics += queued_pauses(None);
    metrics += queued_pauses(Some(8));
    metrics += slow_backlog(None, 7);
    metrics += slow_backlog(Some(4), 7);
    println!("miri_time ok scenarios=8 metrics={} virtual_pause_s={}", metrics, PAUSE.as_secs());
}
