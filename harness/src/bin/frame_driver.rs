//! frame_driver: the line-buffering writer under the framing model (rules F1..F4 -> C05, C06, C07, C19).
//!
//!   frame_driver --property C05|C06|C07|C19 --mode enum|random|spy|delegate --seed S --shard I --shards N --out FILE
//!       enum:    every op sequence of length <= --maxlen over {emit(len 0..=cap+2), flush} then drop, for capacities
//!                0..=--maxcap and terminators "\n", "\r\n", ""; with --faults all: every ok/fail(/interrupted) assignment
//!                to the first 8 write attempts (DFS)
//!       random:  long random histories on cadence::ext::MultiLineWriter<ScriptedWriter>
//!       spy:     BufferedSpyMetricSink observed at its channel (bounded channel = fault injector)
//!       delegate: flush through StatsdClient::flush / QueuingMetricSink::flush, default capacity (512)
//! Embodiments on real sockets are in sock_driver (same checker).

use cadence::ext::MultiLineWriter;
use cadence::{BufferedSpyMetricSink, MetricSink, QueuingMetricSink, StatsdClient};
use cvh::frame::*;
use cvh::json::clip_bytes;
use cvh::rng::{mix, Rng};
use cvh::{jobj, panics, Args, Json, Report, Violation};
use std::cell::RefCell;
use std::io::{self, Write};
use std::rc::Rc;
use std::sync::atomic::{AtomicU64, Ordering};
use std::sync::Arc;

// ------------------------------------------------------------------------------------------------
// scripted underlying writer (W1)
// ------------------------------------------------------------------------------------------------

struct Shared {
    attempts: Vec<Attempt>,
    /// choice for the n-th attempt of the run: 0 ok, 1 fail, 2 interrupted
    choices: Vec<u8>,
    n: usize,
    random: Option<(Rng, u64, u64)>, // rng, p_fail per 1000, p_interrupt per 1000
    burst: u32,
    next_id: u64,
    /// Some(terminator): a failing attempt whose bytes end with the terminator (= a write of buffered lines; the
    /// metrics of such a history never end with it) is answered with Ok(0) - "nothing taken" - instead of an error
    zero_term: Option<Vec<u8>>,
    cap: usize,
}

#[derive(Clone)]
struct ScriptedWriter(Rc<RefCell<Shared>>);

impl Write for ScriptedWriter {
    fn write(&mut self, buf: &[u8]) -> io::Result<usize> {
        let mut s = self.0.borrow_mut();
        let idx = s.n;
        s.n += 1;
        let mut c = if idx < s.choices.len() { s.choices[idx] } else { 0 };
        let burst = s.burst;
        if let Some((rng, pf, pi)) = s.random.as_mut() {
            if burst > 0 {
                c = 1;
            } else {
                let x = rng.below(1000);
                c = if x < *pf {
                    1
                } else if x < *pf + *pi {
                    2
                } else {
                    0
                };
            }
        }
        if c == 1 && s.random.is_some() {
            if s.burst > 0 {
                s.burst -= 1;
            } else if s.random.as_mut().unwrap().0.chance(1, 4) {
                s.burst = s.random.as_mut().unwrap().0.range(1, 4) as u32;
            }
        }
        s.next_id += 1;
        let id = s.next_id;
        let out = match c {
            0 => AOut::Ok,
            1 => AOut::Failed(id),
            _ => AOut::Interrupted(id),
        };
        s.attempts.push(Attempt { bytes: Some(buf.to_vec()), out: out.clone() });
        if let (AOut::Failed(id), Some(t)) = (&out, &s.zero_term) {
            // (only for writes the BufWriter makes from its buffer - shorter than the capacity; a piece as large as
            // the whole buffer is handed through by std without the Ok(0) -> WriteZero conversion, and a "socket" that
            // answers a datagram with Ok(0) is outside the all-or-nothing fault model)
            if !t.is_empty() && buf.ends_with(t) && buf.len() < s.cap && id % 2 == 0 {
                // a writer that takes nothing says so with Ok(0): all-or-nothing, and this time nothing
                return Ok(0);
            }
        }
        match out {
            AOut::Ok => Ok(buf.len()),
            AOut::Failed(id) => {
                // code under test may special-case an error kind: rotate through several (Interrupted has its own outcome)
                const KINDS: [io::ErrorKind; 8] = [
                    io::ErrorKind::ConnectionRefused,
                    io::ErrorKind::WouldBlock,
                    io::ErrorKind::WriteZero,
                    io::ErrorKind::TimedOut,
                    io::ErrorKind::BrokenPipe,
                    io::ErrorKind::Other,
                    io::ErrorKind::PermissionDenied,
                    io::ErrorKind::UnexpectedEof,
                ];
                Err(io::Error::new(KINDS[(id as usize) % KINDS.len()], format!("w-{}", id)))
            }
            AOut::Interrupted(id) => Err(io::Error::new(io::ErrorKind::Interrupted, format!("w-{}", id))),
        }
    }
    fn flush(&mut self) -> io::Result<()> {
        Ok(())
    }
}

fn err_id(e: &io::Error) -> Option<u64> {
    e.to_string().strip_prefix("w-").and_then(|s| s.parse().ok())
}

#[derive(Clone, Debug)]
enum POp {
    Emit(Vec<u8>),
    /// the same through `Write::write_all`
    EmitAll(Vec<u8>),
    /// `Write::write_vectored` with these slices
    EmitVectored(Vec<Vec<u8>>),
    Flush,
}

struct RunResult {
    steps: Vec<Step>,
    attempts_total: usize,
}

/// Execute a history on the real MultiLineWriter over a scripted writer.
fn run_w1(cap: usize, term: &str, ops: &[POp], choices: &[u8], random: Option<(Rng, u64, u64)>, max_scripted: usize) -> RunResult {
    run_w1z(cap, term, ops, choices, random, max_scripted, false)
}

fn run_w1z(cap: usize, term: &str, ops: &[POp], choices: &[u8], random: Option<(Rng, u64, u64)>, max_scripted: usize, zero: bool) -> RunResult {
    let shared = Rc::new(RefCell::new(Shared { attempts: Vec::new(), choices: choices.to_vec(), n: 0, random, burst: 0, next_id: 0, zero_term: if zero { Some(term.as_bytes().to_vec()) } else { None }, cap }));
    let _ = max_scripted;
    let mut steps = Vec::new();
    let made = panics::guard(|| MultiLineWriter::with_ending(ScriptedWriter(shared.clone()), cap, term));
    let mut w = match made {
        Ok(w) => Some(w),
        Err(p) => {
            steps.push(Step { op: Op::Flush, attempts: vec![], res: Res::Panicked(format!("constructor: {}", p)) });
            None
        }
    };
    if let Some(wr) = w.as_mut() {
        for op in ops {
            let (o, res) = match op {
                POp::Emit(m) => {
                    let r = panics::guard(|| wr.write(m));
                    (
                        Op::Emit(m.clone()),
                        match r {
                            Ok(Ok(n)) => Res::OkN(n),
                            Ok(Err(e)) => Res::Err(err_id(&e)),
                            Err(p) => Res::Panicked(p),
                        },
                    )
                }
                POp::EmitAll(m) => {
                    let r = panics::guard(|| wr.write_all(m));
                    (
                        // (std's write_all never calls write for an empty buffer: that is no line at all, and no reason to write)
                        if m.is_empty() { Op::Query } else { Op::Emit(m.clone()) },
                        match r {
                            Ok(Ok(())) => if m.is_empty() { Res::OkUnit } else { Res::OkN(m.len()) },
                            Ok(Err(e)) => Res::Err(err_id(&e)),
                            Err(p) => Res::Panicked(p),
                        },
                    )
                }
                POp::EmitVectored(slices) => {
                    let ios: Vec<io::IoSlice> = slices.iter().map(|s| io::IoSlice::new(s)).collect();
                    let r = panics::guard(|| wr.write_vectored(&ios));
                    // two readings are legitimate: the trait's default (the first non-empty slice is the value, the
                    // caller comes back with the rest) and "the slices together are the value"; the count returned
                    // says which one was taken
                    let first: Vec<u8> = slices.iter().find(|s| !s.is_empty()).cloned().unwrap_or_default();
                    let all: Vec<u8> = slices.concat();
                    match r {
                        Ok(Ok(n)) if n == all.len() && n != first.len() => (Op::Emit(all), Res::OkN(n)),
                        Ok(Ok(n)) => (Op::Emit(first), Res::OkN(n)),
                        Ok(Err(e)) => (Op::Emit(first), Res::Err(err_id(&e))),
                        Err(p) => (Op::Emit(first), Res::Panicked(p)),
                    }
                }
                POp::Flush => {
                    let r = panics::guard(|| wr.flush());
                    (
                        Op::Flush,
                        match r {
                            Ok(Ok(())) => Res::OkUnit,
                            Ok(Err(e)) => Res::Err(err_id(&e)),
                            Err(p) => Res::Panicked(p),
                        },
                    )
                }
            };
            let attempts = std::mem::take(&mut shared.borrow_mut().attempts);
            let panicked = matches!(res, Res::Panicked(_));
            steps.push(Step { op: o, attempts, res });
            if panicked {
                break;
            }
        }
    }
    if !steps.iter().any(|s| matches!(s.res, Res::Panicked(_))) {
        let r = panics::guard(move || drop(w));
        let attempts = std::mem::take(&mut shared.borrow_mut().attempts);
        steps.push(Step { op: Op::Drop, attempts, res: if let Err(p) = r { Res::Panicked(p) } else { Res::Dropped } });
    } else {
        std::mem::forget(w);
    }
    let n = shared.borrow().n;
    RunResult { steps, attempts_total: n }
}

fn steps_json(steps: &[Step]) -> Json {
    Json::Arr(
        steps
            .iter()
            .map(|s| {
                jobj! {
                    "op" => match &s.op { Op::Emit(m) => format!("emit({:?}, {} bytes)", clip_bytes(m, 40), m.len()), Op::Flush => "flush".to_string(), Op::Drop => "drop".to_string(), Op::Query => "stats".to_string() },
                    "attempts" => Json::Arr(s.attempts.iter().map(|a| Json::Str(format!("{:?} -> {:?}", a.bytes.as_ref().map(|b| clip_bytes(b, 60)), a.out))).collect()),
                    "result" => format!("{:?}", s.res),
                }
            })
            .collect(),
    )
}

struct Judge<'a> {
    rep: &'a mut Report,
    prop: String,
    args: &'a Args,
}

impl<'a> Judge<'a> {
    /// Run the checker over a history; report the first violation if it belongs to the property being checked.
    /// Returns the outcome signature.
    fn judge(&mut self, cap: usize, term: &str, steps: &[Step], replay: Vec<(&str, String)>, embodiment: &str) -> String {
        let mut ck = FrameChecker::new(cap, term.as_bytes());
        ck.tolerate_f4 = self.prop == "C07";
        let mut sig = String::new();
        let mut nontrivial = false;
        self.rep.eval();
        for s in steps {
            match ck.step(s) {
                Ok(o) => {
                    nontrivial |= o.nontrivial();
                    sig.push(o.code());
                }
                Err(v) => {
                    sig.push('!');
                    let to = attribute(&v);
                    self.rep.obs(&format!("rule_{}_fired", v.rule), 1);
                    if !to.contains(&self.prop.as_str()) {
                        // a rule of another property fired: not this check's business (its own check reports it)
                        self.rep.obs("other_property_rule_hits", 1);
                    }
                    if let Some(p) = to.iter().copied().find(|p| *p == self.prop) {
                        let rargs = self.args.to_vec_with(&replay.iter().map(|(k, v)| (*k, v.clone())).collect::<Vec<_>>());
                        self.rep.violation(Violation {
                            property: p.to_string(),
                            rule: v.rule.to_string(),
                            class: v.class.to_string(),
                            detail: format!("[{} cap={} term={:?} step {}] {}", embodiment, cap, term, v.step, v.detail),
                            replay_args: rargs,
                            trace: jobj! {"embodiment" => embodiment, "capacity" => cap, "terminator" => term, "after_injected_failure" => v.after_fault, "history" => steps_json(steps)},
                        });
                    }
                    break;
                }
            }
        }
        self.rep.obs("api_calls_checked", steps.len() as u64);
        self.rep.obs("underlying_write_attempts", steps.iter().map(|s| s.attempts.len() as u64).sum());
        self.rep.obs("datagrams_written", ck.datagrams as u64);
        self.rep.obs("metrics_accepted", ck.accepted as u64);
        // distinct cases: short histories by their whole outcome signature, long ones by every window of three
        // consecutive outcomes (with capacity class and terminator) that contains a non-trivial outcome
        let capc = if cap <= 8 { cap } else if cap < 64 { 9 } else if cap < 512 { 10 } else if cap == 512 { 11 } else { 12 };
        if nontrivial {
            if sig.len() <= 8 {
                self.rep.distinct(&format!("{}|{}|{:?}|{}", embodiment, capc, term, sig));
            } else {
                let cs: Vec<char> = sig.chars().collect();
                let mut wins: Vec<String> = Vec::new();
                for w in cs.windows(3) {
                    if w.iter().any(|c| !matches!(c, 'b' | 'f' | 'd')) {
                        let s3 = format!("{}|{}|{:?}|{}{}{}", embodiment, capc, term, w[0], w[1], w[2]);
                        self.rep.fine("outcome_windows_of_3_calls", &s3);
                        wins.push(s3);
                    }
                }
                self.rep.distinct_set(&format!("{}|{}|{:?}", embodiment, capc, term), &mut wins);
            }
        } else {
            self.rep.trivial();
        }
        if self.rep.want_sample() {
            self.rep.sample(|| jobj! {"embodiment" => embodiment, "capacity" => cap, "terminator" => term, "outcomes" => sig.as_str(), "history" => steps_json(&steps[..steps.len().min(8)])});
        }
        sig
    }
}

fn main() {
    let args = Args::from_env();
    panics::install_hook();
    let prop = args.str("property", "C05");
    let mut rep = Report::new("frame_driver", &prop);
    let mode = args.str("mode", "enum");
    if mode == "fuzz-one" {
        fuzz_case(&mut rep, &args, &cvh::fuzz::unhex(&args.str("hex", "")));
        std::process::exit(rep.finish(args.get("out")));
    }
    {
        let mut j = Judge { rep: &mut rep, prop: prop.clone(), args: &args };
        match mode.as_str() {
            "enum" => mode_enum(&mut j),
            "random" => mode_random(&mut j),
            "random-big" => mode_random_big(&mut j),
            "spy" => mode_spy(&mut j),
            "delegate" => mode_delegate(&mut j),
            "pauses" => mode_pauses(&mut j),
            "delegate-faults" => mode_delegate_faults(&mut j),
            "one" => mode_one(&mut j),
            m => {
                eprintln!("unknown mode {}", m);
                std::process::exit(2);
            }
        }
    }
    std::process::exit(rep.finish(args.get("out")));
}

const TERMS: [&str; 3] = ["\n", "\r\n", ""];
/// Terminators for the random histories: `with_ending` takes any string (3, 4, 5, 9 and 17 bytes, multi-byte characters).
const TERMS_RANDOM: [&str; 10] = ["\n", "\r\n", "", "\n", ";", "\r\n\r\n", "<EOL>", "\u{2028}", "-=#é#=-\n", "0123456789abcdef\n"];

fn metric_bytes(idx: usize, len: usize) -> Vec<u8> {
    vec![b'a' + (idx % 26) as u8; len]
}

fn ops_to_string(ops: &[POp]) -> String {
    ops.iter().map(|o| match o { POp::Emit(m) => format!("e{}", m.len()), POp::EmitAll(m) => format!("a{}", m.len()), POp::EmitVectored(v) => format!("v{}", v.iter().map(|x| x.len().to_string()).collect::<Vec<_>>().join("+")), POp::Flush => "f".to_string() }).collect::<Vec<_>>().join(",")
}

fn ops_from_string(s: &str) -> Vec<POp> {
    let mut v = Vec::new();
    for (i, t) in s.split(',').filter(|t| !t.is_empty()).enumerate() {
        if t == "f" {
            v.push(POp::Flush);
        } else {
            v.push(POp::Emit(metric_bytes(i, t[1..].parse().unwrap())));
        }
    }
    v
}

/// Replay of one enumerated / random W1 history: --cap --term-idx --ops e3,f,e0 --choices 0102
fn mode_one(j: &mut Judge) {
    let cap = j.args.usize("cap", 4);
    let term = TERMS[j.args.usize("term-idx", 0)];
    let ops = ops_from_string(&j.args.str("ops", ""));
    let choices: Vec<u8> = j.args.str("choices", "").bytes().map(|b| b - b'0').collect();
    let rr = run_w1(cap, term, &ops, &choices, None, 8);
    j.judge(cap, term, &rr.steps, vec![], "W1");
    println!("{}", steps_json(&rr.steps).to_string());
}

fn mode_enum(j: &mut Judge) {
    let maxcap = j.args.usize("maxcap", 5);
    let maxlen = j.args.usize("maxlen", 4);
    let shard = j.args.u64("shard", 0);
    let shards = j.args.u64("shards", 1);
    let faults = j.args.str("faults", "none");
    let arity: u8 = match faults.as_str() {
        "none" => 1,
        "fail" => 2,
        _ => 3,
    };
    let max_scripted = 8usize;
    let mut counter = 0u64;
    let mut runs = 0u64;
    for cap in 0..=maxcap {
        for (ti, term) in TERMS.iter().enumerate() {
            // alphabet
            let mut alphabet: Vec<Option<usize>> = (0..=cap + 2).map(Some).collect();
            alphabet.push(None);
            let a = alphabet.len();
            for len in 1..=maxlen {
                let total = (a as u64).pow(len as u32);
                for code in 0..total {
                    counter += 1;
                    if counter % shards != shard {
                        continue;
                    }
                    let mut c = code;
                    let mut ops = Vec::with_capacity(len);
                    for i in 0..len {
                        let sym = alphabet[(c % a as u64) as usize];
                        c /= a as u64;
                        ops.push(match sym {
                            Some(l) => POp::Emit(metric_bytes(i, l)),
                            None => POp::Flush,
                        });
                    }
                    // the degenerate triple (cap 0, no terminator, empty metric) writes no bytes at all: nothing to identify
                    if cap == 0 && term.is_empty() && ops.iter().any(|o| matches!(o, POp::Emit(m) if m.is_empty())) {
                        j.rep.obs("degenerate_histories_skipped", 1);
                        continue;
                    }
                    // DFS over fault assignments
                    let mut choices: Vec<u8> = Vec::new();
                    loop {
                        let rr = run_w1(cap, term, &ops, &choices, None, max_scripted);
                        runs += 1;
                        let ch_s: String = choices.iter().map(|c| (b'0' + c) as char).collect();
                        j.judge(
                            cap,
                            term,
                            &rr.steps,
                            vec![("mode", "one".into()), ("cap", cap.to_string()), ("term-idx", ti.to_string()), ("ops", ops_to_string(&ops)), ("choices", ch_s)],
                            "W1",
                        );
                        if arity == 1 {
                            break;
                        }
                        // extend choices to the attempts that actually occurred (bounded), then increment
                        let t = rr.attempts_total.min(max_scripted);
                        choices.resize(t.max(choices.len().min(t)), 0);
                        choices.truncate(t);
                        let mut p = choices.len();
                        let mut advanced = false;
                        while p > 0 {
                            p -= 1;
                            if choices[p] + 1 < arity {
                                choices[p] += 1;
                                choices.truncate(p + 1);
                                advanced = true;
                                break;
                            }
                        }
                        if !advanced {
                            break;
                        }
                        if j.rep.violation_count >= 12 {
                            break;
                        }
                    }
                    if j.rep.violation_count >= 12 {
                        j.rep.exhaustive = Some(false);
                        return;
                    }
                }
            }
        }
    }
    j.rep.obs("enumerated_runs", runs);
    j.rep.exhaustive = Some(true);
    j.rep.note(format!(
        "W1 small scope: capacities 0..={}, terminators \\n \\r\\n and empty, every op sequence of length <= {} over emit(len 0..=cap+2)/flush + drop; fault assignments: {}",
        maxcap,
        maxlen,
        match arity {
            1 => "none".to_string(),
            2 => "every ok/fail assignment to the first 8 attempts".to_string(),
            _ => "every ok/fail/interrupted assignment to the first 8 attempts".to_string(),
        }
    ));
}

fn biased_len(r: &mut Rng, cap: usize, term_len: usize, fill_hint: usize) -> usize {
    let room = cap.saturating_sub(fill_hint);
    let exact_room = room.saturating_sub(term_len);
    match r.below(12) {
        0 => 0,
        1 => exact_room,                          // exactly fills the remaining space
        2 => exact_room.saturating_sub(1),        // one short
        3 => exact_room + 1,                      // one over
        4 => cap.saturating_sub(term_len),        // exactly fills an empty buffer
        5 => cap.saturating_sub(term_len) + 1,    // smallest oversize
        6 => cap + r.range(0, 40) as usize,       // oversize
        7 => cap,                                 // len == capacity
        _ => r.range(0, (cap / 3).max(3) as u64) as usize,
    }
}

/// Sometimes the metric's own bytes end with, start with or contain the line terminator: the writer has to pass them
/// through untouched all the same (the model treats metric bytes as opaque).
fn with_terminator_inside(r: &mut Rng, mut m: Vec<u8>, term: &[u8]) -> Vec<u8> {
    if term.is_empty() || m.len() < term.len() || !r.chance(1, 8) {
        return m;
    }
    let n = m.len();
    let at = match r.below(4) {
        0 => 0,
        1 => r.usize_below(n - term.len() + 1),
        _ => n - term.len(),
    };
    m[at..at + term.len()].copy_from_slice(term);
    m
}

fn unique_metric(idx: usize, len: usize) -> Vec<u8> {
    let head = format!("m{}.", idx);
    let mut v = head.into_bytes();
    v.truncate(len);
    // every third metric is filled with 2-byte characters: its byte length differs from its char count
    let multibyte = idx % 3 == 0;
    while v.len() < len {
        if multibyte && len - v.len() >= 2 {
            v.extend_from_slice("é".as_bytes());
        } else {
            v.push(b'a' + ((idx + v.len()) % 26) as u8);
        }
    }
    v
}

/// The public writer over the standard library's own writers (BufWriter, LineWriter - they advertise vectored writes and
/// take slices only partially when their own small buffer says so) instead of a scripted one: the individual writes are
/// re-chunked by the writer in between, so the judge is the byte STREAM that has reached the bottom once everything is
/// flushed and dropped: the accepted metrics in order, each followed by the terminator unless it went out alone (C05, C06).
fn std_inner_case(j: &mut Judge, cs: u64) {
    #[derive(Clone)]
    struct Rec(Arc<std::sync::Mutex<Vec<u8>>>);
    impl Write for Rec {
        fn write(&mut self, b: &[u8]) -> io::Result<usize> {
            self.0.lock().unwrap().extend_from_slice(b);
            Ok(b.len())
        }
        fn flush(&mut self) -> io::Result<()> {
            Ok(())
        }
    }
    let mut r = Rng::new(cs);
    let cap = r.range(0, 24) as usize;
    let term: &str = *r.pick(&["\n", "", "\r\n", "||"]);
    let k = r.range(0, (cap + 3) as u64) as usize;
    let kind = r.below(3);
    let bottom = Rec(Arc::new(std::sync::Mutex::new(Vec::new())));
    let nops = r.range(2, 30) as usize;
    let mut lens = Vec::new();
    for _ in 0..nops {
        lens.push(match r.below(6) {
            0 => cap.saturating_sub(term.len()),                 // fills the empty buffer exactly
            1 => cap.saturating_sub(term.len()).saturating_sub(1),
            2 => cap.saturating_sub(term.len()) + 1,             // just too large: goes out alone
            3 => 0,
            _ => r.range(0, (cap + 4) as u64) as usize,
        });
    }
    let mut expected: Vec<u8> = Vec::new();
    let mut bad: Option<String> = None;
    fn drive<W: Write>(w: W, cap: usize, term: &str, lens: &[usize], r: &mut Rng, expected: &mut Vec<u8>, bad: &mut Option<String>) {
        let mut wr = MultiLineWriter::with_ending(w, cap, term);
        let mut pending: Vec<u8> = Vec::new();
        let mut written = 0usize; // the writer's own fill count (pieces handed through count too, until the next flush)
        for (i, len) in lens.iter().enumerate() {
            let m = unique_metric(i, *len);
            match panics::guard(|| wr.write(&m)) {
                Ok(Ok(n)) if n == m.len() => {
                    let req = m.len() + term.len();
                    if req > cap {
                        // goes out alone, at once (ahead of what is still buffered)
                        expected.extend_from_slice(&m);
                    } else {
                        if cap - written.min(cap) < req {
                            expected.append(&mut pending);
                            written = 0;
                        }
                        written += req;
                        // (a piece as large as the whole buffer is handed through by the BufWriter inside, after what
                        // it holds: the stream order stays, only the moment differs - which matters when an oversize
                        // metric follows, since that one goes ahead of whatever is still buffered)
                        for piece in [&m[..], term.as_bytes()] {
                            if piece.len() >= cap {
                                expected.append(&mut pending);
                                expected.extend_from_slice(piece);
                            } else {
                                pending.extend_from_slice(piece);
                            }
                        }
                    }
                }
                other => {
                    *bad = Some(format!("write of {} bytes over a writer that accepts everything returned {:?}", m.len(), other.map(|x| x.map_err(|e| e.to_string()))));
                    return;
                }
            }
            if r.chance(1, 5) {
                if !matches!(panics::guard(|| wr.flush()), Ok(Ok(()))) {
                    *bad = Some("flush over a writer that accepts everything failed".into());
                    return;
                }
                expected.append(&mut pending);
                written = 0;
            }
        }
        if !matches!(panics::guard(|| wr.flush()), Ok(Ok(()))) {
            *bad = Some("the last flush over a writer that accepts everything failed".into());
        }
        expected.append(&mut pending);
        drop(wr);
    }
    let name = match kind {
        0 => {
            drive(io::BufWriter::with_capacity(k, bottom.clone()), cap, term, &lens, &mut r, &mut expected, &mut bad);
            "std::io::BufWriter"
        }
        1 => {
            drive(io::LineWriter::with_capacity(k, bottom.clone()), cap, term, &lens, &mut r, &mut expected, &mut bad);
            "std::io::LineWriter"
        }
        _ => {
            drive(bottom.clone(), cap, term, &lens, &mut r, &mut expected, &mut bad);
            "a plain writer"
        }
    };
    j.rep.eval();
    j.rep.obs("histories_over_the_standard_librarys_own_writers", 1);
    j.rep.distinct(&format!("W1-std|{}|{}|{}|{}", kind, cap.min(9), term.len(), k.min(5)));
    let got = bottom.0.lock().unwrap().clone();
    if bad.is_none() && got != expected {
        let at = got.iter().zip(expected.iter()).position(|(a, b)| a != b).unwrap_or(got.len().min(expected.len()));
        bad = Some(format!("after the last flush and the drop the bytes that reached the bottom differ from the accepted metrics with their terminators: {} bytes instead of {}, first difference at byte {} (lengths emitted: {:?})", got.len(), expected.len(), at, lens));
    }
    if let Some(b) = bad {
        if j.prop == "C05" || j.prop == "C06" {
            let p = j.prop.clone();
            j.rep.violation(Violation { property: p, rule: "F1".into(), class: "stream-differs".into(), detail: format!("[W1 over {} (its capacity {}) cap={} term={:?}] {}", name, k, cap, term, b), replay_args: j.args.to_vec_with(&[("std-case", cs.to_string())]), trace: Json::Null });
        }
    }
}

fn mode_random(j: &mut Judge) {
    if let Some(cs) = j.args.get("std-case").and_then(|s| s.parse::<u64>().ok()) {
        std_inner_case(j, cs);
        return;
    }
    let seed = j.args.u64("seed", 1);
    let shard = j.args.u64("shard", 0);
    let cases = j.args.u64("cases", 1000);
    let faults = j.args.str("faults", "none") != "none";
    let only = j.args.get("case-seed").map(|s| s.parse::<u64>().unwrap());
    for i in 0..cases {
        let cs = only.unwrap_or_else(|| mix(&[seed, 0xF4A3, shard, i]));
        let mut r = Rng::new(cs);
        random_case(j, &mut r, faults, vec![("mode", "random".into()), ("case-seed", cs.to_string()), ("cases", "1".into())], 2000);
        if only.is_none() && !faults && i % 4 == 0 {
            std_inner_case(j, cs ^ 0x57D);
        }
        if only.is_some() || j.rep.violation_count >= 12 {
            break;
        }
    }
}

/// One random W1 history drawn from `r` (a seeded PRNG, or a fuzzer's input through Rng::from_bytes).
fn random_case(j: &mut Judge, r: &mut Rng, faults: bool, replay: Vec<(&str, String)>, max_long: u64) {
    let cap = match r.below(8) {
        0 => r.range(0, 8) as usize,
        1 => *r.pick(&[16usize, 64, 512, 1432, 1500]),
        _ => r.range(1, 300) as usize,
    };
    let term = *r.pick(&TERMS_RANDOM);
    let nops = match r.below(6) {
        0 => r.range(200, max_long.max(200)),
        _ => r.range(10, 120),
    } as usize;
    let mut ops = Vec::with_capacity(nops);
    let mut fill_hint = 0usize;
    // a fifth of the fault histories: the wrapped writer answers some refused writes of buffered lines with Ok(0)
    // (metrics of such a history never end with the terminator, so that a write of lines is recognisable)
    let zero = faults && !term.is_empty() && r.chance(1, 5);
    let api_variety = r.chance(1, 4);
    for k in 0..nops {
        if r.chance(1, 9) {
            ops.push(POp::Flush);
            fill_hint = 0;
        } else {
            let mut len = biased_len(r, cap, term.len(), fill_hint);
            if cap == 0 && term.is_empty() && len == 0 {
                len = 1;
            }
            let req = len + term.len();
            if req <= cap {
                if req > cap - fill_hint.min(cap) {
                    fill_hint = 0;
                }
                fill_hint += req;
            }
            let m = unique_metric(k, len);
            // (in these histories a metric never looks like a line: write_all retries an interrupted direct write by
            // itself, and two attempts in one call must not be mistaken for a write of the buffered lines)
            let m = if zero || api_variety { m } else { with_terminator_inside(r, m, term.as_bytes()) };
            // the writer is a `Write`: its other methods are part of the public surface too
            ops.push(match if api_variety { r.below(8) } else { 0 } {
                5 if m.len() >= 8 || m.is_empty() => POp::EmitAll(m),
                6 | 7 if !zero => {
                    // cut the value into 2-3 slices (some empty), or pass it as the only slice
                    let mut cuts: Vec<usize> = (0..r.below(3)).map(|_| r.usize_below(m.len() + 1)).collect();
                    cuts.sort();
                    let mut slices = Vec::new();
                    let mut at = 0;
                    for c in cuts {
                        slices.push(m[at..c].to_vec());
                        at = c;
                    }
                    slices.push(m[at..].to_vec());
                    POp::EmitVectored(slices)
                }
                _ => POp::Emit(m),
            });
        }
    }
    let random = if faults {
        let pf = *r.pick(&[0u64, 20, 100, 300, 750]);
        let pi = *r.pick(&[0u64, 0, 30, 150]);
        Some((r.fork(), pf, pi))
    } else {
        None
    };
    if zero {
        j.rep.obs("histories_with_a_writer_that_answers_ok_0", 1);
    }
    if api_variety {
        j.rep.obs("histories_using_write_all_and_write_vectored", 1);
    }
    let rr = run_w1z(cap, term, &ops, &[], random, 0, zero);
    j.judge(cap, term, &rr.steps, replay, "W1");
}

#[allow(dead_code)]
pub fn fuzz_one(data: &[u8]) {
    cvh::fuzz::step("frame_driver(fuzz)", |rep, args| fuzz_case(rep, args, data));
}

fn fuzz_case(rep: &mut Report, args: &Args, data: &[u8]) {
    let prop = args.str("property", "C05");
    let mut j = Judge { rep, prop: prop.clone(), args };
    let mut r = Rng::from_bytes(data);
    let faults = prop == "C07" || (prop == "C06" && r.chance(1, 2));
    let hexs = cvh::fuzz::hex(data);
    random_case(&mut j, &mut r, faults, vec![("mode", "fuzz-one".into()), ("hex", hexs)], 400);
}

/// Large capacities (around and above std's default BufWriter size 8192 and above 64 KiB): many short metrics until
/// the buffer has wrapped at least once, and single metrics just below the capacity.
fn mode_random_big(j: &mut Judge) {
    let seed = j.args.u64("seed", 1);
    let shard = j.args.u64("shard", 0);
    let cases = j.args.u64("cases", 20);
    let faults = j.args.str("faults", "none") != "none";
    let only = j.args.get("case-seed").map(|s| s.parse::<u64>().unwrap());
    for i in 0..cases {
        let cs = only.unwrap_or_else(|| mix(&[seed, 0xB16, shard, i]));
        let mut r = Rng::new(cs);
        if i % 3 == 2 {
            // line-count histories: exactly N tiny lines sit in a buffer that is large enough for all of them when the
            // flush comes (N around the limits of 8- and 16-bit counters), then a few more lines and the drop
            let n = *r.pick(&[255usize, 256, 257, 65535, 65536, 65537, 131072]);
            let len = r.usize_below(2);
            let cap = n * (len + 1) + *r.pick(&[0usize, 1, 10, 1000]) + 3 * (len + 1);
            let mut ops = Vec::with_capacity(n + 8);
            for k in 0..n {
                ops.push(POp::Emit(if len == 0 { Vec::new() } else { vec![b'a' + (k % 26) as u8] }));
            }
            ops.push(POp::Flush);
            ops.push(POp::Flush);
            for k in 0..3 {
                ops.push(POp::Emit(if len == 0 { Vec::new() } else { vec![b'A' + k as u8] }));
            }
            let rr = run_w1(cap, "\n", &ops, &[], None, 0);
            j.judge(cap, "\n", &rr.steps, vec![("mode", "random-big".into()), ("case-seed", cs.to_string()), ("cases", "1".into())], "W1-line-count");
            j.rep.obs("histories_with_exactly_2^8_2^16_or_2^17_lines_buffered_at_the_flush", 1);
            if only.is_some() || j.rep.violation_count >= 12 {
                break;
            }
            continue;
        }
        let cap = *r.pick(&[8191usize, 8192, 8193, 9000, 16384, 65535, 65536, 65537, 70000, 100000, 200000]);
        let term = *r.pick(&TERMS);
        let mut ops = Vec::new();
        let mut total = 0usize;
        let target = cap + cap / 2 + r.range(0, 5000) as usize;
        let short_max = *r.pick(&[8usize, 16, 40, 63, 64, 200]);
        let mut k = 0usize;
        while total < target && ops.len() < 60000 {
            if r.chance(1, 400) {
                ops.push(POp::Flush);
            } else {
                let len = if r.chance(1, 300) {
                    // one big metric: at a power-of-two boundary or just below the capacity
                    let hi = cap.saturating_sub(term.len());
                    *r.pick(&[8191usize, 8192, 8193, 65535, 65536, 65537, hi.saturating_sub(1), hi, hi / 2]).min(&(cap + 10))
                } else {
                    r.range(0, short_max as u64) as usize
                };
                total += len + term.len();
                ops.push(POp::Emit(unique_metric(k, len)));
            }
            k += 1;
        }
        let random = if faults { Some((r.fork(), *r.pick(&[0u64, 5, 50]), 0u64)) } else { None };
        let rr = run_w1(cap, term, &ops, &[], random, 0);
        j.judge(cap, term, &rr.steps, vec![("mode", "random-big".into()), ("case-seed", cs.to_string()), ("cases", "1".into())], "W1-big");
        j.rep.obs("big_capacity_histories", 1);
        if only.is_some() || j.rep.violation_count >= 12 {
            break;
        }
    }
}

// ------------------------------------------------------------------------------------------------
// W2: BufferedSpyMetricSink observed at its channel; a bounded channel left full is the fault injector
// ------------------------------------------------------------------------------------------------

fn io_res_emit(r: Result<io::Result<usize>, String>) -> Res {
    match r {
        Ok(Ok(n)) => Res::OkN(n),
        Ok(Err(_)) => Res::Err(None),
        Err(p) => Res::Panicked(p),
    }
}

fn io_res_flush(r: Result<io::Result<()>, String>) -> Res {
    match r {
        Ok(Ok(())) => Res::OkUnit,
        Ok(Err(_)) => Res::Err(None),
        Err(p) => Res::Panicked(p),
    }
}

fn mode_spy(j: &mut Judge) {
    let seed = j.args.u64("seed", 1);
    let shard = j.args.u64("shard", 0);
    let cases = j.args.u64("cases", 500);
    let faults = j.args.str("faults", "none") != "none";
    let only = j.args.get("case-seed").map(|s| s.parse::<u64>().unwrap());
    for i in 0..cases {
        let cs = only.unwrap_or_else(|| mix(&[seed, 0x5B1, shard, i]));
        let mut r = Rng::new(cs);
        let default_cap = r.chance(1, 6);
        let cap = if default_cap { 512 } else if r.chance(1, 5) { r.range(0, 6) as usize } else { r.range(1, 200) as usize };
        // fault injector: a bounded channel that the harness leaves (partly) full. Successes of a call are counted with
        // Receiver::len() before/after the call; their contents are learned when the channel is drained (FIFO).
        let queue = if faults { Some(r.range(1, 3) as usize) } else { None };
        let (rx, sink) = if default_cap && queue.is_none() { BufferedSpyMetricSink::new() } else { BufferedSpyMetricSink::with_capacity(queue, if default_cap { None } else { Some(cap) }) };
        let nops = r.range(5, 80) as usize;
        // in a fifth of the fault histories the receiving end goes away for good at some step: from then on every write
        // the sink attempts fails (and is reported as a failure - each one, not only the first)
        let gone_at = if faults && r.chance(1, 5) { Some(r.range(1, nops as u64) as usize) } else { None };
        let mut rx = Some(rx);
        let reuse_buffer = cs % 2 == 0;
        let mut line_buf = String::with_capacity(8192);
        if reuse_buffer {
            j.rep.obs("spy_histories_emitting_from_one_reused_string_buffer", 1);
        }
        let mut calls: Vec<(Op, Res, usize)> = Vec::new();
        let mut arrived: Vec<Vec<u8>> = Vec::new();
        let mut fill_hint = 0usize;
        for k in 0..nops {
            if gone_at == Some(k) {
                if let Some(rx) = rx.take() {
                    while let Ok(b) = rx.try_recv() {
                        arrived.push(b);
                    }
                }
                j.rep.obs("spy_histories_whose_receiver_goes_away_midway", 1);
            }
            if let Some(rx) = &rx {
                if !faults || r.chance(1, 2) {
                    while let Ok(b) = rx.try_recv() {
                        arrived.push(b);
                    }
                } else if r.chance(1, 2) {
                    if let Ok(b) = rx.try_recv() {
                        arrived.push(b);
                    }
                }
            }
            let before = rx.as_ref().map(|x| x.len()).unwrap_or(0);
            let (op, res) = if r.chance(1, 12) {
                let _ = panics::guard(|| sink.stats());
                (Op::Query, Res::OkUnit)
            } else if r.chance(1, 8) {
                fill_hint = 0;
                (Op::Flush, io_res_flush(panics::guard(|| sink.flush())))
            } else {
                let len = biased_len(&mut r, cap, 1, fill_hint).min(5000);
                let req = len + 1;
                if req <= cap {
                    if req > cap - fill_hint.min(cap) {
                        fill_hint = 0;
                    }
                    fill_hint += req;
                }
                // (ASCII metrics only: the sink takes a &str, and a newline must not cut a multi-byte character)
                let m = if k % 3 != 0 { with_terminator_inside(&mut r, unique_metric(k, len), b"\n") } else { unique_metric(k, len) };
                // every other history formats all its metrics into ONE reused String (same address, often the same
                // length, different content): a sink has no business remembering a buffer it was lent
                if reuse_buffer {
                    line_buf.clear();
                    line_buf.push_str(std::str::from_utf8(&m).unwrap());
                    (Op::Emit(m), io_res_emit(panics::guard(|| sink.emit(&line_buf))))
                } else {
                    let ms = String::from_utf8(m.clone()).unwrap();
                    (Op::Emit(m), io_res_emit(panics::guard(|| sink.emit(&ms))))
                }
            };
            let after = rx.as_ref().map(|x| x.len()).unwrap_or(0);
            let panicked = matches!(res, Res::Panicked(_));
            calls.push((op, res, after.saturating_sub(before)));
            if panicked {
                break;
            }
        }
        // a twelfth of the fault histories leave the channel as it is before the drop (the others make room for the drop's
        // write): if it is full and something is still buffered - a last flush tells, as below - the drop's one write
        // attempt fails there and then. A reader that starts draining a moment later changes nothing about that: a
        // destructor that waits for room, or tries again, is seen as datagrams arriving late or twice.
        let full_at_drop = faults && rx.is_some() && r.chance(1, 12);
        let mut sink = Some(sink);
        if let (Some(rx), false) = (&rx, full_at_drop) {
            while let Ok(b) = rx.try_recv() {
                arrived.push(b);
            }
        }
        let mut late: Option<(usize, Vec<Vec<u8>>)> = None;
        if full_at_drop {
            let b4 = rx.as_ref().map(|x| x.len()).unwrap_or(0);
            let fr = io_res_flush(panics::guard(|| sink.as_ref().unwrap().flush()));
            let was_full = matches!(fr, Res::Err(_));
            calls.push((Op::Flush, fr, rx.as_ref().map(|x| x.len()).unwrap_or(0).saturating_sub(b4)));
            if was_full {
                j.rep.obs("spy_sinks_dropped_with_lines_buffered_and_the_channel_full_while_a_reader_starts_late", 1);
                let rxr = rx.as_ref().unwrap();
                let in_channel = rxr.len();
                let mut got: Vec<Vec<u8>> = Vec::new();
                let mut dropres = None;
                std::thread::scope(|sc| {
                    let h = sc.spawn(|| {
                        let mut v = Vec::new();
                        std::thread::sleep(std::time::Duration::from_millis(30));
                        let t0 = std::time::Instant::now();
                        while t0.elapsed() < std::time::Duration::from_millis(320) {
                            match rxr.try_recv() {
                                Ok(b) => v.push(b),
                                Err(_) => std::thread::sleep(std::time::Duration::from_millis(2)),
                            }
                        }
                        v
                    });
                    let sk = sink.take();
                    dropres = Some(panics::guard(move || drop(sk)));
                    got = h.join().unwrap_or_default();
                });
                let r2 = dropres.unwrap();
                let n_drop = got.len().saturating_sub(in_channel);
                arrived.extend(got);
                // (the attempt that failed is inferred only if nothing of the drop arrived)
                calls.push((Op::Drop, if let Err(p) = r2 { Res::Panicked(p) } else { Res::Dropped }, n_drop));
                late = Some((n_drop, Vec::new()));
            }
        }
        if let Some((n_drop, _)) = &late {
            let n_drop = *n_drop;
            let mut it = arrived.into_iter();
            let mut steps = Vec::new();
            for (op, res, n) in calls {
                let mut attempts: Vec<Attempt> = Vec::new();
                for _ in 0..n {
                    if let Some(b) = it.next() {
                        attempts.push(Attempt { bytes: Some(b), out: AOut::Ok });
                    }
                }
                if matches!(res, Res::Err(_)) || (matches!(op, Op::Drop) && n_drop == 0) {
                    attempts.push(Attempt { bytes: None, out: AOut::Failed(0) });
                }
                steps.push(Step { op, attempts, res });
            }
            j.judge(cap, "\n", &steps, vec![("case-seed", cs.to_string()), ("cases", "1".into())], "W2-full-at-drop");
            if only.is_some() || j.rep.violation_count >= 12 {
                break;
            }
            continue;
        }
        // with the receiver gone the drop's own write (if there is anything to write) fails unseen: a last flush tells
        // whether there is - it fails exactly when something is still buffered, and leaves it buffered
        let mut drop_write_fails = false;
        if rx.is_none() {
            let fr = io_res_flush(panics::guard(|| sink.as_ref().unwrap().flush()));
            drop_write_fails = matches!(fr, Res::Err(_));
            calls.push((Op::Flush, fr, 0));
        }
        let before = arrived.len();
        let sk = sink.take();
        let r2 = panics::guard(move || drop(sk));
        if let Some(rx) = &rx {
            while let Ok(b) = rx.try_recv() {
                arrived.push(b);
            }
        }
        let drop_n = arrived.len() - before;
        calls.push((Op::Drop, if let Err(p) = r2 { Res::Panicked(p) } else { Res::Dropped }, drop_n));
        // distribute the arrived messages over the calls (FIFO)
        let mut it = arrived.into_iter();
        let mut steps = Vec::new();
        for (op, res, n) in calls {
            let mut attempts: Vec<Attempt> = Vec::new();
            for _ in 0..n {
                if let Some(b) = it.next() {
                    attempts.push(Attempt { bytes: Some(b), out: AOut::Ok });
                }
            }
            if matches!(res, Res::Err(_)) || (matches!(op, Op::Drop) && drop_write_fails) {
                // the failed attempt itself leaves no message: it is inferred from the result (always the last attempt of a call)
                attempts.push(Attempt { bytes: None, out: AOut::Failed(0) });
            }
            steps.push(Step { op, attempts, res });
        }
        if it.next().is_some() {
            j.rep.inconclusive("spy: more messages on the channel than counted during the calls");
        }
        j.judge(cap, "\n", &steps, vec![("case-seed", cs.to_string()), ("cases", "1".into())], if default_cap { "W2-default-capacity" } else { "W2" });
        if only.is_some() || j.rep.violation_count >= 12 {
            break;
        }
    }
}

// ------------------------------------------------------------------------------------------------
// W5: flush delegation through StatsdClient::flush and QueuingMetricSink::flush
// ------------------------------------------------------------------------------------------------

struct Counting<S: MetricSink> {
    inner: S,
    done: Arc<AtomicU64>,
    /// while set, an emit that has been entered waits before it reaches the wrapped buffered sink (stands for
    /// "the queue's thread was descheduled between taking the metric and handing it over")
    hold: Arc<std::sync::atomic::AtomicBool>,
    /// while `hold` is set: one waiting emit may pass per permit
    permits: Arc<AtomicU64>,
    entered: Arc<AtomicU64>,
    /// number of emits the wrapped (buffered) sink answered with Ok
    inner_ok: Arc<AtomicU64>,
}

impl<S: MetricSink> MetricSink for Counting<S> {
    fn emit(&self, m: &str) -> io::Result<usize> {
        // counted even if the wrapped sink unwinds, so that a waiting harness thread is never stuck
        struct Done<'a>(&'a AtomicU64);
        impl<'a> Drop for Done<'a> {
            fn drop(&mut self) {
                self.0.fetch_add(1, Ordering::SeqCst);
            }
        }
        let _d = Done(&self.done);
        self.entered.fetch_add(1, Ordering::SeqCst);
        let t0 = std::time::Instant::now();
        while self.hold.load(Ordering::SeqCst) && t0.elapsed().as_secs() < 90 {
            let p = self.permits.load(Ordering::SeqCst);
            if p > 0 && self.permits.compare_exchange(p, p - 1, Ordering::SeqCst, Ordering::SeqCst).is_ok() {
                break;
            }
            std::thread::yield_now();
        }
        // a wrapper may refuse a metric on its own account: the buffered sink behind it never sees that metric
        if m.contains("refuseme") {
            return Err(io::Error::new(io::ErrorKind::InvalidData, "refused by the wrapper"));
        }
        // ... or panic over it (only asked for behind a queuing sink: the panic stays on the queue's thread)
        if m.contains("panicme") {
            panic!("scripted-panic: the wrapper in front of the buffered sink");
        }
        let r = self.inner.emit(m);
        if r.is_ok() {
            self.inner_ok.fetch_add(1, Ordering::SeqCst);
        }
        r
    }
    fn flush(&self) -> io::Result<()> {
        self.inner.flush()
    }
}

/// The same sink behind two clients.
struct SharedSink<S: MetricSink>(Arc<S>);

impl<S: MetricSink> MetricSink for SharedSink<S> {
    fn emit(&self, m: &str) -> io::Result<usize> {
        self.0.emit(m)
    }
    fn flush(&self) -> io::Result<()> {
        self.0.flush()
    }
    fn stats(&self) -> cadence::SinkStats {
        self.0.stats()
    }
}

/// W5 under write failures: a buffered spy sink whose channel holds 1-2 datagrams (a full channel refuses the write) behind
/// a client, or behind a queuing sink behind a client. Random emit / flush / drain histories; the one rule judged here
/// is C06's unconditional one - whatever failed before: when a flush through the client returns Ok, every metric the
/// buffered sink accepted so far is in the datagram stream exactly once; likewise after the drop (whose own write is
/// given room).
fn mode_delegate_faults(j: &mut Judge) {
    use cadence::prelude::*;
    use cadence::Metric;
    let seed = j.args.u64("seed", 1);
    let shard = j.args.u64("shard", 0);
    let cases = j.args.u64("cases", 100);
    let only = j.args.get("case-seed").map(|s| s.parse::<u64>().unwrap());
    for i in 0..cases {
        let cs = only.unwrap_or_else(|| mix(&[seed, 0xDE1F, shard, i]));
        let mut r = Rng::new(cs);
        let cap = r.range(24, 120) as usize;
        let chan = r.range(1, 2) as usize;
        let (rx, spy) = BufferedSpyMetricSink::with_capacity(Some(chan), Some(cap));
        let done = Arc::new(AtomicU64::new(0));
        let inner_ok = Arc::new(AtomicU64::new(0));
        let counting = Counting { inner: spy, done: done.clone(), hold: Arc::new(std::sync::atomic::AtomicBool::new(false)), permits: Arc::new(AtomicU64::new(0)), entered: Arc::new(AtomicU64::new(0)), inner_ok: inner_ok.clone() };
        let qvariant = r.below(5);
        let client = match qvariant {
            0 => StatsdClient::from_sink("", counting),
            1 => StatsdClient::from_sink("", QueuingMetricSink::from(counting)),
            2 => StatsdClient::from_sink("", QueuingMetricSink::with_capacity(counting, 4096)),
            3 => StatsdClient::from_sink("", QueuingMetricSink::builder().with_error_handler(|_e| {}).build(counting)),
            _ => StatsdClient::builder("", counting).with_error_handler(|_e| {}).build(),
        };
        let label = ["W5f-client", "W5f-queue", "W5f-queue(cap)", "W5f-queue(handler)", "W5f-client(builder)"][qvariant as usize];
        let mut accepted: Vec<Vec<u8>> = Vec::new();
        let mut stream: Vec<u8> = Vec::new();
        let mut sent = 0u64;
        let mut failures = 0u64;
        let mut hist: Vec<String> = Vec::new();
        let mut verdict: Option<(&'static str, String)> = None;
        j.rep.eval();
        let count_in = |stream: &[u8], line: &[u8]| stream.windows(line.len()).filter(|w| *w == line).count();
        let nops = r.range(6, 40) as usize;
        for k in 0..nops {
            match r.below(10) {
                0 | 1 => {
                    let mut n = 0;
                    while let Ok(b) = rx.try_recv() {
                        stream.extend_from_slice(&b);
                        n += 1;
                    }
                    hist.push(format!("drain({})", n));
                }
                2 | 3 => {
                    let res = panics::guard(|| client.flush());
                    match res {
                        Ok(Ok(())) => {
                            while let Ok(b) = rx.try_recv() {
                                stream.extend_from_slice(&b);
                            }
                            hist.push("flush=Ok".into());
                            j.rep.obs("ok_flushes_after_earlier_failures", (failures > 0) as u64);
                            if let Some(l) = accepted.iter().find(|l| count_in(&stream, l) != 1) {
                                verdict = Some(("flush-left-data", format!("flush through the client returned Ok but the accepted metric {:?} is in the datagram stream {} time(s)", clip_bytes(l, 40), count_in(&stream, l))));
                                break;
                            }
                        }
                        Ok(Err(e)) => {
                            failures += 1;
                            hist.push(format!("flush=Err({})", e));
                        }
                        Err(p) => {
                            hist.push(format!("flush PANIC {}", p));
                            break;
                        }
                    }
                }
                _ => {
                    let key = format!("k{:04}x", k);
                    let before_ok = inner_ok.load(Ordering::SeqCst);
                    let res = panics::guard(|| client.gauge(&key, r.below(1000)));
                    match res {
                        Ok(Ok(m)) => {
                            sent += 1;
                            let t0 = std::time::Instant::now();
                            while done.load(Ordering::SeqCst) < sent && t0.elapsed().as_secs() < 60 {
                                std::thread::yield_now();
                            }
                            if done.load(Ordering::SeqCst) < sent {
                                j.rep.inconclusive("delegate-faults: the queuing sink did not hand a metric over within 60 s");
                                return;
                            }
                            if inner_ok.load(Ordering::SeqCst) > before_ok {
                                let mut l = m.as_metric_str().as_bytes().to_vec();
                                l.push(b'\n');
                                accepted.push(l);
                                hist.push(format!("emit({})=Ok", key));
                            } else {
                                failures += 1;
                                hist.push(format!("emit({})=Ok at the client, refused by the buffered sink", key));
                            }
                        }
                        Ok(Err(e)) => {
                            // direct client: the buffered sink refused (its flush to make room failed); through a queue
                            // the wrapped sink was reached all the same - count that too
                            if qvariant >= 1 && qvariant <= 3 {
                                hist.push(format!("emit({})=Err({}) from the queue", key, e));
                            } else {
                                sent += 1;
                                failures += 1;
                                hist.push(format!("emit({})=Err({})", key, e));
                            }
                        }
                        Err(p) => {
                            hist.push(format!("emit PANIC {}", p));
                            break;
                        }
                    }
                }
            }
        }
        if verdict.is_none() {
            // give the drop's own write room, then drop and collect everything
            while let Ok(b) = rx.try_recv() {
                stream.extend_from_slice(&b);
            }
            drop(client);
            let t0 = std::time::Instant::now();
            loop {
                match rx.recv_timeout(std::time::Duration::from_millis(200)) {
                    Ok(b) => stream.extend_from_slice(&b),
                    Err(crossbeam_channel::RecvTimeoutError::Disconnected) => break,
                    Err(crossbeam_channel::RecvTimeoutError::Timeout) => {
                        if t0.elapsed().as_secs() > 60 {
                            j.rep.inconclusive("delegate-faults: wrapped sink not released within 60 s after the client was dropped");
                            return;
                        }
                    }
                }
            }
            hist.push("drop".into());
            if let Some(l) = accepted.iter().find(|l| count_in(&stream, l) != 1) {
                verdict = Some(("lost-at-drop", format!("the sink was dropped (with room for its last write) but the accepted metric {:?} is in the datagram stream {} time(s)", clip_bytes(l, 40), count_in(&stream, l))));
            }
        }
        j.rep.obs("delegate_fault_histories", 1);
        j.rep.obs("write_failures_in_delegate_histories", failures);
        j.rep.obs("metrics_accepted", accepted.len() as u64);
        j.rep.distinct(&format!("{}|{}|{}|{}", label, chan, failures.min(6), accepted.len().min(12)));
        if let Some((class, detail)) = verdict {
            let v = FrameViolation { rule: "F2", class, detail: detail.clone(), step: hist.len(), after_fault: failures > 0 };
            if attribute(&v).contains(&j.prop.as_str()) {
                let rargs = j.args.to_vec_with(&[("case-seed", cs.to_string()), ("cases", "1".into())]);
                j.rep.violation(Violation {
                    property: j.prop.clone(),
                    rule: "F2".into(),
                    class: class.into(),
                    detail: format!("[{} cap={} channel={}] {}", label, cap, chan, detail),
                    replay_args: rargs,
                    trace: jobj! {"embodiment" => label, "capacity" => cap, "channel_slots" => chan, "history" => Json::Arr(hist.iter().map(|h| Json::Str(h.clone())).collect())},
                });
            } else {
                j.rep.obs("other_property_rule_hits", 1);
            }
        }
        if only.is_some() || j.rep.violation_count >= 12 {
            break;
        }
    }
}


/// Real pauses between calls (1.3 s and 2.6 s of wall-clock time; the histories run side by side): a buffered sink -
/// used directly, through a client, or behind a queuing sink that sits idle meanwhile - writes nothing "after a
/// while". (Hour-long pauses are covered on Miri's virtual clock by `miri_time`; this is the native counterpart, which
/// also sees code that reads the wall clock.)
fn mode_pauses(j: &mut Judge) {
    use cadence::prelude::*;
    let rounds = j.args.u64("rounds", 1);
    for round in 0..rounds {
        let mut joins = Vec::new();
        for variant in 0..7u64 {
            let pauses: [u64; 2] = if (variant + round) % 2 == 0 { [1300, 2600] } else { [2600, 1300] };
            joins.push(std::thread::spawn(move || -> Result<(usize, Vec<Step>, &'static str), String> {
                let cap = 64usize;
                let (rx, spy) = BufferedSpyMetricSink::with_capacity(None, Some(cap));
                let label: &'static str;
                let mut queue: Option<QueuingMetricSink> = None;
                let client = match variant {
                    0 => {
                        label = "W2-pauses";
                        StatsdClient::from_sink("", spy)
                    }
                    1 => {
                        label = "W5-client-pauses";
                        StatsdClient::from_sink("", SharedSink(Arc::new(spy)))
                    }
                    v => {
                        label = ["W5-queue-pauses", "W5-queue(cap)-pauses", "W5-queue(handler)-pauses", "W5-queue(cap+handler)-pauses", "W5-queue(two handles)-pauses"][(v - 2) as usize];
                        let q = match v {
                            2 | 6 => QueuingMetricSink::from(spy),
                            3 => QueuingMetricSink::with_capacity(spy, 16),
                            4 => QueuingMetricSink::builder().with_error_handler(|_e| {}).build(spy),
                            _ => QueuingMetricSink::builder().with_capacity(16).with_error_handler(|_e| {}).build(spy),
                        };
                        queue = Some(q.clone());
                        StatsdClient::from_sink("", q)
                    }
                };
                let mut steps = Vec::new();
                let mut sent = 0u64;
                let take = |rx: &crossbeam_channel::Receiver<Vec<u8>>| -> Vec<Attempt> {
                    let mut a = Vec::new();
                    while let Ok(b) = rx.try_recv() {
                        a.push(Attempt { bytes: Some(b), out: AOut::Ok });
                    }
                    a
                };
                for (k, pause) in pauses.iter().enumerate() {
                    let m = client.count(&format!("pause{}_{}", variant, k), 1i64).map_err(|e| e.to_string())?;
                    sent += 1;
                    if let Some(q) = &queue {
                        let t0 = std::time::Instant::now();
                        while q.drained() < sent {
                            if t0.elapsed().as_secs() > 60 {
                                return Err("the queuing sink did not hand a metric over within 60 s".into());
                            }
                            std::thread::yield_now();
                        }
                        // (drained is counted before the wrapped sink is called: give the call itself a moment)
                        std::thread::sleep(std::time::Duration::from_millis(20));
                    }
                    let text = cadence::Metric::as_metric_str(&m).as_bytes().to_vec();
                    let n = text.len();
                    steps.push(Step { op: Op::Emit(text), attempts: take(&rx), res: Res::OkN(n) });
                    std::thread::sleep(std::time::Duration::from_millis(*pause));
                    // a read-only step: whatever arrived during the pause was written without need
                    steps.push(Step { op: Op::Query, attempts: take(&rx), res: Res::OkUnit });
                }
                if variant == 6 {
                    // one of two handles goes away, then another pause
                    drop(queue.take());
                    std::thread::sleep(std::time::Duration::from_millis(1300));
                    steps.push(Step { op: Op::Query, attempts: take(&rx), res: Res::OkUnit });
                }
                let fres = match client.flush() {
                    Ok(()) => Res::OkUnit,
                    Err(_) => Res::Err(None),
                };
                steps.push(Step { op: Op::Flush, attempts: take(&rx), res: fres });
                drop(queue.take());
                drop(client);
                let mut attempts = Vec::new();
                let t0 = std::time::Instant::now();
                loop {
                    match rx.recv_timeout(std::time::Duration::from_millis(200)) {
                        Ok(b) => attempts.push(Attempt { bytes: Some(b), out: AOut::Ok }),
                        Err(crossbeam_channel::RecvTimeoutError::Disconnected) => break,
                        Err(crossbeam_channel::RecvTimeoutError::Timeout) => {
                            if t0.elapsed().as_secs() > 60 {
                                return Err("wrapped sink not released within 60 s after the client was dropped".into());
                            }
                        }
                    }
                }
                steps.push(Step { op: Op::Drop, attempts, res: Res::Dropped });
                Ok((cap, steps, label))
            }));
        }
        for jh in joins {
            match jh.join() {
                Ok(Ok((cap, steps, label))) => {
                    j.judge(cap, "\n", &steps, vec![("rounds", "1".into())], label);
                    j.rep.obs("histories_with_real_pauses", 1);
                    j.rep.obs("seconds_paused_with_lines_buffered", 4);
                }
                Ok(Err(why)) => j.rep.inconclusive(format!("pauses: {}", why)),
                Err(_) => j.rep.inconclusive("pauses: a history thread panicked"),
            }
        }
    }
}

/// A flush through the queuing sink made by the queue's OWN thread - from its error handler, the one place where user code
/// runs there ("on error, push out what we have"): when it returns Ok, everything the buffered sink accepted so far is on
/// the wire, as for a flush from any other thread (C06).
fn handler_flush_case(j: &mut Judge, cs: u64) {
    use std::sync::Mutex;
    struct Refuser {
        inner: BufferedSpyMetricSink,
        accepted: Arc<Mutex<Vec<u8>>>,
    }
    impl MetricSink for Refuser {
        fn emit(&self, m: &str) -> io::Result<usize> {
            if m.contains("refuseme") {
                return Err(io::Error::new(io::ErrorKind::InvalidData, "refused by the wrapper"));
            }
            let r = self.inner.emit(m);
            if r.is_ok() {
                let mut a = self.accepted.lock().unwrap_or_else(|e| e.into_inner());
                a.extend_from_slice(m.as_bytes());
                a.push(b'\n');
            }
            r
        }
        fn flush(&self) -> io::Result<()> {
            self.inner.flush()
        }
    }
    let mut r = Rng::new(cs);
    let cap = r.range(40, 400) as usize;
    let (rx, spy) = BufferedSpyMetricSink::with_capacity(None, Some(cap));
    let accepted = Arc::new(Mutex::new(Vec::<u8>::new()));
    let wire = Arc::new(Mutex::new(Vec::<u8>::new()));
    let bad: Arc<Mutex<Option<String>>> = Arc::new(Mutex::new(None));
    let flushes = Arc::new(AtomicU64::new(0));
    let slot: Arc<Mutex<Option<QueuingMetricSink>>> = Arc::new(Mutex::new(None));
    let (slot2, rx2, acc2, wire2, bad2, fl2) = (std::panic::AssertUnwindSafe(slot.clone()), std::panic::AssertUnwindSafe(rx.clone()), std::panic::AssertUnwindSafe(accepted.clone()), std::panic::AssertUnwindSafe(wire.clone()), std::panic::AssertUnwindSafe(bad.clone()), flushes.clone());
    let q = QueuingMetricSink::builder()
        .with_error_handler(move |_e| {
            let q = slot2.lock().unwrap_or_else(|e| e.into_inner()).clone();
            if let Some(q) = q {
                let res = q.flush();
                fl2.fetch_add(1, Ordering::SeqCst);
                let mut w = wire2.lock().unwrap_or_else(|e| e.into_inner());
                while let Ok(b) = rx2.try_recv() {
                    w.extend_from_slice(&b);
                }
                let a = acc2.lock().unwrap_or_else(|e| e.into_inner());
                if res.is_ok() && *w != *a {
                    let mut b = bad2.lock().unwrap_or_else(|e| e.into_inner());
                    if b.is_none() {
                        *b = Some(format!("flush() called from the queue's error handler returned Ok; the buffered sink had accepted {} bytes of lines, {} bytes are on the wire", a.len(), w.len()));
                    }
                }
            }
        })
        .build(Refuser { inner: spy, accepted: accepted.clone() });
    *slot.lock().unwrap() = Some(q.clone());
    let n = r.range(6, 30);
    for k in 0..n {
        let m = if r.chance(1, 4) { format!("refuseme{}:1|c", k) } else { format!("hf{}.k{}:{}|g", cs % 1000, k, r.below(100000)) };
        let _ = q.emit(&m);
    }
    let _ = q.emit("refuseme.last:1|c");
    let t0 = std::time::Instant::now();
    while q.queued() > 0 && t0.elapsed().as_secs() < 20 {
        std::thread::sleep(std::time::Duration::from_millis(1));
    }
    std::thread::sleep(std::time::Duration::from_millis(3));
    *slot.lock().unwrap() = None;
    drop(q);
    j.rep.eval();
    j.rep.obs("flushes_made_by_the_queues_own_thread_from_its_error_handler", flushes.load(Ordering::SeqCst));
    j.rep.distinct(&format!("W5-handler-flush|{}", cap / 100));
    let b = bad.lock().unwrap_or_else(|e| e.into_inner()).clone();
    if let (Some(b), true) = (b, j.prop == "C06") {
        j.rep.violation(Violation { property: "C06".into(), rule: "F2".into(), class: "flush-left-data".into(), detail: format!("[W5-handler-flush cap={}] {}", cap, b), replay_args: j.args.to_vec_with(&[("case-seed", cs.to_string()), ("cases", "1".into())]), trace: Json::Null });
    }
}

fn mode_delegate(j: &mut Judge) {
    use cadence::prelude::*;
    use cadence::Metric;
    let seed = j.args.u64("seed", 1);
    let shard = j.args.u64("shard", 0);
    let cases = j.args.u64("cases", 100);
    let only = j.args.get("case-seed").map(|s| s.parse::<u64>().unwrap());
    for i in 0..cases {
        let cs = only.unwrap_or_else(|| mix(&[seed, 0xDE1, shard, i]));
        if i % 8 == 0 && only.is_none() {
            handler_flush_case(j, cs ^ 0x4F);
        }
        let mut r = Rng::new(cs);
        let default_cap = r.chance(1, 3);
        let cap = if default_cap { 512 } else { r.range(8, 120) as usize };
        let through_queue = r.chance(1, 2);
        let (rx, spy) = if default_cap { BufferedSpyMetricSink::new() } else { BufferedSpyMetricSink::with_capacity(None, Some(cap)) };
        let done = Arc::new(AtomicU64::new(0));
        let hold = Arc::new(std::sync::atomic::AtomicBool::new(false));
        let entered = Arc::new(AtomicU64::new(0));
        let permits = Arc::new(AtomicU64::new(0));
        let counting = Counting { inner: spy, done: done.clone(), hold: hold.clone(), permits: permits.clone(), entered: entered.clone(), inner_ok: Arc::new(AtomicU64::new(0)) };
        // every way of building the queuing wrapper must delegate flush (and must not lose it behind an error handler)
        let qvariant = r.below(4);
        // a SECOND client shares the sink (a clone of the queuing sink, or an Arc around the buffered sink) and goes away
        // in the middle of the history: that is neither a flush nor the sink's drop - nothing may be written then
        let mut second: Option<StatsdClient> = None;
        let mut make_another: Option<Box<dyn FnOnce() -> StatsdClient>> = None;
        let client = if through_queue {
            let q = match qvariant {
                0 => QueuingMetricSink::from(counting),
                1 => QueuingMetricSink::with_capacity(counting, 4096),
                2 => QueuingMetricSink::builder().with_error_handler(|_e| {}).build(counting),
                _ => QueuingMetricSink::builder().with_capacity(4096).with_error_handler(|_e| {}).build(counting),
            };
            second = Some(StatsdClient::from_sink("other", q.clone()));
            let q3 = q.clone();
            make_another = Some(Box::new(move || StatsdClient::builder("third", q3).with_tag("t", "3").with_error_handler(|_e| {}).build()));
            StatsdClient::from_sink("", q)
        } else {
            let shared = Arc::new(counting);
            second = Some(StatsdClient::from_sink("other", SharedSink(shared.clone())));
            let s3 = shared.clone();
            make_another = Some(Box::new(move || StatsdClient::builder("third", SharedSink(s3)).with_tag("t", "3").with_error_handler(|_e| {}).build()));
            StatsdClient::from_sink("", SharedSink(shared))
        };
        let nops = r.range(3, 40) as usize;
        let mut steps = Vec::new();
        let mut sent = 0u64;
        let mut hist_ok = true;
        // behind the queuing sink the wrapped sink runs on another thread: wait until it has finished the emit, so that
        // the writes an emit triggered are observed before the next call (keeps the history sequential and exact)
        let wait_done = |sent: u64| -> bool {
            let t0 = std::time::Instant::now();
            while done.load(Ordering::SeqCst) < sent {
                if t0.elapsed().as_secs() > 60 {
                    return false;
                }
                std::thread::yield_now();
            }
            true
        };
        let second_goes_at = r.usize_below(nops);
        // ... and a THIRD client is built over the same sink somewhere in the middle (lines may be buffered then):
        // constructing a client is no reason to write either
        let third_comes_at = r.usize_below(nops);
        let mut third: Option<StatsdClient> = None;
        let third_sink: Option<Box<dyn FnOnce() -> StatsdClient>> = None;
        let _ = &third_sink;
        for k in 0..nops {
            if k == third_comes_at && third.is_none() {
                if let Some(mk) = make_another.take() {
                    let res = match panics::guard(mk) {
                        Ok(c) => {
                            third = Some(c);
                            Res::OkUnit
                        }
                        Err(p) => Res::Panicked(p),
                    };
                    std::thread::sleep(std::time::Duration::from_millis(1));
                    let mut attempts = Vec::new();
                    while let Ok(b) = rx.try_recv() {
                        attempts.push(Attempt { bytes: Some(b), out: AOut::Ok });
                    }
                    j.rep.obs("clients_built_over_a_sink_that_is_in_use", 1);
                    steps.push(Step { op: Op::Query, attempts, res });
                }
            }
            if k == second_goes_at {
                if let Some(c2) = second.take() {
                    let res = match panics::guard(move || drop(c2)) {
                        Ok(()) => Res::OkUnit,
                        Err(p) => Res::Panicked(p),
                    };
                    let mut attempts = Vec::new();
                    while let Ok(b) = rx.try_recv() {
                        attempts.push(Attempt { bytes: Some(b), out: AOut::Ok });
                    }
                    j.rep.obs("clients_sharing_the_sink_dropped_mid_history", 1);
                    steps.push(Step { op: Op::Query, attempts, res });
                }
            }
            if r.chance(1, 6) {
                let res = match panics::guard(|| client.flush()) {
                    Ok(Ok(())) => Res::OkUnit,
                    Ok(Err(_)) => Res::Err(None),
                    Err(p) => Res::Panicked(p),
                };
                let mut attempts = Vec::new();
                while let Ok(b) = rx.try_recv() {
                    attempts.push(Attempt { bytes: Some(b), out: AOut::Ok });
                }
                steps.push(Step { op: Op::Flush, attempts, res });
            } else if through_queue && r.chance(1, 8) {
                // a metric the wrapper in front of the buffered sink refuses: the queue's thread sees an error, the
                // buffered sink sees nothing - and has no reason to write
                // (or panics over: the queue replaces its thread - and the buffered sink still has no reason to write)
                let panics_over = r.chance(1, 2);
                let key = format!("{}{}", if panics_over { "panicme" } else { "refuseme" }, k);
                match panics::guard(|| client.gauge(&key, 1u64)) {
                    Ok(Ok(_)) => {
                        sent += 1;
                        if !wait_done(sent) {
                            j.rep.inconclusive("delegate: the queuing sink did not hand a metric over within 60 s");
                            return;
                        }
                        // (the worker may do something right after the failed call: give it a moment)
                        std::thread::sleep(std::time::Duration::from_millis(if panics_over { 6 } else { 2 }));
                        let mut attempts = Vec::new();
                        while let Ok(b) = rx.try_recv() {
                            attempts.push(Attempt { bytes: Some(b), out: AOut::Ok });
                        }
                        j.rep.obs(if panics_over { "metrics_a_wrapper_in_front_of_the_buffered_sink_panicked_over" } else { "metrics_refused_by_a_wrapper_in_front_of_the_buffered_sink" }, 1);
                        steps.push(Step { op: Op::Query, attempts, res: Res::OkUnit });
                    }
                    _ => {
                        hist_ok = false;
                        break;
                    }
                }
            } else {
                let v = r.u64_any_width();
                let klen = r.range(1, (cap / 2).max(2) as u64) as usize;
                let key = String::from_utf8(unique_metric(k, klen)).unwrap().replace('.', "_");
                // sometimes the flush lands while the queue's thread holds a metric it has taken but not handed over yet
                let racy = through_queue && r.chance(1, 3);
                // ... and sometimes further metrics are accepted by the queue meanwhile: they wait BEHIND the held one, the
                // buffered sink has not seen them, and a flush still has to write what the buffered sink did accept
                let backlog = if racy && r.chance(1, 2) { r.range(1, 3) as usize } else { 0 };
                if racy {
                    permits.store(0, Ordering::SeqCst);
                    hold.store(true, Ordering::SeqCst);
                }
                let res = panics::guard(|| client.gauge(&key, v));
                let mut extras = Vec::new();
                let mut held = false;
                if racy {
                    let t0 = std::time::Instant::now();
                    while entered.load(Ordering::SeqCst) < sent + 1 && t0.elapsed().as_secs() < 60 {
                        std::thread::yield_now();
                    }
                    if entered.load(Ordering::SeqCst) >= sent + 1 {
                        held = true;
                        for b in 0..backlog {
                            let key2 = String::from_utf8(unique_metric(k + 1000 * (b + 1), r.range(1, (cap / 2).max(2) as u64) as usize)).unwrap().replace('.', "_");
                            let v2 = r.u64_any_width();
                            extras.push(panics::guard(|| client.gauge(&key2, v2)));
                        }
                        let nfl = r.range(1, 2);
                        for _ in 0..nfl {
                            let fres = match panics::guard(|| client.flush()) {
                                Ok(Ok(())) => Res::OkUnit,
                                Ok(Err(_)) => Res::Err(None),
                                Err(p) => Res::Panicked(p),
                            };
                            let mut attempts = Vec::new();
                            while let Ok(b) = rx.try_recv() {
                                attempts.push(Attempt { bytes: Some(b), out: AOut::Ok });
                            }
                            steps.push(Step { op: Op::Flush, attempts, res: fres });
                        }
                        j.rep.obs("flushes_while_the_queue_thread_held_a_taken_metric", nfl);
                        if backlog > 0 {
                            j.rep.obs("flushes_with_metrics_still_queued_behind_the_held_one", nfl);
                        }
                        // the held metric goes through alone (one permit), the queued ones follow one by one
                        permits.fetch_add(1, Ordering::SeqCst);
                    } else {
                        hold.store(false, Ordering::SeqCst);
                    }
                }
                let mut all = vec![res];
                all.extend(extras);
                let mut broke = false;
                for (ri, res) in all.into_iter().enumerate() {
                    if ri > 0 && held {
                        permits.fetch_add(1, Ordering::SeqCst);
                    }
                    match res {
                        Ok(Ok(m)) => {
                            sent += 1;
                            if !wait_done(sent) {
                                j.rep.inconclusive("delegate: the queuing sink did not hand a metric over within 60 s");
                                return;
                            }
                            let text = m.as_metric_str().as_bytes().to_vec();
                            let n = text.len();
                            let mut attempts = Vec::new();
                            while let Ok(b) = rx.try_recv() {
                                attempts.push(Attempt { bytes: Some(b), out: AOut::Ok });
                            }
                            steps.push(Step { op: Op::Emit(text), attempts, res: Res::OkN(n) });
                        }
                        Ok(Err(e)) => {
                            j.rep.inconclusive(format!("delegate: unexpected emit error {}", e));
                            hist_ok = false;
                            broke = true;
                            break;
                        }
                        Err(p) => {
                            steps.push(Step { op: Op::Emit(vec![]), attempts: vec![], res: Res::Panicked(p) });
                            broke = true;
                            break;
                        }
                    }
                }
                hold.store(false, Ordering::SeqCst);
                if broke {
                    break;
                }
            }
        }
        drop(second.take());
        drop(third.take());
        if !hist_ok {
            continue;
        }
        drop(client);
        // the queuing sink releases the wrapped sink asynchronously: wait for the channel to disconnect
        let mut attempts = Vec::new();
        let t0 = std::time::Instant::now();
        loop {
            match rx.recv_timeout(std::time::Duration::from_millis(200)) {
                Ok(b) => attempts.push(Attempt { bytes: Some(b), out: AOut::Ok }),
                Err(crossbeam_channel::RecvTimeoutError::Disconnected) => break,
                Err(crossbeam_channel::RecvTimeoutError::Timeout) => {
                    if t0.elapsed().as_secs() > 60 {
                        j.rep.inconclusive("delegate: wrapped sink not released within 60 s after the client was dropped");
                        return;
                    }
                }
            }
        }
        if !hist_ok {
            continue;
        }
        steps.push(Step { op: Op::Drop, attempts, res: Res::Dropped });
        j.judge(cap, "\n", &steps, vec![("case-seed", cs.to_string()), ("cases", "1".into())], match (through_queue, default_cap) {
            (true, true) => ["W5-queue-default-capacity", "W5-queue(cap)-default-capacity", "W5-queue(handler)-default-capacity", "W5-queue(cap+handler)-default-capacity"][qvariant as usize],
            (true, false) => ["W5-queue", "W5-queue(cap)", "W5-queue(handler)", "W5-queue(cap+handler)"][qvariant as usize],
            (false, true) => "W5-client-default-capacity",
            (false, false) => "W5-client",
        });
        j.rep.obs(if through_queue { "flush_through_queuing_sink_histories" } else { "flush_through_client_histories" }, 1);
        if only.is_some() || j.rep.violation_count >= 12 {
            break;
        }
    }
}
