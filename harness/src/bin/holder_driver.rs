//! holder_driver (C18): real threads run real `SingletonHolder` operations under a token-passing scheduler
//! driven by the tracing shim of hook H1; a DFS over the scheduler's choices enumerates ALL interleavings of a
//! configuration at the granularity of single atomic / cell accesses. Every trace is judged by
//!   (1) a value oracle over operation intervals (set-once register semantics), and
//!   (2) a FastTrack-style vector-clock race check that uses the memory orderings actually passed.
//!
//!   holder_driver --mode enum|native --shard I --shards N --max-schedules M --out FILE

#[cfg(not(cadence_verif))]
fn main() {
    eprintln!("holder_driver needs a build with --cfg cadence_verif");
    std::process::exit(3);
}

#[cfg(cadence_verif)]
fn main() {
    imp::main();
}

#[cfg(cadence_verif)]
mod imp {
    use cadence_macros::verif::{set_tracer, Access, AccessKind, Outcome, Tracer};
    use cadence_macros::SingletonHolder;
    use cvh::{jobj, panics, Args, Json, Report, Rng, Violation};
    use std::cell::Cell;
    use std::collections::BTreeMap;
    use std::sync::atomic::{AtomicU64, AtomicUsize, Ordering};
    use std::sync::{Arc, Condvar, Mutex};

    // ---------------------------------------------------------------------------------------------
    // payload with integrity check and drop accounting
    // ---------------------------------------------------------------------------------------------

    static DROPS: AtomicU64 = AtomicU64::new(0);
    static DOUBLE_DROPS: AtomicU64 = AtomicU64::new(0);

    #[derive(Debug)]
    pub struct Payload {
        id: u64,
        words: [u64; 8],
        dropped: AtomicUsize,
    }

    fn words_for(id: u64) -> [u64; 8] {
        let mut words = [0u64; 8];
        for (i, w) in words.iter_mut().enumerate() {
            *w = id.wrapping_mul(0x9E37_79B9_7F4A_7C15).rotate_left(i as u32 * 7) ^ 0xA5A5_5A5A_0F0F_F0F0;
        }
        words
    }

    impl Payload {
        fn new(id: u64) -> Payload {
            Payload { id, words: words_for(id), dropped: AtomicUsize::new(0) }
        }
        fn intact(&self) -> bool {
            words_for(self.id) == self.words && self.dropped.load(Ordering::Relaxed) == 0
        }
    }

    // `SingletonHolder: Default` is derived and therefore asks for `T: Default` (the default holder is empty anyway)
    impl Default for Payload {
        fn default() -> Payload {
            Payload::new(0)
        }
    }

    /// In "bomb" runs a payload that is destroyed on one of the operating threads - a value handed to a `set` that was
    /// turned down - panics in its destructor (as a client whose sink panics in `Drop` would). That panic reaches the
    /// caller of that `set`; it must not change anything for anybody else.
    pub static BOMBS: std::sync::atomic::AtomicBool = std::sync::atomic::AtomicBool::new(false);

    impl Drop for Payload {
        fn drop(&mut self) {
            if self.dropped.fetch_add(1, Ordering::Relaxed) != 0 {
                DOUBLE_DROPS.fetch_add(1, Ordering::Relaxed);
            }
            DROPS.fetch_add(1, Ordering::Relaxed);
            if BOMBS.load(Ordering::Relaxed) && ME.with(|m| m.get()).is_some() && !std::thread::panicking() {
                panic!("bomb v{}", self.id);
            }
        }
    }

    // ---------------------------------------------------------------------------------------------
    // operations, traces
    // ---------------------------------------------------------------------------------------------

    #[derive(Clone, Copy, Debug, PartialEq, Eq, Hash, PartialOrd, Ord)]
    pub enum OpKind {
        Set,
        Get,
        IsSet,
        /// `format!("{:?}", holder)`: a read-only public way of looking at the holder
        Dbg,
    }

    #[derive(Clone, Debug, PartialEq)]
    pub enum OpResult {
        SetDone,
        Got(Option<(usize, u64, bool)>), // (Arc pointer, payload id, intact)
        IsSet(bool),
        Debugged,
        Panicked(String),
    }

    #[derive(Clone, Debug)]
    pub enum TEvent {
        OpBegin { t: usize, op: OpKind, value: u64 },
        OpEnd { t: usize, op: OpKind, res: OpResult },
        Access { t: usize, in_op: OpKind, access: Access, outcome: Outcome },
    }

    impl TEvent {
        fn short(&self) -> String {
            match self {
                TEvent::OpBegin { t, op, value } => format!("T{} begin {:?}{}", t, op, if *op == OpKind::Set { format!("(v{})", value) } else { String::new() }),
                TEvent::OpEnd { t, op, res } => format!("T{} end {:?} -> {:?}", t, op, res),
                TEvent::Access { t, in_op, access, outcome } => format!("T{} [{:?}] {:?} -> {:?}", t, in_op, access.kind, outcome),
            }
        }
    }

    // ---------------------------------------------------------------------------------------------
    // token-passing scheduler
    // ---------------------------------------------------------------------------------------------

    struct SchedState {
        turn: Option<usize>,
        waiting: Vec<bool>,
        finished: Vec<bool>,
        running: usize,
        trace: Vec<TEvent>,
        cur_op: Vec<OpKind>,
    }

    struct Sched {
        st: Mutex<SchedState>,
        cv: Condvar,
    }

    thread_local! {
        static ME: Cell<Option<usize>> = const { Cell::new(None) };
    }

    impl Sched {
        fn yield_point(&self, i: usize) {
            let mut g = self.st.lock().unwrap();
            g.waiting[i] = true;
            g.running -= 1;
            self.cv.notify_all();
            while g.turn != Some(i) {
                g = self.cv.wait(g).unwrap();
            }
            g.turn = None;
            g.waiting[i] = false;
            g.running += 1;
        }
        fn record(&self, e: TEvent) {
            self.st.lock().unwrap().trace.push(e);
        }
        fn finish(&self, i: usize) {
            let mut g = self.st.lock().unwrap();
            g.finished[i] = true;
            g.running -= 1;
            self.cv.notify_all();
        }
    }

    struct SchedTracer {
        sched: Arc<Sched>,
    }

    impl Tracer for SchedTracer {
        fn before(&self, _access: &Access) {
            if let Some(i) = ME.with(|m| m.get()) {
                self.sched.yield_point(i);
            }
        }
        fn after(&self, access: &Access, outcome: &Outcome) {
            if let Some(i) = ME.with(|m| m.get()) {
                let mut g = self.sched.st.lock().unwrap();
                let in_op = g.cur_op[i];
                g.trace.push(TEvent::Access { t: i, in_op, access: *access, outcome: *outcome });
            }
        }
    }

    pub type Config = Vec<Vec<OpKind>>;

    fn config_name(c: &Config) -> String {
        c.iter().map(|ops| ops.iter().map(|o| match o { OpKind::Set => "set", OpKind::Get => "get", OpKind::IsSet => "is_set", OpKind::Dbg => "dbg" }).collect::<Vec<_>>().join(";")).collect::<Vec<_>>().join(" | ")
    }

    pub struct RunOut {
        pub trace: Vec<TEvent>,
        pub choices: Vec<(usize, usize)>, // (choice, number enabled)
        pub cut: bool,
        pub final_get: Option<(usize, u64, bool)>,
        pub payload_drops_ok: bool,
        pub deadlock: bool,
        pub sets: u64,
    }

    const MAX_STEPS: usize = 400;
    /// choices made while some thread was blocked for real between two scheduling points
    pub static BLOCKED_SEEN: AtomicU64 = AtomicU64::new(0);

    /// Which public constructor builds the holder for a run (`new()` is const, `default()` comes from the derive).
    pub static USE_DEFAULT_CTOR: std::sync::atomic::AtomicBool = std::sync::atomic::AtomicBool::new(false);

    /// Execute one schedule: `prefix` fixes the first choices, 0 afterwards.
    pub fn run_schedule(cfg: &Config, prefix: &[usize]) -> RunOut {
        run_schedule_with(cfg, prefix, None)
    }

    /// As `run_schedule`; beyond the prefix the choice among the enabled threads is made by `chooser(step, enabled
    /// thread ids)` when one is given (sampled schedules of configurations too large to enumerate).
    pub fn run_schedule_with(cfg: &Config, prefix: &[usize], mut chooser: Option<&mut dyn FnMut(usize, &[usize]) -> usize>) -> RunOut {
        let n = cfg.len();
        // (decided by the configuration alone, so that a schedule replays as it ran)
        let total_sets = cfg.iter().flatten().filter(|o| **o == OpKind::Set).count();
        BOMBS.store(total_sets >= 2 && config_name(cfg).len() % 2 == 0, Ordering::Relaxed);
        let sched = Arc::new(Sched {
            st: Mutex::new(SchedState { turn: None, waiting: vec![false; n], finished: vec![false; n], running: n, trace: Vec::new(), cur_op: vec![OpKind::Get; n] }),
            cv: Condvar::new(),
        });
        set_tracer(Some(Arc::new(SchedTracer { sched: sched.clone() })));
        let holder: Arc<SingletonHolder<Payload>> = if USE_DEFAULT_CTOR.load(Ordering::Relaxed) { Arc::new(SingletonHolder::default()) } else { Arc::new(SingletonHolder::new()) };
        let drops_before = DROPS.load(Ordering::SeqCst);
        let mut joins = Vec::new();
        let mut sets = 0u64;
        let tids: Arc<Vec<std::sync::atomic::AtomicU32>> = Arc::new((0..n).map(|_| std::sync::atomic::AtomicU32::new(0)).collect());
        for (i, ops) in cfg.iter().enumerate() {
            let ops = ops.clone();
            let sched = sched.clone();
            let holder = holder.clone();
            let tids = tids.clone();
            sets += ops.iter().filter(|o| **o == OpKind::Set).count() as u64;
            joins.push(std::thread::spawn(move || {
                tids[i].store(cvh::procmon::gettid(), Ordering::SeqCst);
                ME.with(|m| m.set(Some(i)));
                for (k, op) in ops.iter().enumerate() {
                    let value = (i as u64 + 1) * 100 + k as u64;
                    // the invocation itself is a scheduling point
                    sched.yield_point(i);
                    {
                        let mut g = sched.st.lock().unwrap();
                        g.cur_op[i] = *op;
                        g.trace.push(TEvent::OpBegin { t: i, op: *op, value });
                    }
                    let res = panics::guard(|| match op {
                        OpKind::Set => {
                            holder.set(Payload::new(value));
                            OpResult::SetDone
                        }
                        OpKind::Get => OpResult::Got(holder.get().map(|a| (Arc::as_ptr(&a) as usize, a.id, a.intact()))),
                        OpKind::IsSet => OpResult::IsSet(holder.is_set()),
                        OpKind::Dbg => {
                            std::hint::black_box(format!("{:?}", holder));
                            OpResult::Debugged
                        }
                    });
                    let res = res.unwrap_or_else(OpResult::Panicked);
                    sched.record(TEvent::OpEnd { t: i, op: *op, res });
                }
                ME.with(|m| m.set(None));
                sched.finish(i);
            }));
        }
        // scheduler loop
        let mut choices: Vec<(usize, usize)> = Vec::new();
        let mut cut = false;
        let mut deadlock = false;
        loop {
            let mut g = sched.st.lock().unwrap();
            // Normally every thread is either waiting at a scheduling point or finished before the next choice is made.
            // An implementation may also BLOCK a thread for real (a lock of its own between two scheduling points, held
            // by a thread that is waiting for its turn): such a thread is asleep with unchanged context-switch counters
            // sample after sample. It is then left where it is and the choice is made among the others.
            let mut last: Vec<(usize, Option<cvh::procmon::TaskStatus>)> = Vec::new();
            let mut stable = 0u32;
            let mut stable_since = std::time::Instant::now();
            let mut stalled = false;
            while !(g.turn.is_none() && (g.running == 0 || stalled)) {
                let (g2, to) = sched.cv.wait_timeout(g, std::time::Duration::from_millis(10)).unwrap();
                g = g2;
                if !to.timed_out() || g.turn.is_some() || g.running == 0 {
                    stable = 0;
                    stable_since = std::time::Instant::now();
                    last.clear();
                    continue;
                }
                let cur: Vec<(usize, Option<cvh::procmon::TaskStatus>)> = (0..n).filter(|i| !g.waiting[*i] && !g.finished[*i]).map(|i| (i, cvh::procmon::task_status(tids[i].load(Ordering::SeqCst)))).collect();
                let asleep = !cur.is_empty() && cur.iter().all(|(_, st)| st.as_ref().map(|st| st.state == 'S').unwrap_or(false));
                if asleep && cur == last {
                    stable += 1;
                } else {
                    stable = 0;
                    stable_since = std::time::Instant::now();
                    last = cur;
                }
                if stable >= 20 && stable_since.elapsed() >= std::time::Duration::from_millis(250) {
                    stalled = true;
                }
            }
            if stalled {
                BLOCKED_SEEN.fetch_add(1, Ordering::Relaxed);
            }
            let enabled: Vec<usize> = (0..n).filter(|i| g.waiting[*i] && !g.finished[*i]).collect();
            if enabled.is_empty() {
                if stalled {
                    // nobody can move and somebody is blocked for good
                    deadlock = true;
                }
                break;
            }
            let step = choices.len();
            let c = if step < prefix.len() {
                prefix[step].min(enabled.len() - 1)
            } else if step >= MAX_STEPS {
                cut = true;
                step % enabled.len() // fair fallback for code that spins
            } else if let Some(ch) = chooser.as_mut() {
                ch(step, &enabled).min(enabled.len() - 1)
            } else {
                0
            };
            choices.push((c, enabled.len()));
            g.turn = Some(enabled[c]);
            sched.cv.notify_all();
        }
        if deadlock {
            // the blocked threads are left behind (they hold their clones of the holder)
            set_tracer(None);
            let trace = std::mem::take(&mut sched.st.lock().unwrap().trace);
            return RunOut { trace, choices, cut: true, final_get: None, payload_drops_ok: true, sets, deadlock: true };
        }
        for j in joins {
            let _ = j.join();
        }
        set_tracer(None);
        let final_get = holder.get().map(|a| (Arc::as_ptr(&a) as usize, a.id, a.intact()));
        drop(holder);
        let drops_after = DROPS.load(Ordering::SeqCst);
        let payload_drops_ok = drops_after - drops_before == sets && DOUBLE_DROPS.load(Ordering::SeqCst) == 0;
        let trace = std::mem::take(&mut sched.st.lock().unwrap().trace);
        RunOut { trace, choices, cut, final_get, payload_drops_ok, sets, deadlock: false }
    }

    // ---------------------------------------------------------------------------------------------
    // oracle 1: set-once register semantics over operation intervals
    // ---------------------------------------------------------------------------------------------

    pub struct Finding {
        pub rule: &'static str,
        pub class: &'static str,
        pub detail: String,
    }

    pub fn value_oracle(out: &RunOut) -> Option<Finding> {
        #[derive(Clone)]
        struct Op {
            t: usize,
            op: OpKind,
            value: u64,
            begin: usize,
            end: usize,
            res: Option<OpResult>,
        }
        let mut ops: Vec<Op> = Vec::new();
        let mut open: BTreeMap<usize, usize> = BTreeMap::new();
        for (pos, e) in out.trace.iter().enumerate() {
            match e {
                TEvent::OpBegin { t, op, value } => {
                    open.insert(*t, ops.len());
                    ops.push(Op { t: *t, op: *op, value: *value, begin: pos, end: usize::MAX, res: None });
                }
                TEvent::OpEnd { t, res, .. } => {
                    if let Some(i) = open.remove(t) {
                        ops[i].end = pos;
                        ops[i].res = Some(res.clone());
                    }
                }
                _ => {}
            }
        }
        for o in &ops {
            if let Some(OpResult::Panicked(p)) = &o.res {
                if o.op == OpKind::Set && BOMBS.load(Ordering::Relaxed) && p.contains(&format!("bomb v{}", o.value)) {
                    continue; // the destructor of the value this very set was given (and turned down)
                }
                return Some(Finding { rule: "no-panic", class: "operation-panicked", detail: format!("T{} {:?} panicked: {}", o.t, o.op, p) });
            }
        }
        // all observed values are one and the same, fully constructed instance
        let mut seen: Option<(usize, u64)> = None;
        let mut observe = |ptr: usize, id: u64, intact: bool, who: String| -> Option<Finding> {
            if !intact {
                return Some(Finding { rule: "fully-constructed", class: "torn-value", detail: format!("{} observed a payload whose contents are not intact (id {})", who, id) });
            }
            match seen {
                None => {
                    seen = Some((ptr, id));
                    None
                }
                Some((p, i)) if p == ptr && i == id => None,
                Some((p, i)) => Some(Finding { rule: "one-winner", class: "two-different-values", detail: format!("{} observed instance {:#x}/v{} but instance {:#x}/v{} had been observed before", who, ptr, id, p, i) }),
            }
        };
        for o in &ops {
            if let Some(OpResult::Got(Some((ptr, id, intact)))) = &o.res {
                if let Some(f) = observe(*ptr, *id, *intact, format!("T{} get", o.t)) {
                    return Some(f);
                }
            }
        }
        if let Some((ptr, id, intact)) = out.final_get {
            if let Some(f) = observe(ptr, id, intact, "the final get after all threads finished".into()) {
                return Some(f);
            }
        }
        let sets: Vec<&Op> = ops.iter().filter(|o| o.op == OpKind::Set).collect();
        // after all threads are done: set iff some set was performed
        if !sets.is_empty() && out.final_get.is_none() {
            return Some(Finding { rule: "set-takes-effect", class: "lost-set", detail: "all set calls completed but the holder still reports 'not set'".into() });
        }
        if sets.is_empty() && seen.is_some() {
            return Some(Finding { rule: "one-winner", class: "value-from-nowhere", detail: "a value was observed although set was never called".into() });
        }
        // the winner must be a set that was not preceded by a completed set
        if let Some((_, id)) = seen {
            match sets.iter().find(|s| s.value == id) {
                None => return Some(Finding { rule: "one-winner", class: "value-from-nowhere", detail: format!("observed value v{} was never supplied", id) }),
                Some(w) => {
                    if let Some(earlier) = sets.iter().find(|s| s.end < w.begin) {
                        return Some(Finding {
                            rule: "first-set-wins",
                            class: "later-set-replaced-winner",
                            detail: format!("v{} (T{}) won although set(v{}) by T{} had completed before it was invoked", id, w.t, earlier.value, earlier.t),
                        });
                    }
                }
            }
        }
        // reads
        let first_set_begin = sets.iter().map(|s| s.begin).min();
        // only the WINNING set's completion makes the value visible: a losing set may return while the winner is
        // still between its CAS and its publishing store (the property does not promise more)
        let first_set_end = seen.and_then(|(_, id)| sets.iter().find(|s| s.value == id).map(|s| s.end));
        for o in ops.iter().filter(|o| o.op != OpKind::Set) {
            let reports_set = match &o.res {
                Some(OpResult::Got(g)) => g.is_some(),
                Some(OpResult::IsSet(b)) => *b,
                _ => continue,
            };
            // a read that ends before any set was invoked must report "not set"
            if reports_set && first_set_begin.map(|b| o.end < b).unwrap_or(true) {
                return Some(Finding { rule: "unset-until-set", class: "set-before-any-set", detail: format!("T{} {:?} reported 'set' before any set was invoked", o.t, o.op) });
            }
            // a read invoked after some set completed must report "set"
            if !reports_set && first_set_end.map(|e| e < o.begin).unwrap_or(false) {
                return Some(Finding { rule: "set-visible-after-completion", class: "stale-read", detail: format!("T{} {:?} was invoked after the winning set had completed but reported 'not set'", o.t, o.op) });
            }
        }
        // set-once is stable: after a read has reported 'set', no read invoked later reports 'not set' (a reader that is
        // told "set" may rely on the value being there: reads report 'not set' until a set has COMPLETED)
        let reads: Vec<(&Op, bool)> = ops
            .iter()
            .filter(|o| o.op != OpKind::Set)
            .filter_map(|o| match &o.res {
                Some(OpResult::Got(g)) => Some((o, g.is_some())),
                Some(OpResult::IsSet(b)) => Some((o, *b)),
                _ => None,
            })
            .collect();
        for (a, a_set) in &reads {
            if !*a_set {
                continue;
            }
            if let Some((b, _)) = reads.iter().find(|(b, b_set)| !*b_set && a.end < b.begin) {
                return Some(Finding {
                    rule: "unset-until-set-completed",
                    class: "set-reported-then-unset",
                    detail: format!("T{} {:?} reported 'set', and T{} {:?}, invoked after it had returned, reported 'not set'", a.t, a.op, b.t, b.op),
                });
            }
        }
        if !out.payload_drops_ok {
            return Some(Finding { rule: "ownership", class: "payload-drop-count", detail: format!("{} payloads were created but the number of drops differs (or one was dropped twice)", out.sets) });
        }
        None
    }

    // ---------------------------------------------------------------------------------------------
    // oracle 2: vector-clock happens-before race check with the orderings actually passed
    // ---------------------------------------------------------------------------------------------

    fn acq(o: std::sync::atomic::Ordering) -> bool {
        use std::sync::atomic::Ordering::*;
        matches!(o, Acquire | AcqRel | SeqCst)
    }
    fn rel(o: std::sync::atomic::Ordering) -> bool {
        use std::sync::atomic::Ordering::*;
        matches!(o, Release | AcqRel | SeqCst)
    }

    pub struct VcStats {
        pub hb_edges: u64,
        pub cell_accesses: u64,
        pub atomic_events: u64,
    }

    pub fn vc_check(n: usize, trace: &[TEvent], stats: &mut VcStats) -> Option<Finding> {
        type Vc = Vec<u64>;
        let join = |a: &mut Vc, b: &Vc| {
            for i in 0..a.len() {
                if b[i] > a[i] {
                    a[i] = b[i];
                }
            }
        };
        // all threads are spawned after the holder was constructed and start with independent clocks
        let mut c: Vec<Vc> = (0..n).map(|t| { let mut v = vec![0u64; n]; v[t] = 1; v }).collect();
        let mut loc: BTreeMap<usize, Option<Vc>> = BTreeMap::new(); // atomic location -> release clock
        let mut last_write: BTreeMap<usize, (usize, u64)> = BTreeMap::new(); // cell -> (thread, clock)
        let mut reads: BTreeMap<usize, Vec<(usize, u64)>> = BTreeMap::new();
        for e in trace {
            if let TEvent::Access { t, in_op, access, outcome } = e {
                let t = *t;
                match (access.kind, outcome) {
                    (AccessKind::Load(o), _) => {
                        stats.atomic_events += 1;
                        if acq(o) {
                            if let Some(Some(l)) = loc.get(&access.location) {
                                let l = l.clone();
                                join(&mut c[t], &l);
                                stats.hb_edges += 1;
                            }
                        }
                    }
                    (AccessKind::Store(_, o), _) => {
                        stats.atomic_events += 1;
                        if rel(o) {
                            loc.insert(access.location, Some(c[t].clone()));
                        } else {
                            loc.insert(access.location, None);
                        }
                        c[t][t] += 1;
                    }
                    (AccessKind::Rmw(_, _, o), _) => {
                        stats.atomic_events += 1;
                        if acq(o) {
                            if let Some(Some(l)) = loc.get(&access.location) {
                                let l = l.clone();
                                join(&mut c[t], &l);
                                stats.hb_edges += 1;
                            }
                        }
                        if rel(o) {
                            let mut nl = loc.get(&access.location).cloned().flatten().unwrap_or_else(|| vec![0; n]);
                            join(&mut nl, &c[t]);
                            loc.insert(access.location, Some(nl));
                        }
                        c[t][t] += 1;
                    }
                    (AccessKind::CompareExchange(_, _, succ, fail), Outcome::CompareExchange(r)) => {
                        stats.atomic_events += 1;
                        match r {
                            Ok(_) => {
                                if acq(succ) {
                                    if let Some(Some(l)) = loc.get(&access.location) {
                                        let l = l.clone();
                                        join(&mut c[t], &l);
                                        stats.hb_edges += 1;
                                    }
                                }
                                if rel(succ) {
                                    let mut nl = loc.get(&access.location).cloned().flatten().unwrap_or_else(|| vec![0; n]);
                                    join(&mut nl, &c[t]);
                                    loc.insert(access.location, Some(nl));
                                }
                                // a relaxed RMW continues the release sequence: the location clock stays
                                c[t][t] += 1;
                            }
                            Err(_) => {
                                if acq(fail) {
                                    if let Some(Some(l)) = loc.get(&access.location) {
                                        let l = l.clone();
                                        join(&mut c[t], &l);
                                        stats.hb_edges += 1;
                                    }
                                }
                            }
                        }
                    }
                    (AccessKind::CellGet, _) => {
                        stats.cell_accesses += 1;
                        let is_write = *in_op == OpKind::Set;
                        if let Some((u, cu)) = last_write.get(&access.location) {
                            if *u != t && *cu > c[t][*u] {
                                return Some(Finding {
                                    rule: "happens-before",
                                    class: if is_write { "write-write-race" } else { "read-write-race" },
                                    detail: format!("T{}'s {} of the cell is not ordered after T{}'s write under the orderings passed to the atomic operations", t, if is_write { "write" } else { "read" }, u),
                                });
                            }
                        }
                        if is_write {
                            if let Some(rs) = reads.get(&access.location) {
                                for (r, cr) in rs {
                                    if *r != t && *cr > c[t][*r] {
                                        return Some(Finding { rule: "happens-before", class: "read-write-race", detail: format!("T{}'s write of the cell is not ordered after T{}'s read", t, r) });
                                    }
                                }
                            }
                            last_write.insert(access.location, (t, c[t][t]));
                            reads.remove(&access.location);
                        } else {
                            reads.entry(access.location).or_default().push((t, c[t][t]));
                        }
                        c[t][t] += 1;
                    }
                    _ => {}
                }
            }
        }
        None
    }

    // ---------------------------------------------------------------------------------------------
    // configurations and DFS
    // ---------------------------------------------------------------------------------------------

    pub fn configurations(level: &str) -> Vec<Config> {
        use OpKind::*;
        let kinds = [Set, Get, IsSet];
        let mut out: Vec<Config> = Vec::new();
        // 2 threads x 1 op, 3 threads x 1 op (multisets)
        for a in 0..3 {
            for b in a..3 {
                out.push(vec![vec![kinds[a]], vec![kinds[b]]]);
                for c in b..3 {
                    out.push(vec![vec![kinds[a]], vec![kinds[b]], vec![kinds[c]]]);
                }
            }
        }
        // 2 threads x <= 2 ops
        let seqs: Vec<Vec<OpKind>> = {
            let mut s: Vec<Vec<OpKind>> = kinds.iter().map(|k| vec![*k]).collect();
            for a in kinds {
                for b in kinds {
                    s.push(vec![a, b]);
                }
            }
            s
        };
        for (i, a) in seqs.iter().enumerate() {
            for b in seqs.iter().skip(i) {
                if a.len() + b.len() > 2 {
                    out.push(vec![a.clone(), b.clone()]);
                }
            }
        }
        // two racing setters and a reader reading twice
        out.push(vec![vec![Set], vec![Set], vec![Get, Get]]);
        out.push(vec![vec![Set], vec![Set], vec![IsSet, Get]]);
        // `{:?}` of the holder next to a set (alone, before / after a read, next to two setters)
        out.push(vec![vec![Set], vec![Dbg]]);
        out.push(vec![vec![Set], vec![Dbg, Get]]);
        out.push(vec![vec![Set], vec![Get, Dbg]]);
        out.push(vec![vec![Set], vec![Set], vec![Dbg]]);
        out.push(vec![vec![Set, Dbg], vec![Dbg]]);
        if level == "full" {
            // 3 threads, one of them with two operations
            for a in &seqs {
                if a.len() == 2 {
                    for b in kinds {
                        for c in kinds {
                            if b <= c {
                                out.push(vec![a.clone(), vec![b], vec![c]]);
                            }
                        }
                    }
                }
            }
        }
        // only configurations with at least one set are interesting beyond the unset state; keep one unset config
        out.retain(|c| c.iter().flatten().any(|o| *o == Set) || c.len() == 2 && c[0] == vec![Get] && c[1] == vec![IsSet]);
        out.sort();
        out.dedup();
        out
    }


    /// Judge one executed schedule with both oracles; returns (configuration name, schedule string).
    fn judge(rep: &mut Report, args: &Args, cfg: &Config, out: &RunOut, stats: &mut VcStats, vc_enabled: &mut bool, overlap_loading: &mut u64) -> (String, String) {
        let n = cfg.len();
        let sched_s: String = out.choices.iter().map(|(c, _)| c.to_string()).collect::<Vec<_>>().join(".");
        let name = config_name(cfg);
        // how many schedules had a reader's load while the state was LOADING (value 1)
        if out.trace.iter().any(|e| matches!(e, TEvent::Access { in_op, outcome: Outcome::Loaded(1), .. } if *in_op != OpKind::Set)) {
            *overlap_loading += 1;
        }
        let report = |rep: &mut Report, f: Finding, observer: &str| {
            rep.violation(Violation {
                property: "C18".into(),
                rule: f.rule.into(),
                class: f.class.into(),
                detail: format!("[{}: {} | schedule {}] {}", observer, name, sched_s, f.detail),
                replay_args: args.to_vec_with(&[("mode", "enum".into()), ("config", name.clone()), ("schedule", sched_s.clone()), ("max-schedules", "1".into())]),
                trace: jobj! {"configuration" => name.as_str(), "schedule" => sched_s.as_str(), "trace" => trace_json(&out.trace)},
            });
        };
        if out.deadlock {
            report(rep, Finding { rule: "progress", class: "all-threads-blocked", detail: "every thread that has not finished is asleep inside a holder operation with unchanged context-switch counters, and nobody is left to wake them: these calls never return".into() }, "scheduler");
        } else if let Some(f) = value_oracle(out) {
            report(rep, f, "value oracle");
        }
        if BOMBS.load(Ordering::Relaxed) {
            rep.obs("schedules_in_which_a_turned_down_value_panics_in_its_destructor", 1);
        }
        // vector clocks need to see the synchronisation: every set must have produced atomic events
        let set_ops = out.trace.iter().filter(|e| matches!(e, TEvent::OpBegin { op: OpKind::Set, .. })).count();
        let set_atomics = out.trace.iter().filter(|e| matches!(e, TEvent::Access { in_op: OpKind::Set, access, .. } if !matches!(access.kind, AccessKind::CellGet))).count();
        if set_ops > 0 && set_atomics == 0 {
            *vc_enabled = false;
        }
        if *vc_enabled {
            if let Some(f) = vc_check(n, &out.trace, stats) {
                report(rep, f, "vector clocks");
            }
        }
        if out.cut {
            rep.obs("schedules_cut_at_step_bound", 1);
        }
        rep.obs_max("choices_made_while_a_thread_was_blocked_for_real", BLOCKED_SEEN.load(Ordering::Relaxed));
        // every choice made past a blocked thread costs a quarter of a second of watching it: the exploration of an
        // implementation that blocks is cut short (and says so) instead of taking hours
        static START: std::sync::OnceLock<std::time::Instant> = std::sync::OnceLock::new();
        let t0 = *START.get_or_init(std::time::Instant::now);
        if BLOCKED_SEEN.load(Ordering::Relaxed) > 0 && t0.elapsed() > std::time::Duration::from_secs(45) && args.get("schedule").is_none() {
            rep.inconclusive(format!("the holder blocks threads for real between scheduling points ({} choices were made past a blocked thread); exploration stopped after {} s", BLOCKED_SEEN.load(Ordering::Relaxed), t0.elapsed().as_secs()));
            rep.exhaustive = Some(false);
            std::process::exit(rep.finish(args.get("out")));
        }
        // distinct: (configuration, schedule) and outcome vectors
        rep.distinct(&format!("{}#{}", name, sched_s));
        if rep.want_sample() {
            rep.sample(|| jobj! {"configuration" => name.as_str(), "schedule" => sched_s.as_str(), "trace" => trace_json(&out.trace)});
        }
        (name, sched_s)
    }

    fn parse_config(name: &str) -> Option<Config> {
        let mut cfg = Vec::new();
        for th in name.split(" | ") {
            let mut ops = Vec::new();
            for o in th.split(';') {
                ops.push(match o.trim() {
                    "set" => OpKind::Set,
                    "get" => OpKind::Get,
                    "is_set" => OpKind::IsSet,
                    "dbg" => OpKind::Dbg,
                    _ => return None,
                });
            }
            cfg.push(ops);
        }
        Some(cfg)
    }

    /// Sampled schedules of configurations that are too large to enumerate: 2-4 threads, up to 4 operations per
    /// thread, three scheduling strategies (uniform, sticky, priority with change points).
    fn sample_main(args: &Args, rep: &mut Report) {
        let seed = args.u64("seed", 1);
        let shard = args.u64("shard", 0);
        let runs = args.u64("runs", 2000);
        let per_cfg = args.u64("schedules-per-config", 40);
        let mut rng = Rng::new(cvh::rng::mix(&[seed, shard, 0xC18]));
        let mut stats = VcStats { hb_edges: 0, cell_accesses: 0, atomic_events: 0 };
        let mut vc_enabled = true;
        let mut overlap_loading = 0u64;
        let mut done = 0u64;
        while done < runs && rep.violation_count < 6 {
            // configuration
            let n = match rng.below(10) {
                0..=1 => 2,
                2..=6 => 3,
                _ => 4,
            };
            let mut cfg: Config = Vec::new();
            let max_ops = if n == 2 { 4 } else if n == 3 { 3 } else { 2 };
            for _ in 0..n {
                let k = 1 + rng.usize_below(max_ops);
                let mut ops = Vec::new();
                for _ in 0..k {
                    ops.push(match rng.below(22) {
                        0..=6 => OpKind::Set,
                        7..=14 => OpKind::Get,
                        15..=19 => OpKind::IsSet,
                        _ => OpKind::Dbg,
                    });
                }
                cfg.push(ops);
            }
            if !cfg.iter().flatten().any(|o| *o == OpKind::Set) && !rng.chance(1, 10) {
                cfg[0][0] = OpKind::Set;
            }
            rep.obs(&format!("sampled_configurations_with_{}_threads", n), 1);
            rep.obs_max("max_operations_per_thread_in_sampled_configurations", cfg.iter().map(|o| o.len()).max().unwrap_or(0) as u64);
            rep.fine("sampled_configurations", &config_name(&cfg));
            for k in 0..per_cfg {
                let strategy = rng.below(3);
                let mut r2 = rng.fork();
                let mut last: Option<usize> = None;
                // priorities for the PCT-like strategy: a random permutation and up to 3 change points
                let mut prio: Vec<u64> = (0..n).map(|_| r2.next_u64() >> 8).collect();
                let change_at: Vec<usize> = (0..3).map(|_| r2.usize_below(40)).collect();
                let mut chooser = |step: usize, enabled: &[usize]| -> usize {
                    match strategy {
                        0 => r2.usize_below(enabled.len()),
                        1 => {
                            // sticky: keep the thread that ran last with probability 3/4
                            if let Some(l) = last {
                                if let Some(pos) = enabled.iter().position(|t| *t == l) {
                                    if r2.chance(3, 4) {
                                        return pos;
                                    }
                                }
                            }
                            let c = r2.usize_below(enabled.len());
                            last = Some(enabled[c]);
                            c
                        }
                        _ => {
                            if change_at.contains(&step) {
                                // the running (highest-priority) thread is demoted
                                if let Some(top) = enabled.iter().max_by_key(|t| prio[**t]) {
                                    prio[*top] = r2.next_u64() >> 40;
                                }
                            }
                            let top = enabled.iter().enumerate().max_by_key(|(_, t)| prio[**t]).map(|(i, _)| i).unwrap_or(0);
                            top
                        }
                    }
                };
                USE_DEFAULT_CTOR.store(k % 2 == 1, Ordering::Relaxed);
                let out = run_schedule_with(&cfg, &[], Some(&mut chooser));
                rep.eval();
                done += 1;
                judge(rep, args, &cfg, &out, &mut stats, &mut vc_enabled, &mut overlap_loading);
                rep.obs(["sampled_schedules_uniform", "sampled_schedules_sticky", "sampled_schedules_priority_change_points"][strategy as usize], 1);
                rep.obs(if k % 2 == 0 { "schedules_on_new_constructed_holder" } else { "schedules_on_default_constructed_holder" }, 1);
                if rep.violation_count >= 6 {
                    break;
                }
            }
            rep.obs("configurations_explored", 1);
        }
        rep.obs("schedules_with_reader_overlapping_LOADING", overlap_loading);
        rep.obs("hb_edges_established", stats.hb_edges);
        rep.obs("cell_accesses_checked", stats.cell_accesses);
        rep.obs("atomic_events_traced", stats.atomic_events);
        rep.obs("vector_clock_observer_enabled", vc_enabled as u64);
        rep.exhaustive = Some(false);
        rep.note("sampled mode: random configurations of 2-4 threads with up to 4 / 3 / 2 operations per thread, schedules drawn by three strategies (uniform, sticky, priorities with change points); every schedule is replayable by its choice string");
    }

    fn trace_json(t: &[TEvent]) -> Json {
        Json::Arr(t.iter().map(|e| Json::Str(e.short())).collect())
    }

    pub fn main() {
        let args = Args::from_env();
        panics::install_hook();
        let mut rep = Report::new("holder_driver", "C18");
        let shard = args.u64("shard", 0);
        let shards = args.u64("shards", 1);
        let max_schedules = args.u64("max-schedules", 5000);
        let level = args.str("level", "core");
        if args.str("mode", "enum") == "sample" {
            sample_main(&args, &mut rep);
            std::process::exit(rep.finish(args.get("out")));
        }
        let mut cfgs = configurations(&level);
        // a replayed configuration may come from the sampled mode and lie outside the enumerated list
        if let Some(rc) = args.get("config") {
            if !cfgs.iter().any(|c| config_name(c) == rc) {
                if let Some(c) = parse_config(rc) {
                    cfgs.push(c);
                }
            }
        }
        let mut stats = VcStats { hb_edges: 0, cell_accesses: 0, atomic_events: 0 };
        let mut all_complete = true;
        let mut vc_enabled = true;
        let replay_cfg = args.get("config").map(|s| s.to_string());
        for (ci, cfg) in cfgs.iter().enumerate() {
            if let Some(rc) = &replay_cfg {
                if &config_name(cfg) != rc {
                    continue;
                }
            } else if ci as u64 % shards != shard {
                continue;
            }
            let _ = cfg.len();
            let mut prefix: Vec<usize> = args.get("schedule").map(|s| s.split('.').filter(|x| !x.is_empty()).map(|x| x.parse().unwrap()).collect()).unwrap_or_default();
            let mut count = 0u64;
            let mut overlap_loading = 0u64;
            loop {
                // both public constructors must give an unset holder: alternate between them
                USE_DEFAULT_CTOR.store(count % 2 == 1, Ordering::Relaxed);
                let out = run_schedule(cfg, &prefix);
                count += 1;
                rep.eval();
                let (name, sched_s) = judge(&mut rep, &args, cfg, &out, &mut stats, &mut vc_enabled, &mut overlap_loading);
                rep.obs(if count % 2 == 0 { "schedules_on_default_constructed_holder" } else { "schedules_on_new_constructed_holder" }, 1);
                let _ = (&name, &sched_s);
                if replay_cfg.is_some() && args.get("schedule").is_some() {
                    break;
                }
                // backtrack
                let mut ch: Vec<(usize, usize)> = out.choices.clone();
                if ch.len() > MAX_STEPS {
                    ch.truncate(MAX_STEPS);
                }
                let mut advanced = false;
                while let Some((c, k)) = ch.pop() {
                    if c + 1 < k {
                        prefix = ch.iter().map(|(c, _)| *c).collect();
                        prefix.push(c + 1);
                        advanced = true;
                        break;
                    }
                }
                if !advanced {
                    break;
                }
                if count >= max_schedules {
                    all_complete = false;
                    rep.obs("configurations_truncated", 1);
                    break;
                }
                if rep.violation_count >= 6 {
                    all_complete = false;
                    break;
                }
            }
            rep.obs("configurations_explored", 1);
            rep.obs("schedules_with_reader_overlapping_LOADING", overlap_loading);
            rep.obs_max("max_schedules_in_one_configuration", count);
            if rep.violation_count >= 6 {
                break;
            }
        }
        rep.obs("hb_edges_established", stats.hb_edges);
        rep.obs("cell_accesses_checked", stats.cell_accesses);
        rep.obs("atomic_events_traced", stats.atomic_events);
        rep.obs("vector_clock_observer_enabled", vc_enabled as u64);
        if !vc_enabled {
            rep.note("the tracing shim saw no atomic operation inside set(): state.rs uses a synchronisation primitive the shim does not route; the vector-clock observer was switched off (it would misjudge correct code) and race freedom is decided by the Miri and ThreadSanitizer observers alone");
        }
        rep.exhaustive = Some(all_complete);
        rep.note(format!("{} configurations at level '{}' (all multisets of 2-3 threads x 1 op, 2 threads x <= 2 ops over set/get/is_set, two setters + double reader{}), every interleaving at single-access granularity", cfgs.len(), level, if level == "full" { ", 3 threads with one 2-op thread" } else { "" }));
        std::process::exit(rep.finish(args.get("out")));
    }
}
