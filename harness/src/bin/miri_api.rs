//! miri_api: a compact tour of the whole public API for Miri (hooks off, isolation on, no sockets): every metric kind
//! and value type with multi-byte / empty / long strings, the line writer with tiny capacities and odd terminators, the
//! spy sinks, the queuing sink, the error type, the standalone constructors. cadence itself forbids `unsafe`, so today
//! Miri can only find undefined behaviour in the dependencies these paths reach (crossbeam-channel, std); the run is the
//! memory-safety observer for the day an "optimisation" brings `unsafe` (unchecked UTF-8, set_len, get_unchecked) into
//! these paths. The lines themselves are compared with literals, so a memory-safe but wrong result shows too.
//!
//!   miri_api        prints "miri_api ok ..." and exits 0, or "API-ORACLE-FAILED property=Cxx ..." and exits 1

use cadence::ext::MultiLineWriter;
use cadence::prelude::*;
use cadence::{BufferedSpyMetricSink, Counter, Distribution, Gauge, Histogram, Meter, Metric, MetricSink, QueuingMetricSink, Set, SpyMetricSink, StatsdClient, Timer};
use std::io::{self, Write};
use std::sync::{Arc, Mutex};
use std::time::Duration;

fn fail(prop: &str, msg: String) -> ! {
    println!("API-ORACLE-FAILED property={} {}", prop, msg);
    std::process::exit(1);
}

#[derive(Clone, Default)]
struct Rec(Arc<Mutex<Vec<String>>>);

impl MetricSink for Rec {
    fn emit(&self, m: &str) -> io::Result<usize> {
        self.0.lock().unwrap().push(m.to_string());
        Ok(m.len())
    }
}

fn expect(rec: &Rec, want: &str, what: &str) {
    let got = rec.0.lock().unwrap().pop();
    if got.as_deref() != Some(want) {
        fail("C01", format!("{}: sink got {:?}, expected {:?}", what, got, want));
    }
}

fn client_tour() -> usize {
    let rec = Rec::default();
    let c = StatsdClient::builder("pré.fix..", rec.clone()).with_tag("env", "prod-é").with_tag_value("bare✓").with_container_id("ci-1").build();
    let mut n = 0;
    macro_rules! t {
        ($call:expr, $want:expr) => {{
            let _ = $call;
            expect(&rec, $want, stringify!($call));
            n += 1;
        }};
    }
    t!(c.count("k", 5i64), "pré.fix.k:5|c|#env:prod-é,bare✓|c:ci-1");
    t!(c.count("k", -5i32), "pré.fix.k:-5|c|#env:prod-é,bare✓|c:ci-1");
    t!(c.count("k", 7u32), "pré.fix.k:7|c|#env:prod-é,bare✓|c:ci-1");
    t!(c.count("k", u64::MAX), "pré.fix.k:18446744073709551615|c|#env:prod-é,bare✓|c:ci-1");
    t!(c.incr("k"), "pré.fix.k:1|c|#env:prod-é,bare✓|c:ci-1");
    t!(c.decr("k"), "pré.fix.k:-1|c|#env:prod-é,bare✓|c:ci-1");
    t!(c.time("t", 12u64), "pré.fix.t:12|ms|#env:prod-é,bare✓|c:ci-1");
    t!(c.time("t", Duration::new(1, 999_999)), "pré.fix.t:1000|ms|#env:prod-é,bare✓|c:ci-1");
    t!(c.time("t", vec![1u64, 2, 3]), "pré.fix.t:1:2:3|ms|#env:prod-é,bare✓|c:ci-1");
    t!(c.time("t", vec![Duration::from_millis(4), Duration::from_millis(5)]), "pré.fix.t:4:5|ms|#env:prod-é,bare✓|c:ci-1");
    t!(c.gauge("g", 0u64), "pré.fix.g:0|g|#env:prod-é,bare✓|c:ci-1");
    t!(c.gauge("g", -0.5f64), "pré.fix.g:-0.5|g|#env:prod-é,bare✓|c:ci-1");
    t!(c.histogram("h", vec![1.5f64, 2.25]), "pré.fix.h:1.5:2.25|h|#env:prod-é,bare✓|c:ci-1");
    t!(c.meter("m", 9u64), "pré.fix.m:9|m|#env:prod-é,bare✓|c:ci-1");
    t!(c.histogram("h", 3u64), "pré.fix.h:3|h|#env:prod-é,bare✓|c:ci-1");
    t!(c.histogram("h", 0.25f64), "pré.fix.h:0.25|h|#env:prod-é,bare✓|c:ci-1");
    t!(c.histogram("h", Duration::from_nanos(77)), "pré.fix.h:77|h|#env:prod-é,bare✓|c:ci-1");
    t!(c.histogram("h", vec![Duration::from_nanos(1), Duration::from_nanos(2)]), "pré.fix.h:1:2|h|#env:prod-é,bare✓|c:ci-1");
    t!(c.distribution("d", 8u64), "pré.fix.d:8|d|#env:prod-é,bare✓|c:ci-1");
    t!(c.distribution("d", vec![1u64, 2]), "pré.fix.d:1:2|d|#env:prod-é,bare✓|c:ci-1");
    t!(c.distribution("d", 1e300f64), &format!("pré.fix.d:{}|d|#env:prod-é,bare✓|c:ci-1", 1e300f64));
    t!(c.set("s", -3i64), "pré.fix.s:-3|s|#env:prod-é,bare✓|c:ci-1");
    t!(
        c.count_with_tags("日本", 1i64).with_tag("ключ", "значение").with_tag_value("🎉").with_sampling_rate(0.5).with_container_id("x").with_timestamp(u64::MAX).try_send(),
        "pré.fix.日本:1|c|@0.5|#env:prod-é,bare✓,ключ:значение,🎉|c:x|T18446744073709551615"
    );
    t!(c.gauge_with_tags("", 1u64).with_tag("", "").send(), "pré.fix.:1|g|#env:prod-é,bare✓,:|c:ci-1");
    // rejected values: nothing reaches the sink
    let before = rec.0.lock().unwrap().len();
    if c.time("t", Duration::new(u64::MAX, 0)).is_ok() || c.histogram("h", Vec::<u64>::new()).is_ok() {
        fail("C02", "an over-wide duration / an empty packed list was accepted".into());
    }
    if rec.0.lock().unwrap().len() != before {
        fail("C03", "a rejected value reached the sink".into());
    }
    // a long key (several KiB, multi-byte) and a client without prefix and defaults
    let rec2 = Rec::default();
    let c2 = StatsdClient::from_sink("", rec2.clone());
    let long: String = "длинный.ключ.".repeat(300);
    let _ = c2.count(&long, 1i64);
    expect(&rec2, &format!("{}:1|c", long), "long key");
    n + 1
}

fn standalone_tour() -> usize {
    let pairs: Vec<(String, &str)> = vec![
        (Counter::new("p.", "k", -4).as_metric_str().to_string(), "p.k:-4|c"),
        (Timer::new("p.", "k", 4).as_metric_str().to_string(), "p.k:4|ms"),
        (Gauge::new("", "ключ", 4).as_metric_str().to_string(), "ключ:4|g"),
        (Gauge::new_f64("p", "k", 0.125).as_metric_str().to_string(), "pk:0.125|g"),
        (Meter::new("p.", "k", 4).as_metric_str().to_string(), "p.k:4|m"),
        (Histogram::new("p.", "k", 4).as_metric_str().to_string(), "p.k:4|h"),
        (Histogram::new_f64("p.", "k", 4.5).as_metric_str().to_string(), "p.k:4.5|h"),
        (Distribution::new("p.", "k", 4).as_metric_str().to_string(), "p.k:4|d"),
        (Distribution::new_f64("p.", "k", 4.5).as_metric_str().to_string(), "p.k:4.5|d"),
        (Set::new("p.", "k", 4).as_metric_str().to_string(), "p.k:4|s"),
    ];
    for (got, want) in &pairs {
        if got != want {
            fail("C01", format!("standalone constructor rendered {:?}, expected {:?}", got, want));
        }
    }
    pairs.len()
}

#[derive(Clone, Default)]
struct Writes(Arc<Mutex<Vec<Vec<u8>>>>);

impl Write for Writes {
    fn write(&mut self, b: &[u8]) -> io::Result<usize> {
        self.0.lock().unwrap().push(b.to_vec());
        Ok(b.len())
    }
    fn flush(&mut self) -> io::Result<()> {
        Ok(())
    }
}

/// The line writer with tiny capacities and multi-byte terminators: every write is whole lines within the capacity or
/// one oversize metric alone, and all bytes are conserved in order.
fn writer_tour() -> usize {
    let mut checked = 0;
    for cap in [0usize, 1, 2, 5, 9, 16, 64] {
        for term in ["\n", "\r\n", "", "\u{2028}", "<EOL>"] {
            let w = Writes::default();
            let mut mlw = MultiLineWriter::with_ending(w.clone(), cap, term);
            let metrics = ["a", "bb", "", "cccé", "dddddddd", "é", "ffffffffffffffffffffff", "g"];
            let mut fitting: Vec<u8> = Vec::new();
            let mut oversize: Vec<Vec<u8>> = Vec::new();
            for (i, m) in metrics.iter().enumerate() {
                match mlw.write(m.as_bytes()) {
                    Ok(n) if n == m.len() => {}
                    other => fail("C06", format!("MultiLineWriter(cap {}, term {:?}).write({:?}) returned {:?}", cap, term, m, other)),
                }
                if m.len() + term.len() > cap {
                    oversize.push(m.as_bytes().to_vec());
                } else {
                    fitting.extend_from_slice(m.as_bytes());
                    fitting.extend_from_slice(term.as_bytes());
                }
                if i == 3 {
                    mlw.flush().unwrap();
                }
            }
            drop(mlw);
            let writes = w.0.lock().unwrap().clone();
            // a write is an oversize metric sent alone iff it does not end with the terminator (terminator "": iff it is
            // larger than the capacity); everything else is buffered lines. Empty writes carry nothing.
            let mut buffered: Vec<u8> = Vec::new();
            let mut big: Vec<Vec<u8>> = oversize.iter().filter(|o| !o.is_empty()).cloned().collect();
            for wr in writes.iter().filter(|w| !w.is_empty()) {
                let alone = if term.is_empty() { wr.len() > cap } else { !wr.ends_with(term.as_bytes()) };
                if alone {
                    match big.iter().position(|o| o == wr) {
                        Some(i) => {
                            big.remove(i);
                        }
                        None => fail("C05", format!("cap {} term {:?}: write {:?} is neither whole lines nor one metric that cannot fit", cap, term, String::from_utf8_lossy(wr))),
                    }
                } else {
                    if wr.len() > cap {
                        fail("C05", format!("cap {} term {:?}: write {:?} is larger than the capacity", cap, term, String::from_utf8_lossy(wr)));
                    }
                    buffered.extend_from_slice(wr);
                }
            }
            if buffered != fitting || !big.is_empty() {
                fail("C06", format!("cap {} term {:?}: the writes {:?} do not add up to the accepted lines", cap, term, writes.iter().map(|w| String::from_utf8_lossy(w).to_string()).collect::<Vec<_>>()));
            }
            checked += 1;
        }
    }
    checked
}

fn sinks_tour() -> usize {
    let mut n = 0;
    // unbuffered spy
    let (rx, spy) = SpyMetricSink::new();
    let c = StatsdClient::from_sink("s", spy);
    let _ = c.count("é", 1i64);
    if rx.try_recv().ok() != Some("s.é:1|c".as_bytes().to_vec()) {
        fail("C13", "SpyMetricSink did not receive the metric bytes".into());
    }
    n += 1;
    // buffered spy, capacity 16
    let (rx, spy) = BufferedSpyMetricSink::with_capacity(None, Some(16));
    for m in ["aaaa:1|c", "b:2|c", "cccccccccccccccccccc:3|c", "d:4|c"] {
        if spy.emit(m).ok() != Some(m.len()) {
            fail("C06", format!("buffered spy emit({:?}) did not return Ok(len)", m));
        }
    }
    let _ = spy.stats();
    spy.flush().unwrap();
    drop(spy);
    // (whether the metric that cannot fit overtakes the buffered lines is left open: compared as a set)
    let mut got: Vec<String> = rx.try_iter().map(|b| String::from_utf8_lossy(&b).to_string()).collect();
    got.sort();
    if got != vec!["aaaa:1|c\nb:2|c\n".to_string(), "cccccccccccccccccccc:3|c".to_string(), "d:4|c\n".to_string()] {
        fail("C05", format!("buffered spy (capacity 16) wrote {:?}", got));
    }
    n += 4;
    // queuing sink over a buffered spy: flush through the queue, clones, drop
    let (rx, spy) = BufferedSpyMetricSink::with_capacity(None, Some(64));
    let q = QueuingMetricSink::builder().with_capacity(8).with_error_handler(|_e| {}).build(spy);
    let q2 = q.clone();
    let c = StatsdClient::from_sink("q", q);
    let _ = c.count("a", 1i64);
    let _ = c.gauge_with_tags("b", 2u64).with_tag("t", "v").try_send();
    for _ in 0..100_000 {
        if q2.drained() >= 2 {
            break;
        }
        std::thread::sleep(Duration::from_millis(5));
    }
    let _ = (q2.queued(), q2.submitted(), q2.panics(), q2.stats());
    std::thread::sleep(Duration::from_secs(1));
    c.flush().unwrap();
    let first: Vec<String> = rx.try_iter().map(|b| String::from_utf8_lossy(&b).to_string()).collect();
    if first != vec!["q.a:1|c\nq.b:2|g|#t:v\n".to_string()] {
        fail("C06", format!("after a flush through the queuing sink the datagrams are {:?}", first));
    }
    let _ = c.count("z", 3i64);
    drop(c);
    drop(q2);
    let mut rest = Vec::new();
    loop {
        match rx.recv_timeout(Duration::from_secs(86_400)) {
            Ok(b) => rest.push(String::from_utf8_lossy(&b).to_string()),
            Err(crossbeam_channel::RecvTimeoutError::Disconnected) => break,
            Err(_) => fail("C09", "the wrapped sink was not released after the last drop".into()),
        }
    }
    if rest != vec!["q.z:3|c\n".to_string()] {
        fail("C09", format!("after the last drop the datagrams are {:?}", rest));
    }
    n + 3
}

fn errors_tour() -> usize {
    struct Refuse;
    impl MetricSink for Refuse {
        fn emit(&self, _m: &str) -> io::Result<usize> {
            Err(io::Error::new(io::ErrorKind::BrokenPipe, "refused-é"))
        }
    }
    let seen: Arc<Mutex<Vec<String>>> = Arc::new(Mutex::new(Vec::new()));
    let s2 = seen.clone();
    let c = StatsdClient::builder("e", Refuse).with_error_handler(move |e| s2.lock().unwrap().push(format!("{:?}|{}|{:?}", e.kind(), e, std::error::Error::source(&e).map(|s| s.to_string())))).build();
    let e = c.count("k", 1i64).unwrap_err();
    if e.kind() != cadence::ErrorKind::IoError || !e.to_string().contains("refused-é") {
        fail("C03", format!("a refused metric returned {:?}", e));
    }
    let _ = format!("{:?} {}", e, e);
    c.count_with_tags("k", 1i64).send();
    c.time_with_tags("k", Duration::new(u64::MAX, 0)).send();
    let seen = seen.lock().unwrap().clone();
    if seen.len() != 2 || !seen[0].starts_with("IoError|") || !seen[1].starts_with("InvalidInput|") {
        fail("C03", format!("the error handler saw {:?}", seen));
    }
    3
}

fn main() {
    let a = client_tour();
    let b = standalone_tour();
    let c = writer_tour();
    let d = sinks_tour();
    let e = errors_tour();
    println!("miri_api ok client_calls={} standalone={} writer_configurations={} sink_steps={} error_steps={}", a, b, c, d, e);
}
