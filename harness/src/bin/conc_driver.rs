//! conc_driver (C12): T threads emit (and flush) through ONE shared StatsdClient into a buffered sink; the
//! combined datagram stream must still satisfy framing (F1) and conservation (F2), and each thread's buffered
//! metrics must leave in that thread's program order.
//!
//!   conc_driver --sink spy|unix|udp --seed S --shard I --cases N --out FILE
//!
//! spy : BufferedSpyMetricSink, datagrams read from its (unbounded) channel
//! unix: BufferedUnixMetricSink with a draining receiver thread (a Unix datagram socket never drops silently)
//! udp : BufferedUdpMetricSink observed at the interposed sendto (payload copies: the interposer log is the wire)

use cadence::prelude::*;
use cadence::{BufferedSpyMetricSink, BufferedUdpMetricSink, BufferedUnixMetricSink, Metric, MetricSink, StatsdClient};
use cvh::json::clip_bytes;
use cvh::rng::{mix, Rng};
use cvh::{jobj, panics, Args, Json, Report, Violation};
use std::collections::HashMap;
use std::sync::{Arc, Barrier};

pub mod interpose {
    include!("../interpose.rs");
}

struct Sent {
    seq: usize,
    text: String,
    ok: bool,
    oversize: bool,
}

struct ExitGuard {
    client: Arc<StatsdClient>,
    t: usize,
    seq: usize,
    cap: usize,
    out: Arc<std::sync::Mutex<Vec<(usize, Sent)>>>,
}

impl Drop for ExitGuard {
    fn drop(&mut self) {
        let key = format!("t{}.s{}.exit", self.t, self.seq);
        let seq = self.seq;
        let rec = match panics::guard(|| self.client.gauge(&key, seq as u64)) {
            Ok(Ok(m)) => {
                let text = m.as_metric_str().to_string();
                let oversize = text.len() + 1 > self.cap;
                Sent { seq, text, ok: true, oversize }
            }
            _ => Sent { seq, text: format!("{}:{}|g", key, seq), ok: false, oversize: false },
        };
        self.out.lock().unwrap_or_else(|e| e.into_inner()).push((self.t, rec));
    }
}

thread_local! {
    static EXIT: std::cell::RefCell<Option<ExitGuard>> = const { std::cell::RefCell::new(None) };
}

fn run_case(rep: &mut Report, args: &Args, cs: u64, sink_kind: &str) {
    let mut rng = Rng::new(cs);
    let threads = *rng.pick(&[2usize, 3, 4, 8, 16, 32]);
    // a quarter of the socket runs: many more threads than cores (100-200) inside emit of the one sink at the same
    // moment - a web server's worker pool all reporting at once; every acknowledged metric still comes out exactly once
    let crowd = (sink_kind == "unix" || sink_kind == "udp") && cs % 4 == 1;
    let threads = if crowd { *rng.pick(&[100usize, 130, 200]) } else { threads };
    if crowd {
        rep.obs("stress_runs_with_100_to_200_threads_on_one_socket_sink", 1);
    }
    let cap = *rng.pick(&[16usize, 24, 64, 512, 1432]);
    let per_thread = (rng.range(2000, 12000) as usize / threads).max(40);
    // how many threads also call flush at random (a quarter of the cases: every thread, and often - a flush then
    // regularly overlaps another thread's emit)
    let flush_heavy = rng.chance(1, 4);
    let flushers = if flush_heavy { threads } else { rng.below(3) as usize };
    let flush_one_in = if flush_heavy { 6 } else { 50 };
    let default_cap = cap == 512 && rng.chance(1, 2);
    rep.eval();
    // ---- build the sink ----
    enum Obs {
        Spy(crossbeam_channel::Receiver<Vec<u8>>),
        QueueSpy(crossbeam_channel::Receiver<Vec<u8>>),
        Unix { rx_thread: std::thread::JoinHandle<Vec<Vec<u8>>>, stop: Arc<std::sync::atomic::AtomicBool>, dir: std::path::PathBuf, fd_marker: u64 },
        Udp { fd_marker: u64, _recv: std::net::UdpSocket },
    }
    let mut faulty = false;
    let (client, obs): (StatsdClient, Obs) = match sink_kind {
        "spy" => {
            let (rx, sink) = if default_cap { BufferedSpyMetricSink::new() } else { BufferedSpyMetricSink::with_capacity(None, Some(cap)) };
            (StatsdClient::from_sink("", sink), Obs::Spy(rx))
        }
        "queue-spy" => {
            // the recommended production shape: a queuing sink in front of the buffered sink (unbounded queue: every
            // emit is acknowledged); emit and flush race with the background thread
            let (rx, sink) = if default_cap { BufferedSpyMetricSink::new() } else { BufferedSpyMetricSink::with_capacity(None, Some(cap)) };
            (StatsdClient::from_sink("", cadence::QueuingMetricSink::from(sink)), Obs::QueueSpy(rx))
        }
        "unix" => {
            let dir = std::path::PathBuf::from(format!("/var/tmp/cvh-conc-{}-{}", std::process::id(), cs));
            let _ = std::fs::create_dir_all(&dir);
            let path = dir.join("sock");
            let _ = std::fs::remove_file(&path);
            let server = std::os::unix::net::UnixDatagram::bind(&path).expect("bind unix receiver");
            server.set_read_timeout(Some(std::time::Duration::from_millis(20))).unwrap();
            let stop = Arc::new(std::sync::atomic::AtomicBool::new(false));
            let stop2 = stop.clone();
            let rx_thread = std::thread::spawn(move || {
                let mut got = Vec::new();
                let mut buf = vec![0u8; 70000];
                loop {
                    match server.recv(&mut buf) {
                        Ok(n) => got.push(buf[..n].to_vec()),
                        Err(_) => {
                            if stop2.load(std::sync::atomic::Ordering::SeqCst) {
                                // one last sweep
                                while let Ok(n) = server.recv(&mut buf) {
                                    got.push(buf[..n].to_vec());
                                }
                                return got;
                            }
                        }
                    }
                }
            });
            let sock = std::os::unix::net::UnixDatagram::unbound().unwrap();
            let marker = interpose::mark();
            let sink = if default_cap { BufferedUnixMetricSink::from(&path, sock) } else { BufferedUnixMetricSink::with_capacity(&path, sock, cap) };
            (StatsdClient::from_sink("", sink), Obs::Unix { rx_thread, stop, dir, fd_marker: marker })
        }
        _ => {
            let recv = std::net::UdpSocket::bind("127.0.0.1:0").unwrap();
            let addr = recv.local_addr().unwrap();
            let sock = std::net::UdpSocket::bind("127.0.0.1:0").unwrap();
            let marker = interpose::mark();
            let sink = if default_cap { BufferedUdpMetricSink::from(addr, sock).unwrap() } else { BufferedUdpMetricSink::with_capacity(addr, sock, cap).unwrap() };
            // every third UDP run: the socket refuses a fifth of the datagrams (EAGAIN / ENOBUFS / ECONNREFUSED, scripted
            // at the interposed sendto) while the threads emit and flush - what was acknowledged must still come out
            // exactly once, what was refused never, and a flush that says Ok has written the caller's metrics
            if cs % 3 == 0 {
                faulty = true;
                interpose::set_random(200, vec![11, 105, 111], cs);
                rep.obs("stress_runs_with_a_socket_that_refuses_datagrams", 1);
            }
            (StatsdClient::from_sink("", sink), Obs::Udp { fd_marker: marker, _recv: recv })
        }
    };
    let client = Arc::new(client);
    // how "datagrams written so far" is read at the moment a flush returns
    let (flush_mark, rx_probe): (u8, Option<crossbeam_channel::Receiver<Vec<u8>>>) = match &obs {
        Obs::Spy(rx) => (1, Some(rx.clone())),
        // (the sink calls sendto under its own lock: the interposer's log order is the wire order)
        Obs::Udp { .. } | Obs::Unix { .. } => (2, None),
        _ => (0, None),
    };
    let udp_base = match &obs {
        Obs::Udp { fd_marker, .. } | Obs::Unix { fd_marker, .. } => *fd_marker,
        _ => 0,
    };
    let barrier = Arc::new(Barrier::new(threads));
    let arrived = Arc::new(std::sync::atomic::AtomicUsize::new(0));
    let tls_exit = cs % 2 == 0;
    if tls_exit {
        rep.obs("stress_runs_whose_threads_emit_once_more_from_a_thread_local_destructor_at_exit", 1);
    }
    let exit_sent: Arc<std::sync::Mutex<Vec<(usize, Sent)>>> = Arc::new(std::sync::Mutex::new(Vec::new()));
    let mut joins = Vec::new();
    for t in 0..threads {
        let client = client.clone();
        let barrier = barrier.clone();
        let arrived = arrived.clone();
        let mut r = rng.fork();
        let does_flush = t < flushers;
        let rx_probe = rx_probe.clone();
        let exit_sent = exit_sent.clone();
        joins.push(std::thread::spawn(move || {
            let mut sent: Vec<Sent> = Vec::with_capacity(per_thread);
            let mut flush_points: Vec<(usize, u64)> = Vec::new();
            let mut panicked: Option<String> = None;
            // every other run: each thread owns a thread-local (initialised here, before its first emit) whose destructor
            // reports one more metric when the thread exits - after everything else this thread has emitted
            if tls_exit {
                EXIT.with(|e| *e.borrow_mut() = Some(ExitGuard { client: client.clone(), t, seq: per_thread + 1, cap, out: exit_sent.clone() }));
            }
            barrier.wait();
            for n in 0..per_thread {
                // key carries (thread, sequence); padding varies the length; a few are too big for the buffer
                let pad = match r.below(40) {
                    0 => cap + r.range(0, 30) as usize,
                    1 => cap.saturating_sub(8),
                    _ => r.range(0, (cap / 4).max(2) as u64) as usize,
                };
                let key = if n % 4 == 0 { format!("t{}.s{}.{}", t, n, "ж".repeat(pad / 2)) } else { format!("t{}.s{}.{}", t, n, "p".repeat(pad)) };
                let res = panics::guard(|| client.gauge(&key, n as u64));
                match res {
                    Ok(Ok(m)) => {
                        let text = m.as_metric_str().to_string();
                        let oversize = text.len() + 1 > cap;
                        sent.push(Sent { seq: n, text, ok: true, oversize });
                    }
                    Ok(Err(_)) => sent.push(Sent { seq: n, text: format!("{}:{}|g", key, n), ok: false, oversize: false }),
                    Err(p) => {
                        panicked = Some(p);
                        break;
                    }
                }
                if does_flush && r.chance(1, flush_one_in) {
                    if client.flush().is_ok() {
                        // everything this thread had acknowledged so far must be on the wire NOW: remember how many
                        // datagrams existed when flush returned (spy: channel length, nobody drains during the run;
                        // udp: interposer log length)
                        let mark = match flush_mark {
                            1 => rx_probe.as_ref().map(|p| p.len() as u64),
                            2 => Some(interpose::mark()),
                            _ => None,
                        };
                        if let (Some(m), Some(last)) = (mark, sent.iter().rev().find(|x| x.ok).map(|x| x.seq)) {
                            flush_points.push((last, m));
                        }
                    }
                }
            }
            // the run ends with every thread making one last emit at the same moment (spin barrier): whatever a sink
            // does with an emit that finds it busy, nothing is called afterwards but the final flush or the drop
            if panicked.is_none() {
                arrived.fetch_add(1, std::sync::atomic::Ordering::SeqCst);
                let t0 = std::time::Instant::now();
                while arrived.load(std::sync::atomic::Ordering::SeqCst) < threads && t0.elapsed().as_secs() < 30 {
                    std::hint::spin_loop();
                }
                let key = format!("t{}.s{}.last", t, per_thread);
                match panics::guard(|| client.gauge(&key, per_thread as u64)) {
                    Ok(Ok(m)) => {
                        let text = m.as_metric_str().to_string();
                        let oversize = text.len() + 1 > cap;
                        sent.push(Sent { seq: per_thread, text, ok: true, oversize });
                    }
                    Ok(Err(_)) => sent.push(Sent { seq: per_thread, text: format!("{}:{}|g", key, per_thread), ok: false, oversize: false }),
                    Err(p) => panicked = Some(p),
                }
            }
            (sent, panicked, flush_points)
        }));
    }
    let mut per_thread_sent: Vec<Vec<Sent>> = Vec::new();
    let mut per_thread_flush: Vec<Vec<(usize, u64)>> = Vec::new();
    let mut panic_msg = None;
    for (ti, j) in joins.into_iter().enumerate() {
        match j.join() {
            Ok((mut s, p, fp)) => {
                if p.is_some() {
                    panic_msg = p;
                }
                // (thread-local destructors have run by the time join returns)
                let mut ex = exit_sent.lock().unwrap_or_else(|e| e.into_inner());
                while let Some(i) = ex.iter().position(|(t, _)| *t == ti) {
                    s.push(ex.remove(i).1);
                }
                drop(ex);
                per_thread_sent.push(s);
                per_thread_flush.push(fp);
            }
            Err(_) => panic_msg = Some("thread died".into()),
        }
    }
    if faulty {
        // the socket is healthy again; the caller flushes until it is told Ok (the drop's own write then has nothing to lose)
        interpose::set_random(0, vec![], 0);
        for _ in 0..5 {
            if client.flush().is_ok() {
                break;
            }
        }
    }
    // three runs in four end with the drop alone: a dropped sink has written what it accepted, flushed or not
    let final_flush = cs % 4 == 0;
    let flush_res = if final_flush { client.flush() } else { Ok(()) };
    rep.obs(if final_flush { "runs_ending_with_flush_then_drop" } else { "runs_ending_with_the_drop_alone" }, 1);
    drop(client);
    // ---- collect the datagram stream ----
    let mut unix_mismatch: Option<String> = None;
    let stream: Vec<Vec<u8>> = match obs {
        Obs::Spy(rx) => rx.try_iter().collect(),
        Obs::QueueSpy(rx) => {
            // the queue drains asynchronously after the client is gone; the channel disconnects when the wrapped sink is released
            let mut got = Vec::new();
            let t0 = std::time::Instant::now();
            loop {
                match rx.recv_timeout(std::time::Duration::from_millis(200)) {
                    Ok(b) => got.push(b),
                    Err(crossbeam_channel::RecvTimeoutError::Disconnected) => break,
                    Err(crossbeam_channel::RecvTimeoutError::Timeout) => {
                        if t0.elapsed().as_secs() > 60 {
                            rep.inconclusive("queue-spy: the wrapped sink was not released within 60 s");
                            return;
                        }
                    }
                }
            }
            got
        }
        Obs::Unix { rx_thread, stop, dir, fd_marker } => {
            std::thread::sleep(std::time::Duration::from_millis(30));
            stop.store(true, std::sync::atomic::Ordering::SeqCst);
            let got = rx_thread.join().unwrap_or_default();
            let _ = std::fs::remove_dir_all(dir);
            // what the receiver got is what the sink's successful sendto calls carried, in that order
            let sent: Vec<Vec<u8>> = interpose::since(fd_marker).into_iter().filter(|r| r.result >= 0).map(|r| r.payload).collect();
            rep.obs("unix_datagrams_cross_checked_with_the_syscall_log", sent.len() as u64);
            if sent != got {
                unix_mismatch = Some(format!("the Unix receiver got {} datagrams, the sink's successful sendto calls were {}", got.len(), sent.len()));
            }
            got
        }
        Obs::Udp { fd_marker, .. } => interpose::since(fd_marker).into_iter().filter(|r| r.result >= 0).map(|r| r.payload).collect(),
    };
    let cfg = jobj! {"sink" => sink_kind, "threads" => threads, "capacity" => cap, "default_capacity" => default_cap, "emits_per_thread" => per_thread, "flushing_threads" => flushers, "flush_one_in" => flush_one_in};
    let mut fail = |rep: &mut Report, rule: &str, class: &str, detail: String, extra: Json| {
        rep.violation(Violation {
            property: "C12".into(),
            rule: rule.into(),
            class: class.into(),
            detail: format!("[{} T={} cap={}] {}", sink_kind, threads, cap, detail),
            replay_args: args.to_vec_with(&[("case-seed", cs.to_string()), ("cases", "1".into())]),
            trace: jobj! {"config" => cfg.clone(), "evidence" => extra},
        });
    };
    if let Some(m) = unix_mismatch {
        fail(rep, "F2", "receiver-differs-from-syscall-log", m, Json::Null);
        return;
    }
    if let Some(p) = panic_msg {
        fail(rep, "no-panic", "emit-panicked", format!("an emitting thread panicked: {}", p), Json::Null);
        return;
    }
    if let Err(e) = flush_res {
        rep.inconclusive(format!("final flush failed: {}", e));
        return;
    }
    // expected texts
    let mut expect: HashMap<&str, (usize, usize, bool)> = HashMap::new(); // text -> (thread, seq, oversize)
    let mut acked = 0usize;
    for (t, v) in per_thread_sent.iter().enumerate() {
        for s in v {
            if s.ok {
                expect.insert(s.text.as_str(), (t, s.seq, s.oversize));
                acked += 1;
            }
        }
    }
    let mut seen: HashMap<&str, usize> = HashMap::new();
    let mut dgram_of: HashMap<(usize, usize), usize> = HashMap::new(); // (thread, seq) -> index of its datagram in the stream
    let mut last_seq: Vec<Option<usize>> = vec![None; threads];
    let mut stream_tids: Vec<usize> = Vec::new();
    let mut mixed = 0u64;
    for (di, d) in stream.iter().enumerate() {
        let text = match std::str::from_utf8(d) {
            Ok(t) => t,
            Err(_) => {
                fail(rep, "F1", "alien-bytes", format!("datagram #{} is not UTF-8", di), jobj! {"datagram" => clip_bytes(d, 200)});
                return;
            }
        };
        let lines: Vec<&str> = if let Some(body) = text.strip_suffix('\n') {
            if d.len() > cap {
                fail(rep, "F1", "exceeds-capacity", format!("datagram #{} has {} bytes, capacity {}", di, d.len(), cap), jobj! {"datagram" => clip_bytes(d, 300)});
                return;
            }
            body.split('\n').collect()
        } else {
            // must be a single oversize metric, alone and without terminator
            if text.contains('\n') || !expect.get(text).map(|e| e.2).unwrap_or(false) {
                fail(rep, "F1", "partial-line", format!("datagram #{} does not end with the terminator and is not one oversize metric", di), jobj! {"datagram" => clip_bytes(d, 300)});
                return;
            }
            vec![text]
        };
        let mut tids_here: Vec<usize> = Vec::new();
        for l in lines {
            match expect.get(l) {
                None => {
                    fail(rep, "F1", "partial-or-merged-line", format!("datagram #{} contains {:?}, which is not a whole acknowledged metric", di, cvh::json::clip(l, 120)), jobj! {"datagram" => clip_bytes(d, 400)});
                    return;
                }
                Some((t, seq, oversize)) => {
                    let c = seen.entry(l).or_insert(0);
                    *c += 1;
                    if *c > 1 {
                        fail(rep, "F2", "written-twice", format!("metric t{}.s{} appears twice in the stream", t, seq), jobj! {"datagram" => clip_bytes(d, 300)});
                        return;
                    }
                    if !*oversize {
                        if let Some(prev) = last_seq[*t] {
                            if *seq < prev {
                                fail(rep, "F2", "thread-order", format!("thread {}: buffered metric s{} left after s{}", t, seq, prev), jobj! {"datagram" => clip_bytes(d, 300)});
                                return;
                            }
                        }
                        last_seq[*t] = Some(*seq);
                    }
                    dgram_of.insert((*t, *seq), di);
                    tids_here.push(*t);
                    stream_tids.push(*t);
                }
            }
        }
        tids_here.dedup();
        if tids_here.len() > 1 {
            mixed += 1;
        }
    }
    if seen.len() != acked {
        let missing: Vec<String> = expect.iter().filter(|(k, _)| !seen.contains_key(*k)).take(5).map(|(_, (t, s, _))| format!("t{}.s{}", t, s)).collect();
        fail(rep, "F2", "acknowledged-metric-lost", format!("{} metrics were acknowledged with Ok but only {} appear in the datagram stream (e.g. {:?})", acked, seen.len(), missing), Json::Null);
        return;
    }
    // C06 under concurrency: when flush() returned Ok to a thread, every metric that thread had acknowledged was already
    // in one of the datagrams that existed at that moment
    let mut flush_checks = 0u64;
    if flush_mark == 1 || flush_mark == 2 {
        // udp: the stream is the subsequence of accepted sendto records since `udp_base`; map record index -> stream index
        for (t, fps) in per_thread_flush.iter().enumerate() {
            for (last_seq_acked, mark) in fps {
                // all acked metrics with seq <= last_seq_acked of thread t
                for s in per_thread_sent[t].iter().filter(|s| s.ok && s.seq <= *last_seq_acked) {
                    if let Some(di) = dgram_of.get(&(t, s.seq)) {
                        let limit = if flush_mark == 1 { *mark as usize } else { udp_stream_index_limit(udp_base, *mark) };
                        flush_checks += 1;
                        if *di >= limit {
                            fail(rep, "F2", "flush-left-data", format!("thread {}: flush() returned Ok when {} datagrams had been written, but its acknowledged metric s{} only left in datagram #{}", t, limit, s.seq, di), Json::Null);
                            return;
                        }
                    }
                }
            }
        }
    }
    rep.obs("flush_covers_own_metrics_checks", flush_checks);
    let switches = stream_tids.windows(2).filter(|w| w[0] != w[1]).count() as u64;
    rep.obs("datagrams_observed", stream.len() as u64);
    rep.obs("datagrams_mixing_lines_of_several_threads", mixed);
    rep.obs("thread_switches_in_stream", switches);
    rep.obs("acknowledged_metrics_checked", acked as u64);
    rep.obs(&format!("runs_{}", sink_kind), 1);
    if mixed == 0 {
        rep.trivial();
    } else {
        let mut wins: Vec<String> = Vec::new();
        for w in stream_tids.windows(3) {
            if w[0] != w[1] || w[1] != w[2] {
                let s3 = format!("{}|T{}|c{}|{}-{}-{}", sink_kind, threads, cap, w[0], w[1], w[2]);
                rep.fine("thread_id_trigrams_in_stream_order", &s3);
                wins.push(s3);
            }
        }
        rep.distinct_set(&format!("{}|T{}|c{}|f{}", sink_kind, threads, cap, flushers), &mut wins);
    }
    if rep.want_sample() {
        let first: Vec<Json> = stream.iter().take(3).map(|d| Json::Str(clip_bytes(d, 160))).collect();
        rep.sample(|| jobj! {"config" => cfg.clone(), "datagrams" => stream.len(), "datagrams_mixing_threads" => mixed, "thread_switches" => switches, "first_datagrams" => Json::Arr(first)});
    }
}

/// Number of ACCEPTED sendto records in the interposer log between `base` and `mark` (= how many datagrams of the
/// stream existed when the log had `mark` records).
fn udp_stream_index_limit(base: u64, mark: u64) -> usize {
    let g = interpose::STATE.lock().unwrap_or_else(|e| e.into_inner());
    g.log[base as usize..(mark as usize).min(g.log.len())].iter().filter(|r| r.result >= 0).count()
}

/// Two buffered sinks alive in one process (every event goes to two destinations), driven by the same threads: a flush of
/// one that returns Ok has written what THAT sink accepted from the flushing thread - whatever the thread did with the
/// other sink a moment before (same number of metrics, a flush of its own).
fn twin_case(rep: &mut Report, args: &Args, cs: u64) {
    let mut rng = Rng::new(cs);
    let threads = *rng.pick(&[1usize, 2, 3]);
    let cap = *rng.pick(&[24usize, 64, 512]);
    let (rx1, s1) = BufferedSpyMetricSink::with_capacity(None, Some(cap));
    let (rx2, s2) = BufferedSpyMetricSink::with_capacity(None, Some(cap));
    let (s1, s2) = (Arc::new(s1), Arc::new(s2));
    // a collector per sink: drains the channel into a shared byte log (a flush that has returned has finished its send)
    let logs: [Arc<std::sync::Mutex<Vec<u8>>>; 2] = [Arc::new(std::sync::Mutex::new(Vec::new())), Arc::new(std::sync::Mutex::new(Vec::new()))];
    let bad: Arc<std::sync::Mutex<Option<String>>> = Arc::new(std::sync::Mutex::new(None));
    let rounds = rng.range(20, 120) as usize;
    let mut joins = Vec::new();
    for t in 0..threads {
        let (s1, s2, rx1, rx2, logs, bad) = (s1.clone(), s2.clone(), rx1.clone(), rx2.clone(), logs.clone(), bad.clone());
        joins.push(std::thread::spawn(move || {
            let mut mine: [Vec<String>; 2] = [Vec::new(), Vec::new()];
            for k in 0..rounds {
                for (i, s) in [&s1, &s2].iter().enumerate() {
                    let m = format!("twin{}.t{}.n{}:{}|c", i + 1, t, k, k);
                    if s.emit(&m).is_ok() {
                        mine[i].push(m);
                    }
                }
                if k % 3 == 2 {
                    for (i, (s, rx)) in [(&s1, &rx1), (&s2, &rx2)].iter().enumerate() {
                        if s.flush().is_ok() {
                            let mut log = logs[i].lock().unwrap_or_else(|e| e.into_inner());
                            while let Ok(b) = rx.try_recv() {
                                log.extend_from_slice(&b);
                            }
                            let text = String::from_utf8_lossy(&log).to_string();
                            if let Some(missing) = mine[i].iter().find(|m| !text.split('\n').any(|l| l == m.as_str())) {
                                let mut b = bad.lock().unwrap_or_else(|e| e.into_inner());
                                if b.is_none() {
                                    *b = Some(format!("thread {} flushed sink {} of two (Ok) after round {}; its acknowledged metric {:?} is not among the {} bytes that sink has written", t, i + 1, k, missing, log.len()));
                                }
                                return;
                            }
                        }
                    }
                }
            }
        }));
    }
    for j in joins {
        let _ = j.join();
    }
    rep.eval();
    rep.obs("twin_sink_histories_one_thread_flushing_two_buffered_sinks", 1);
    rep.distinct(&format!("twin|T{}|cap{}", threads, cap));
    let b = bad.lock().unwrap_or_else(|e| e.into_inner()).clone();
    if let Some(b) = b {
        rep.violation(Violation { property: "C12".into(), rule: "F2".into(), class: "flush-left-data".into(), detail: format!("[twin spy sinks T={} cap={}] {}", threads, cap, b), replay_args: args.to_vec_with(&[("twin-case", cs.to_string())]), trace: Json::Null });
    }
}

fn main() {
    let args = Args::from_env();
    panics::install_hook();
    let mut rep = Report::new("conc_driver", "C12");
    if let Some(cs) = args.get("twin-case").and_then(|s| s.parse::<u64>().ok()) {
        twin_case(&mut rep, &args, cs);
        std::process::exit(rep.finish(args.get("out")));
    }
    if args.str("sink", "spy") == "spy" && args.get("case-seed").is_none() {
        for i in 0..6u64 {
            twin_case(&mut rep, &args, mix(&[args.u64("seed", 1), 0x7717, args.u64("shard", 0), i]));
        }
    }
    let seed = args.u64("seed", 1);
    let shard = args.u64("shard", 0);
    let cases = args.u64("cases", 4);
    let sink_kind = args.str("sink", "spy");
    let only = args.get("case-seed").map(|s| s.parse::<u64>().unwrap());
    for i in 0..cases {
        let cs = only.unwrap_or_else(|| mix(&[seed, 0xC12, shard, i, cvh::rng::hash_str(&sink_kind)]));
        run_case(&mut rep, &args, cs, &sink_kind);
        if only.is_some() || rep.violation_count >= 6 {
            break;
        }
    }
    std::process::exit(rep.finish(args.get("out")));
}
