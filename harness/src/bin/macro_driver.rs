//! macro_driver (C17, and the macro call form of C01/C04): one fresh process per global-client
//! configuration (the global default can be set only once per process).
//!
//!   macro_driver --cfg-seed X [--unset] [--sink accept|refuse|alternate] [--no-handler] --rounds N --out FILE
//!
//! For every macro x accepted value type x tag arity (0,1,2,3,6) the macro and the explicit chain
//! `get_global_default().unwrap().<kind>_with_tags(k, v).with_tag(..)....send()` are run back to back on the same
//! global client: same line, one emit each, same handler traffic; arguments are block expressions that bump
//! per-argument counters (each must be evaluated exactly once); with no client set every macro must panic.

use cadence::prelude::*;
use cadence_macros::*;
use cvh::callengine::*;
use cvh::json::clip;
use cvh::refmodel::*;
use cvh::rng::Rng;
use cvh::valgen::*;
use cvh::{jobj, panics, Args, Json, Report, Violation};
use std::io;
use std::sync::atomic::{AtomicU64, Ordering};
use std::time::Duration;

static REENTER: std::sync::atomic::AtomicBool = std::sync::atomic::AtomicBool::new(false);

static EVALS: [AtomicU64; 16] = [const { AtomicU64::new(0) }; 16];
/// order stamp of the (last) evaluation of each argument: the explicit chain evaluates key, value, then the tag
/// pairs left to right - a macro that sends "the same line" must do the same when arguments share state
static STAMPS: [AtomicU64; 16] = [const { AtomicU64::new(0) }; 16];
static CLOCK: AtomicU64 = AtomicU64::new(1);

fn bump<T>(i: usize, v: T) -> T {
    EVALS[i].fetch_add(1, Ordering::Relaxed);
    STAMPS[i].store(CLOCK.fetch_add(1, Ordering::Relaxed), Ordering::Relaxed);
    v
}

fn take_evals(n: usize) -> Vec<u64> {
    (0..n).map(|i| EVALS[i].swap(0, Ordering::Relaxed)).collect()
}

fn take_stamps(n: usize) -> Vec<u64> {
    (0..n).map(|i| STAMPS[i].swap(0, Ordering::Relaxed)).collect()
}

struct Ctx {
    rep: Report,
    cfg: ClientCfg,
    sink: RecSink,
    hlog: HandlerLog,
    handler: bool,
    sink_mode: String,
    unset: bool,
    args: Args,
    step: u64,
}

impl Ctx {
    fn violation(&mut self, rule: &str, class: &str, detail: String, trace: Json) {
        let replay_args = self.args.to_vec_with(&[]);
        // the macro call form of other properties: a run with --report-as C02 reports what the reference formatter finds in
        // the macro's line under C02 (numerals reach the wire without loss, whatever the call form) and nothing else
        let as_prop = self.args.str("report-as", "C17");
        if as_prop != "C17" && rule != "numeral" {
            self.rep.obs("other_property_rule_hits", 1);
            return;
        }
        self.rep.violation(Violation { property: as_prop, rule: rule.into(), class: class.into(), detail, replay_args, trace });
    }
    /// Script the sink outcome for the next emit according to the configured behaviour. Returns the injected error, if any.
    fn script(&mut self) -> Option<(io::ErrorKind, String)> {
        self.step += 1;
        let refuse = match self.sink_mode.as_str() {
            "refuse" => true,
            "alternate" => (self.step / 2) % 2 == 1, // same outcome for the macro and the chain of one pair
            _ => false,
        };
        if refuse {
            let msg = format!("inj-{}", self.step);
            self.sink.push_script(SinkOutcome::Refuse(io::ErrorKind::BrokenPipe, msg.clone()));
            Some((io::ErrorKind::BrokenPipe, msg))
        } else {
            None
        }
    }
}

/// Judge one (macro, chain) pair.
#[allow(clippy::too_many_arguments)]
fn judge(
    cx: &mut Ctx,
    mac: &str,
    kind: Kind,
    val: &Val,
    key: &str,
    tags: &[(String, String)],
    macro_res: Result<(), String>,
    macro_emits: Vec<(String, bool)>,
    macro_handled: Vec<ErrInfo>,
    macro_evals: Vec<u64>,
    chain_emits: Vec<(String, bool)>,
    chain_handled: Vec<ErrInfo>,
    injected: Option<(io::ErrorKind, String)>,
) {
    cx.rep.eval();
    let sig = format!("{}|{}|t{}|{}|h{}|{}", mac, val.type_tag(), tags.len(), cx.sink_mode, cx.handler as u8, if cx.unset { "unset" } else { "set" });
    cx.rep.distinct(&sig);
    let trace = jobj! {
        "macro" => mac, "value" => val.to_json(), "key" => clip(key, 80), "tags" => clip(&format!("{:?}", tags), 300),
        "client" => jobj!{"prefix" => clip(&cx.cfg.prefix_raw, 80), "default_tags" => clip(&format!("{:?}", cx.cfg.default_tags), 300), "default_container" => cx.cfg.default_container.clone(),
                           "sink" => cx.sink_mode.as_str(), "handler" => cx.handler, "unset" => cx.unset},
        "macro_emitted" => Json::Arr(macro_emits.iter().map(|(s, ok)| jobj!{"text" => clip(s, 300), "accepted" => *ok}).collect()),
        "chain_emitted" => Json::Arr(chain_emits.iter().map(|(s, ok)| jobj!{"text" => clip(s, 300), "accepted" => *ok}).collect()),
        "macro_result" => format!("{:?}", macro_res),
        "macro_handler_calls" => clip(&format!("{:?}", macro_handled), 300),
        "argument_evaluations" => format!("{:?}", macro_evals),
    };
    if cx.unset {
        // panics if and only if no global client has been set
        match macro_res {
            Err(_) => cx.rep.obs("unset_macros_panicked", 1),
            Ok(()) => {
                cx.violation("panic-iff-unset", "no-panic-when-unset", format!("{} did not panic although no global client is set", mac), trace);
                return;
            }
        }
        // ... and like the explicit chain `get_global_default().unwrap().<kind>_with_tags(key, value)...`, which fails at the
        // unwrap, it does so before touching its arguments (an argument expression may have side effects - even set a client)
        if macro_evals.iter().any(|n| *n != 0) {
            cx.violation("same-as-explicit-chain", "arguments-evaluated-although-unset", format!("{}: no global client is set, the explicit chain panics before evaluating anything, the macro evaluated its arguments {:?} times (key, value, tag pairs)", mac, macro_evals), trace);
        } else {
            cx.rep.obs("unset_macros_that_left_their_arguments_alone", 1);
        }
        return;
    }
    if let Err(p) = &macro_res {
        cx.violation("panic-iff-unset", "panic-with-client-set", format!("{} panicked although a global client is set: {}", mac, p), trace);
        return;
    }
    // each argument evaluated exactly once
    if macro_evals.iter().any(|n| *n != 1) {
        cx.violation("arguments-once", "argument-evaluated-not-once", format!("{}: argument evaluation counts {:?} (key, value, then tag key/value pairs)", mac, macro_evals), trace);
        return;
    }
    cx.rep.obs("argument_evaluations_checked", macro_evals.len() as u64);
    // value validity / expectation from the reference model (macro form of C01/C04)
    let decos: Vec<Deco> = tags.iter().map(|(k, v)| Deco::Tag(k.clone(), v.clone())).collect();
    let sp = CallSpec { kind, val: val.clone(), key: key.to_string(), form: Form::Quiet, decos };
    let exp = expectation(&cx.cfg, &sp);
    let want_emits = if exp.is_ok() { 1 } else { 0 };
    if macro_emits.len() != want_emits {
        cx.violation("single-emit", "emit-count", format!("{} produced {} emits, expected {}", mac, macro_emits.len(), want_emits), trace);
        return;
    }
    // a run for C02 judges the value field of the macro's line, nothing else - and before anything else can end the judgement
    if let (Ok(e), "C02", Some(first)) = (&exp, cx.args.str("report-as", "C17").as_str(), macro_emits.first()) {
        if let Some(Err(why)) = value_field_matches(e, &first.0) {
            cx.violation("numeral", "macro-value-field", format!("{}: {}", mac, why), trace);
            return;
        }
        cx.rep.obs("macro_value_fields_checked", 1);
    }
    // differential: the explicit chain must have produced the same line in one emit
    if macro_emits.iter().map(|e| &e.0).collect::<Vec<_>>() != chain_emits.iter().map(|e| &e.0).collect::<Vec<_>>() {
        cx.violation("same-as-explicit-chain", "line-differs-from-chain", format!("{} sent {:?} but the explicit chain sent {:?}", mac, macro_emits.first().map(|e| clip(&e.0, 200)), chain_emits.first().map(|e| clip(&e.0, 200))), trace);
        return;
    }
    cx.rep.obs("macro_vs_chain_pairs_equal", 1);
    if let Ok(e) = &exp {
        // how a line is formatted is not C17's business (macro and chain agree, that is all C17 says): the reference
        // formatter only counts here. A run for C02 judges the value field of the macro's line, nothing else.
        if matches_line(e, &macro_emits[0].0).is_ok() {
            cx.rep.obs("macro_lines_matched_reference", 1);
        } else {
            cx.rep.obs("other_property_rule_hits", 1);
        }
    }
    // failures go to the handler only, exactly once, with the same error; nothing on success
    let want_handler = if exp.is_err() || injected.is_some() { 1 } else { 0 };
    if cx.handler {
        if macro_handled.len() != want_handler {
            cx.violation("failures-to-handler", if want_handler == 1 { "handler-not-called" } else { "handler-on-success" }, format!("{}: handler invoked {} times, expected {}", mac, macro_handled.len(), want_handler), trace);
            return;
        }
        if want_handler == 1 {
            let h = &macro_handled[0];
            let good = match &injected {
                Some((k, m)) if exp.is_ok() => h.kind == cadence::ErrorKind::IoError && h.io.as_ref().map(|(ik, im)| ik == k && im == m).unwrap_or(false),
                _ => h.kind == cadence::ErrorKind::InvalidInput,
            };
            if !good {
                cx.violation("failures-to-handler", "wrong-error", format!("{}: handler saw {:?}", mac, h), trace);
                return;
            }
            cx.rep.obs("handler_deliveries_checked", 1);
        }
        if chain_handled.len() != macro_handled.len() {
            cx.violation("same-as-explicit-chain", "handler-traffic-differs", format!("{}: handler calls macro={} chain={}", mac, macro_handled.len(), chain_handled.len()), trace);
            return;
        }
    }
    if cx.rep.want_sample() {
        cx.rep.sample(|| trace);
    }
}

/// One macro x one value expression x the five tag arities.
macro_rules! pairs {
    ($cx:expr, $r:expr, $mac:ident, $method:ident, $kind:expr, $val:expr, $mk:expr) => {{
        let val: Val = $val;
        let keys: Vec<String> = (0..6).map(|i| format!("tk{}{}", i, cvh::strgen::clean_ascii($r, 0, 6))).collect();
        let vals: Vec<String> = (0..6).map(|i| format!("tv{}{}", i, cvh::strgen::clean_multi($r, 0, 5))).collect();
        let key = format!("key.{}", cvh::strgen::clean_ascii($r, 0, 8));
        for arity in [0usize, 1, 2, 3, 6] {
            let tags: Vec<(String, String)> = (0..arity).map(|i| (keys[i].clone(), vals[i].clone())).collect();
            // ---- the macro ----
            let inj = $cx.script();
            let eb = $cx.sink.emit_count();
            let hb = $cx.hlog.len();
            let _ = take_evals(16);
            let spelling = ($cx.step as usize + arity) % 5;
            if arity < 2 && spelling != 0 {
                $cx.rep.obs("macro_invocations_with_arguments_spelled_as_block_identifier_parenthesised_or_if", 1);
            }
            let mres = panics::guard(|| {
                match arity {
                    // the arguments are expressions: however they are spelled (call, block, plain identifier,
                    // parenthesised, `if`), the macro does the same thing
                    0 => match spelling {
                        1 => { $mac!(bump(0, key.as_str()), { bump(1, $mk(&val)) }); }
                        2 => { let k = bump(0, key.as_str()); let v = bump(1, $mk(&val)); $mac!(k, v); }
                        3 => { $mac!((bump(0, key.as_str())), (bump(1, $mk(&val)))); }
                        4 => { $mac!(bump(0, key.as_str()), if spelling == 4 { bump(1, $mk(&val)) } else { unreachable!() }); }
                        _ => { $mac!(bump(0, key.as_str()), bump(1, $mk(&val))); }
                    },
                    1 => match spelling {
                        1 => { $mac!({ bump(0, key.as_str()) }, { bump(1, $mk(&val)) }, { bump(2, keys[0].as_str()) } => { bump(3, vals[0].as_str()) }); }
                        2 => { let k = bump(0, key.as_str()); let v = bump(1, $mk(&val)); let tk = bump(2, keys[0].as_str()); let tv = bump(3, vals[0].as_str()); $mac!(k, v, tk => tv); }
                        3 => { $mac!(bump(0, key.as_str()), { let x = bump(1, $mk(&val)); x }, (bump(2, keys[0].as_str())) => (bump(3, vals[0].as_str()))); }
                        4 => { $mac!(bump(0, key.as_str()), match spelling { 4 => bump(1, $mk(&val)), _ => unreachable!() }, bump(2, keys[0].as_str()) => bump(3, vals[0].as_str())); }
                        _ => { $mac!(bump(0, key.as_str()), bump(1, $mk(&val)), bump(2, keys[0].as_str()) => bump(3, vals[0].as_str())); }
                    },
                    2 => { $mac!(bump(0, key.as_str()), bump(1, $mk(&val)), bump(2, keys[0].as_str()) => bump(3, vals[0].as_str()), bump(4, keys[1].as_str()) => bump(5, vals[1].as_str())); }
                    3 => { $mac!(bump(0, key.as_str()), bump(1, $mk(&val)), bump(2, keys[0].as_str()) => bump(3, vals[0].as_str()), bump(4, keys[1].as_str()) => bump(5, vals[1].as_str()), bump(6, keys[2].as_str()) => bump(7, vals[2].as_str())); }
                    _ => { $mac!(bump(0, key.as_str()), bump(1, $mk(&val)),
                                  bump(2, keys[0].as_str()) => bump(3, vals[0].as_str()), bump(4, keys[1].as_str()) => bump(5, vals[1].as_str()),
                                  bump(6, keys[2].as_str()) => bump(7, vals[2].as_str()), bump(8, keys[3].as_str()) => bump(9, vals[3].as_str()),
                                  bump(10, keys[4].as_str()) => bump(11, vals[4].as_str()), bump(12, keys[5].as_str()) => bump(13, vals[5].as_str())); }
                }
            });
            let mevals = take_evals(2 + 2 * arity);
            let mstamps = take_stamps(2 + 2 * arity);
            if mres.is_ok() && !$cx.unset && mevals.iter().all(|n| *n == 1) && mstamps.windows(2).any(|w| w[0] >= w[1]) {
                let st = format!("{:?}", mstamps);
                $cx.violation("same-as-explicit-chain", "argument-evaluation-order", format!("{}: arguments were not evaluated in the order key, value, tag pairs left to right (order stamps {})", stringify!($mac), st), Json::Null);
            } else if mres.is_ok() && !$cx.unset {
                $cx.rep.obs("argument_order_checks", 1);
            }
            let memits = $cx.sink.emits_from(eb);
            let mhandled = $cx.hlog.from(hb);
            $cx.sink.log.lock().unwrap().script.clear();
            // ---- the explicit chain on the same global client ----
            let (cemits, chandled) = if $cx.unset {
                (vec![], vec![])
            } else {
                if let Some((k, m)) = &inj {
                    $cx.sink.push_script(SinkOutcome::Refuse(*k, m.clone()));
                    $cx.step += 1;
                } else {
                    $cx.step += 1;
                }
                let eb2 = $cx.sink.emit_count();
                let hb2 = $cx.hlog.len();
                let _ = panics::guard(|| {
                    let client = get_global_default().unwrap();
                    let mut b = client.$method(key.as_str(), $mk(&val));
                    for (k, v) in &tags {
                        b = b.with_tag(k.as_str(), v.as_str());
                    }
                    b.send();
                });
                let ce = $cx.sink.emits_from(eb2);
                let ch = $cx.hlog.from(hb2);
                $cx.sink.log.lock().unwrap().script.clear();
                (ce, ch)
            };
            judge($cx, stringify!($mac), $kind, &val, &key, &tags, mres, memits, mhandled, mevals, cemits, chandled, inj);
        }
    }};
}

fn all_pairs(cx: &mut Ctx, r: &mut Rng) {
    // value producers: each returns a fresh value of the concrete type from the recorded `Val`
    fn i64_of(v: &Val) -> i64 { if let Val::I64(x) = v { *x } else { unreachable!() } }
    fn i32_of(v: &Val) -> i32 { if let Val::I32(x) = v { *x } else { unreachable!() } }
    fn u64_of(v: &Val) -> u64 { if let Val::U64(x) = v { *x } else { unreachable!() } }
    fn u32_of(v: &Val) -> u32 { if let Val::U32(x) = v { *x } else { unreachable!() } }
    fn f64_of(v: &Val) -> f64 { if let Val::F64(x) = v { *x } else { unreachable!() } }
    fn dur_of(v: &Val) -> Duration { if let Val::Dur(x) = v { *x } else { unreachable!() } }
    fn vu64_of(v: &Val) -> Vec<u64> { if let Val::VU64(x) = v { x.clone() } else { unreachable!() } }
    fn vf64_of(v: &Val) -> Vec<f64> { if let Val::VF64(x) = v { x.clone() } else { unreachable!() } }
    fn vdur_of(v: &Val) -> Vec<Duration> { if let Val::VDur(x) = v { x.clone() } else { unreachable!() } }
    let fin = true;
    pairs!(cx, r, statsd_count, count_with_tags, Kind::Counter, gen_val(r, Kind::Counter, "i64", false, fin), i64_of);
    pairs!(cx, r, statsd_count, count_with_tags, Kind::Counter, gen_val(r, Kind::Counter, "i32", false, fin), i32_of);
    pairs!(cx, r, statsd_count, count_with_tags, Kind::Counter, gen_val(r, Kind::Counter, "u64", false, fin), u64_of);
    pairs!(cx, r, statsd_count, count_with_tags, Kind::Counter, gen_val(r, Kind::Counter, "u32", false, fin), u32_of);
    pairs!(cx, r, statsd_time, time_with_tags, Kind::Timer, gen_val(r, Kind::Timer, "u64", false, fin), u64_of);
    pairs!(cx, r, statsd_time, time_with_tags, Kind::Timer, gen_val(r, Kind::Timer, "Duration", false, fin), dur_of);
    pairs!(cx, r, statsd_time, time_with_tags, Kind::Timer, gen_val(r, Kind::Timer, "Vec<u64>", true, fin), vu64_of);
    pairs!(cx, r, statsd_time, time_with_tags, Kind::Timer, gen_val(r, Kind::Timer, "Vec<Duration>", true, fin), vdur_of);
    pairs!(cx, r, statsd_gauge, gauge_with_tags, Kind::Gauge, gen_val(r, Kind::Gauge, "u64", false, fin), u64_of);
    pairs!(cx, r, statsd_gauge, gauge_with_tags, Kind::Gauge, gen_val(r, Kind::Gauge, "f64", false, fin), f64_of);
    pairs!(cx, r, statsd_meter, meter_with_tags, Kind::Meter, gen_val(r, Kind::Meter, "u64", false, fin), u64_of);
    pairs!(cx, r, statsd_histogram, histogram_with_tags, Kind::Histogram, gen_val(r, Kind::Histogram, "u64", false, fin), u64_of);
    pairs!(cx, r, statsd_histogram, histogram_with_tags, Kind::Histogram, gen_val(r, Kind::Histogram, "f64", false, fin), f64_of);
    pairs!(cx, r, statsd_histogram, histogram_with_tags, Kind::Histogram, gen_val(r, Kind::Histogram, "Duration", false, fin), dur_of);
    pairs!(cx, r, statsd_histogram, histogram_with_tags, Kind::Histogram, gen_val(r, Kind::Histogram, "Vec<u64>", true, fin), vu64_of);
    pairs!(cx, r, statsd_histogram, histogram_with_tags, Kind::Histogram, gen_val(r, Kind::Histogram, "Vec<f64>", true, fin), vf64_of);
    pairs!(cx, r, statsd_histogram, histogram_with_tags, Kind::Histogram, gen_val(r, Kind::Histogram, "Vec<Duration>", true, fin), vdur_of);
    pairs!(cx, r, statsd_distribution, distribution_with_tags, Kind::Distribution, gen_val(r, Kind::Distribution, "u64", false, fin), u64_of);
    pairs!(cx, r, statsd_distribution, distribution_with_tags, Kind::Distribution, gen_val(r, Kind::Distribution, "f64", false, fin), f64_of);
    pairs!(cx, r, statsd_distribution, distribution_with_tags, Kind::Distribution, gen_val(r, Kind::Distribution, "Vec<u64>", true, fin), vu64_of);
    pairs!(cx, r, statsd_distribution, distribution_with_tags, Kind::Distribution, gen_val(r, Kind::Distribution, "Vec<f64>", true, fin), vf64_of);
    pairs!(cx, r, statsd_set, set_with_tags, Kind::Set, gen_val(r, Kind::Set, "i64", false, fin), i64_of);
}

fn main() {
    let args = Args::from_env();
    panics::install_hook();
    let seed = args.u64("cfg-seed", 1);
    let mut r = Rng::new(cvh::rng::mix(&[seed, 0xC17]));
    let unset = args.flag("unset");
    let handler = !args.flag("no-handler");
    let sink_mode = args.str("sink", "accept");
    let with_defaults = r.chance(3, 4);
    let (cfg, _) = gen_client_cfg(&mut r, false, with_defaults);
    let sink = RecSink::new();
    let hlog = HandlerLog::default();
    // threads that exist before the client is set; some of them try a macro too early (it must panic, and must
    // not poison later use on that thread)
    let late_set = !unset && args.flag("late-set");
    let mut early_panics = 0u64;
    let early_thread: Option<(std::sync::mpsc::Sender<()>, std::thread::JoinHandle<(bool, bool)>)> = if late_set {
        let (tx, rx) = std::sync::mpsc::channel::<()>();
        let (tried_tx, tried_rx) = std::sync::mpsc::channel::<()>();
        let h = std::thread::spawn(move || {
            let before = panics::guard(|| {
                statsd_count!("too.early", 1);
            })
            .is_err();
            let _ = tried_tx.send(()); // the main thread sets the client only after this attempt was made
            let _ = rx.recv(); // wait until the client has been set
            let after = panics::guard(|| {
                statsd_gauge!("after.set.on.early.thread", 7u64, "t" => "early");
            })
            .is_ok();
            (before, after)
        });
        let _ = tried_rx.recv();
        Some((tx, h))
    } else {
        None
    };
    if late_set {
        if panics::guard(|| {
            statsd_count!("too.early.main", 1);
        })
        .is_err()
        {
            early_panics += 1;
        }
        if panics::guard(|| {
            statsd_time!("too.early.main", 5u64, "a" => "b");
        })
        .is_err()
        {
            early_panics += 1;
        }
    }
    if !unset {
        let client = build_client(&cfg, sink.clone(), if handler { Some(hlog.clone()) } else { None });
        set_global_default(client);
        *HANDLER_EXTRA.lock().unwrap() = Some(std::sync::Arc::new(|| {
            if REENTER.swap(false, Ordering::SeqCst) {
                statsd_count!("sent.from.handler", 1);
            }
        }));
    }
    let mut cx = Ctx { rep: Report::new("macro_driver", &args.str("report-as", "C17")), cfg, sink, hlog, handler, sink_mode, unset, args: args.clone(), step: 0 };
    if is_global_default_set() == unset {
        cx.violation("panic-iff-unset", "is_global_default_set-wrong", format!("is_global_default_set() = {} in a process where the client was {}set", is_global_default_set(), if unset { "not " } else { "" }), Json::Null);
    }
    // a macro invoked from a destructor that runs while its thread is unwinding from another panic: the rule "panics if and
    // only if no global client has been set" has no exception for that (the macro's panic is caught inside the destructor)
    {
        let outcome = std::sync::Arc::new(std::sync::atomic::AtomicU8::new(0));
        struct InDrop(std::sync::Arc<std::sync::atomic::AtomicU8>);
        impl Drop for InDrop {
            fn drop(&mut self) {
                let unwinding = std::thread::panicking();
                let res = std::panic::catch_unwind(|| {
                    statsd_count!("macro.in.drop", 1);
                    statsd_gauge!("macro.in.drop", 2u64, "a" => "b");
                });
                self.0.store(if !unwinding { 9 } else if res.is_err() { 1 } else { 2 }, std::sync::atomic::Ordering::SeqCst);
            }
        }
        let o2 = outcome.clone();
        let before = cx.sink.emit_count();
        let _ = std::thread::spawn(move || {
            let _g = InDrop(o2);
            panic!("scripted-panic: unwinding with a metric-emitting guard on the stack");
        })
        .join();
        let got = outcome.load(std::sync::atomic::Ordering::SeqCst);
        let sent = cx.sink.emit_count() - before;
        cx.rep.obs("macros_invoked_from_a_destructor_during_unwinding", 1);
        match (unset, got) {
            (true, 1) | (false, 2) => {}
            (true, _) => cx.violation("panic-iff-unset", "no-panic-when-unset", format!("macros invoked from a destructor during unwinding did not panic although no global client is set (outcome code {})", got), Json::Null),
            (false, _) => cx.violation("panic-iff-unset", "panic-with-client-set", format!("macros invoked from a destructor during unwinding: outcome code {} (1 = panicked), {} emits", got, sent), Json::Null),
        }
        if !unset && got == 2 && sent != 2 && cx.sink_mode == "accept" {
            cx.violation("single-emit", "emit-count", format!("two macros invoked from a destructor during unwinding produced {} emits", sent), Json::Null);
        }
        cx.sink.log.lock().unwrap().script.clear();
    }
    // a macro invoked from a thread-local's destructor at THREAD EXIT (set state only: unset it would panic inside a
    // TLS destructor, which aborts by design of the runtime). The application's thread-local is initialised before the
    // thread's first macro, so it is destroyed after whatever per-thread state the macros crate may keep.
    if !unset {
        use std::cell::RefCell;
        struct AtExit(std::sync::Arc<std::sync::atomic::AtomicU8>);
        impl Drop for AtExit {
            fn drop(&mut self) {
                statsd_count!("macro.at.thread.exit", 1);
                statsd_time!("macro.at.thread.exit", 2u64, "a" => "b");
                self.0.store(1, std::sync::atomic::Ordering::SeqCst);
            }
        }
        thread_local! {
            static AT_EXIT: RefCell<Option<AtExit>> = const { RefCell::new(None) };
        }
        let before = cx.sink.emit_count();
        let mut expected = 0;
        for guard_first in [true, false] {
            let done = std::sync::Arc::new(std::sync::atomic::AtomicU8::new(0));
            let d2 = done.clone();
            let _ = std::thread::spawn(move || {
                if guard_first {
                    AT_EXIT.with(|g| *g.borrow_mut() = Some(AtExit(d2)));
                    statsd_gauge!("macro.before.exit", 1u64);
                } else {
                    statsd_gauge!("macro.before.exit", 1u64);
                    AT_EXIT.with(|g| *g.borrow_mut() = Some(AtExit(d2)));
                }
            })
            .join();
            expected += 3;
            cx.rep.obs("macros_invoked_from_a_thread_local_destructor_at_thread_exit", 2);
            if done.load(std::sync::atomic::Ordering::SeqCst) != 1 {
                cx.violation("panic-iff-unset", "panic-with-client-set", "macros invoked from a thread-local destructor at thread exit did not complete although a global client is set".into(), Json::Null);
            }
        }
        let sent = cx.sink.emit_count() - before;
        if sent != expected && cx.sink_mode == "accept" {
            cx.violation("single-emit", "emit-count", format!("{} macros around a thread's exit produced {} emits", expected, sent), Json::Null);
        }
        cx.sink.log.lock().unwrap().script.clear();
    }
    // keys written as string LITERALS (with braces, percent signs, backslashes): a literal is an expression like any other,
    // the macro sends it as the tagged call does - verbatim
    if !unset {
        macro_rules! lit {
            ($mac:ident, $method:ident, $key:literal, $val:expr) => {{
                let b0 = cx.sink.emit_count();
                let rm = panics::guard(|| { $mac!($key, $val); });
                let m = cx.sink.emits_from(b0);
                cx.sink.log.lock().unwrap().script.clear();
                let b1 = cx.sink.emit_count();
                let rc = panics::guard(|| { get_global_default().unwrap().$method($key, $val).send(); });
                let c = cx.sink.emits_from(b1);
                cx.sink.log.lock().unwrap().script.clear();
                cx.rep.obs("macros_with_a_literal_key_containing_braces", 1);
                if rm.is_ok() != rc.is_ok() || m.iter().map(|e| &e.0).collect::<Vec<_>>() != c.iter().map(|e| &e.0).collect::<Vec<_>>() {
                    cx.violation("same-as-explicit-chain", "line-differs-from-chain", format!("{} with the literal key {:?} sent {:?}, the explicit chain sent {:?}", stringify!($mac), $key, m.first().map(|e| clip(&e.0, 120)), c.first().map(|e| clip(&e.0, 120))), Json::Null);
                }
            }};
        }
        lit!(statsd_count, count_with_tags, "lit.{{a}}.}}.{{", 1i64);
        lit!(statsd_time, time_with_tags, "lit.{{0}}%s\\n", 2u64);
        lit!(statsd_gauge, gauge_with_tags, "{{}}", 3u64);
        lit!(statsd_meter, meter_with_tags, "lit.{{x:?}}", 4u64);
        lit!(statsd_histogram, histogram_with_tags, "{{{{lit}}}}", 5u64);
        lit!(statsd_distribution, distribution_with_tags, "lit}}{{", 6u64);
        lit!(statsd_set, set_with_tags, "lit.{{", 7i64);
    }
    // tag keys and values written as expressions of OTHER types that coerce to &str where `with_tag` wants one
    // (&String, &Box<str>, &Rc<str>, &Cow<str>, a user type that derefs to str and displays as something else): the
    // tagged call sees the coerced str, and so does the macro
    if !unset {
        struct Region {
            code: String,
            name: &'static str,
        }
        impl std::ops::Deref for Region {
            type Target = str;
            fn deref(&self) -> &str {
                &self.code
            }
        }
        impl std::fmt::Display for Region {
            fn fmt(&self, f: &mut std::fmt::Formatter<'_>) -> std::fmt::Result {
                write!(f, "{} ({})", self.code, self.name)
            }
        }
        let region = Region { code: "eu-west-1".into(), name: "Ireland" };
        let owned: String = "owned-value".into();
        let boxed: Box<str> = "boxed-value".into();
        let rc: std::rc::Rc<str> = "rc-value".into();
        let cow: std::borrow::Cow<'static, str> = std::borrow::Cow::Owned("cow-value".into());
        let b0 = cx.sink.emit_count();
        let rm = panics::guard(|| {
            statsd_count!("coerce.a", 1i64, "region" => &region, &owned => &owned);
            statsd_gauge!("coerce.b", 2u64, &boxed => &boxed, "rc" => &rc, "cow" => &cow);
            statsd_time!(&owned, 3u64, &region => &cow);
        });
        let m: Vec<String> = cx.sink.emits_from(b0).iter().map(|e| e.0.clone()).collect();
        cx.sink.log.lock().unwrap().script.clear();
        let b1 = cx.sink.emit_count();
        let rc2 = panics::guard(|| {
            let c = get_global_default().unwrap();
            c.count_with_tags("coerce.a", 1i64).with_tag("region", &region).with_tag(&owned, &owned).send();
            c.gauge_with_tags("coerce.b", 2u64).with_tag(&boxed, &boxed).with_tag("rc", &rc).with_tag("cow", &cow).send();
            c.time_with_tags(&owned, 3u64).with_tag(&region, &cow).send();
        });
        let c: Vec<String> = cx.sink.emits_from(b1).iter().map(|e| e.0.clone()).collect();
        cx.sink.log.lock().unwrap().script.clear();
        cx.rep.obs("macros_with_arguments_of_types_that_coerce_to_str", 3);
        if rm.is_ok() != rc2.is_ok() || m != c {
            let at = m.iter().zip(c.iter()).position(|(a, b)| a != b).unwrap_or(0);
            cx.violation("same-as-explicit-chain", "line-differs-from-chain", format!("arguments of types that coerce to &str: the macros sent {:?}, the explicit chains sent {:?}", m.get(at).map(|x| clip(x, 160)), c.get(at).map(|x| clip(x, 160))), Json::Null);
        }
    }
    // a later set_global_default is ignored; the client it was given is destroyed, and a destructor on the way (a sink
    // that counts its own closing) may use the macros like any other code: they go to the winning client, and nothing hangs
    if !unset {
        use std::sync::atomic::{AtomicBool, Ordering as O};
        struct ClosingSink;
        impl cadence::MetricSink for ClosingSink {
            fn emit(&self, m: &str) -> std::io::Result<usize> {
                Ok(m.len())
            }
        }
        impl Drop for ClosingSink {
            fn drop(&mut self) {
                statsd_count!("sink.closed", 1i64, "which" => "turned-down");
            }
        }
        let b0 = cx.sink.emit_count();
        let fin = std::sync::Arc::new(AtomicBool::new(false));
        let fin2 = fin.clone();
        // (the calling thread registers with the process monitor, the new one does not: it is watched like a thread of the library)
        let _me = cvh::procmon::Registration::new();
        let j = std::thread::spawn(move || {
            let r = panics::guard(|| set_global_default(cadence::StatsdClient::from_sink("second", ClosingSink)));
            fin2.store(true, O::SeqCst);
            r.is_ok()
        });
        let verdict = cvh::procmon::watch(|| fin.load(O::SeqCst), 40, std::time::Duration::from_millis(400), std::time::Duration::from_secs(30));
        cx.rep.obs("later_sets_whose_rejected_client_uses_the_macros_while_dying", 1);
        match verdict {
            None => {
                let ok = j.join().unwrap_or(false);
                let m: Vec<String> = cx.sink.emits_from(b0).iter().map(|e| e.0.clone()).collect();
                cx.sink.log.lock().unwrap().script.clear();
                let b1 = cx.sink.emit_count();
                let _ = panics::guard(|| get_global_default().unwrap().count_with_tags("sink.closed", 1i64).with_tag("which", "turned-down").send());
                let c: Vec<String> = cx.sink.emits_from(b1).iter().map(|e| e.0.clone()).collect();
                cx.sink.log.lock().unwrap().script.clear();
                if !ok {
                    cx.violation("panic-iff-unset", "panic-with-client-set", "a later set_global_default whose rejected client uses a macro in a destructor panicked although a global client is set".to_string(), Json::Null);
                } else if m != c {
                    cx.violation("same-as-explicit-chain", "line-differs-from-chain", format!("a macro used while the client of an ignored set_global_default was destroyed sent {:?}; the explicit chain on the global client sent {:?}", m, c), Json::Null);
                }
            }
            Some(cvh::procmon::Quiescence::ParkedForGood { samples, span_ms, .. }) => {
                cx.violation("same-as-explicit-chain", "macro-never-returns", format!("a later set_global_default whose rejected client uses a macro in a destructor never returned: its thread is asleep with unchanged context-switch counters over {} samples / {} ms (the explicit chain on the global client returns at once)", samples, span_ms), Json::Null);
                std::mem::forget(j);
                // whatever that thread holds, it holds for good: no further macro can be judged in this process
                std::process::exit(cx.rep.finish(args.get("out")));
            }
            Some(other) => {
                cx.rep.inconclusive(format!("later set with a macro-using destructor: {:?}", other));
                std::mem::forget(j);
            }
        }
    }
    // temporaries of an argument expression (a lock guard, say) are gone before the metric is sent, as in the explicit
    // sequence `let b = client.count_with_tags(key, value); b.send()`: while the sink runs, the calling thread holds
    // nothing the argument took
    if !unset {
        use std::sync::atomic::{AtomicU32, Ordering as O};
        static REGISTRY: std::sync::Mutex<(i64, u64)> = std::sync::Mutex::new((7, 9));
        static HELD: AtomicU32 = AtomicU32::new(0);
        static FREE: AtomicU32 = AtomicU32::new(0);
        *EMIT_EXTRA.lock().unwrap() = Some(std::sync::Arc::new(|| {
            match REGISTRY.try_lock() {
                Ok(_) => FREE.fetch_add(1, O::SeqCst),
                Err(_) => HELD.fetch_add(1, O::SeqCst),
            };
        }));
        let r1 = panics::guard(|| {
            statsd_count!("guard.temp", REGISTRY.lock().unwrap().0);
            statsd_gauge!("guard.temp", REGISTRY.lock().unwrap().1, "t" => "v");
        });
        let (held_m, free_m) = (HELD.swap(0, O::SeqCst), FREE.swap(0, O::SeqCst));
        let r2 = panics::guard(|| {
            let c = get_global_default().unwrap();
            let b = c.count_with_tags("guard.temp", REGISTRY.lock().unwrap().0);
            b.send();
            let b = c.gauge_with_tags("guard.temp", REGISTRY.lock().unwrap().1);
            let b = b.with_tag("t", "v");
            b.send();
        });
        let (held_c, free_c) = (HELD.swap(0, O::SeqCst), FREE.swap(0, O::SeqCst));
        *EMIT_EXTRA.lock().unwrap() = None;
        cx.sink.log.lock().unwrap().script.clear();
        cx.rep.obs("macros_whose_argument_takes_a_lock_the_sink_probes", 2);
        if r1.is_ok() != r2.is_ok() || held_m != held_c || free_m != free_c {
            cx.violation("same-as-explicit-chain", "argument-temporary-outlives-the-send", format!("an argument expression that locks a mutex for its own duration: while the sink ran for the macros the mutex was held {} times and free {} times; for the explicit sequence held {} / free {}", held_m, free_m, held_c, free_c), Json::Null);
        }
    }
    // control flow inside an argument expression: `return` in a tag value leaves the CALLER, as it does in the explicit
    // chain - the macro is not a function call, and nothing around the argument may catch the jump
    if !unset {
        use std::sync::atomic::{AtomicBool, Ordering as O};
        fn via_macro(u: Option<&str>, after: &AtomicBool) {
            statsd_gauge!("ret.k", 1u64, "user" => match u { Some(u) => u, None => return });
            statsd_count!(match u { Some(_) => "ret.c", None => return }, 2i64);
            after.store(true, O::SeqCst);
        }
        fn via_chain(u: Option<&str>, after: &AtomicBool) {
            get_global_default().unwrap().gauge_with_tags("ret.k", 1u64).with_tag("user", match u { Some(u) => u, None => return }).send();
            get_global_default().unwrap().count_with_tags(match u { Some(_) => "ret.c", None => return }, 2i64).send();
            after.store(true, O::SeqCst);
        }
        for u in [None, Some("alice")] {
            let (am, ac) = (AtomicBool::new(false), AtomicBool::new(false));
            let b0 = cx.sink.emit_count();
            let rm = panics::guard(|| via_macro(u, &am));
            let nm = cx.sink.emit_count() - b0;
            cx.sink.log.lock().unwrap().script.clear();
            let b1 = cx.sink.emit_count();
            let rc = panics::guard(|| via_chain(u, &ac));
            let nc = cx.sink.emit_count() - b1;
            cx.sink.log.lock().unwrap().script.clear();
            cx.rep.obs("macros_with_a_return_inside_an_argument", 2);
            if rm.is_ok() != rc.is_ok() || nm != nc || am.load(O::SeqCst) != ac.load(O::SeqCst) {
                cx.violation(
                    "same-as-explicit-chain",
                    "control-flow-in-argument",
                    format!("an argument expression that returns from the caller ({:?}): after the macros the caller went on = {}, {} emits; after the explicit chains the caller went on = {}, {} emits", u, am.load(O::SeqCst), nm, ac.load(O::SeqCst), nc),
                    Json::Null,
                );
            }
        }
    }
    if late_set {
        cx.rep.obs("macros_tried_before_set", 2);
        if early_panics != 2 {
            cx.violation("panic-iff-unset", "no-panic-when-unset", format!("{} of 2 macro invocations made before set_global_default panicked", early_panics), Json::Null);
        }
        if let Some((tx, h)) = early_thread {
            let before_emits = cx.sink.emit_count();
            let _ = tx.send(());
            match h.join() {
                Ok((panicked_before, worked_after)) => {
                    cx.rep.obs("threads_that_tried_a_macro_before_set", 1);
                    if !panicked_before {
                        cx.violation("panic-iff-unset", "no-panic-when-unset", "a macro invoked on another thread before set_global_default did not panic".into(), Json::Null);
                    }
                    if !worked_after || cx.sink.emit_count() != before_emits + 1 {
                        cx.violation("panic-iff-unset", "panic-with-client-set", format!("a thread that had tried a macro before the client was set: macro after the set worked={} emits={}", worked_after, cx.sink.emit_count() - before_emits), Json::Null);
                    }
                }
                Err(_) => cx.rep.inconclusive("early thread died"),
            }
            cx.sink.clear();
            cx.hlog.clear();
        }
    }
    let rounds = args.u64("rounds", 3);
    for _ in 0..rounds {
        all_pairs(&mut cx, &mut r);
        if cx.rep.violation_count >= 8 {
            break;
        }
    }
    // a macro used from inside the global client's own error handler (a common way to count send failures): the nested
    // macro is an ordinary macro call and must send
    if !unset && args.flag("reentrant-handler") {
        let before = cx.sink.emit_count();
        REENTER.store(true, Ordering::SeqCst);
        cx.sink.push_script(SinkOutcome::Refuse(io::ErrorKind::BrokenPipe, "for-the-handler".into()));
        let r = panics::guard(|| {
            statsd_meter!("outer.metric", 9u64);
        });
        REENTER.store(false, Ordering::SeqCst);
        let emitted = cx.sink.emits_from(before);
        cx.rep.obs("macro_inside_handler_checks", 1);
        let nested_ok = emitted.iter().any(|(s, ok)| *ok && s.contains("sent.from.handler"));
        if r.is_err() || !nested_ok {
            cx.violation("same-as-explicit-chain", "macro-inside-handler-did-not-send", format!("a macro invoked from the client's error handler did not send (result {:?}, emits {:?})", r, emitted), Json::Null);
        }
        cx.sink.clear();
        cx.hlog.clear();
    }
    // a macro on a thread spawned after the set
    if !unset {
        let before = cx.sink.emit_count();
        let ok = std::thread::spawn(|| {
            panics::guard(|| {
                statsd_set!("from.new.thread", 4i64, "x" => "y");
            })
            .is_ok()
        })
        .join()
        .unwrap_or(false);
        cx.rep.obs("macros_on_fresh_threads", 1);
        if !ok || cx.sink.emit_count() != before + 1 {
            cx.violation("panic-iff-unset", "panic-with-client-set", "a macro on a thread spawned after set_global_default did not send".into(), Json::Null);
        }
    }
    // a second set must be ignored (the first client stays)
    if !unset {
        let other = RecSink::new();
        set_global_default(cadence::StatsdClient::from_sink("other", other.clone()));
        let before = cx.sink.emit_count();
        let _ = panics::guard(|| {
            statsd_count!("after.second.set", 1);
        });
        if other.emit_count() != 0 || cx.sink.emit_count() != before + 1 {
            cx.violation("same-as-explicit-chain", "second-set-replaced-client", "after a second set_global_default the macro no longer used the first client".into(), Json::Null);
        }
        cx.rep.obs("second_set_ignored_checks", 1);
    }
    std::process::exit(cx.rep.finish(args.get("out")));
}
