//! Panic capture: a process-wide hook that records (thread, location, message) instead of printing,
//! and a `guard` that runs a closure under `catch_unwind` and reports what unwound.

use std::panic::{self, AssertUnwindSafe};
use std::sync::Mutex;

#[derive(Clone, Debug)]
pub struct PanicRecord {
    pub thread: String,
    pub location: String,
    pub message: String,
}

static LOG: Mutex<Vec<PanicRecord>> = Mutex::new(Vec::new());

pub fn payload_to_string(p: &(dyn std::any::Any + Send)) -> String {
    if let Some(s) = p.downcast_ref::<&'static str>() {
        s.to_string()
    } else if let Some(s) = p.downcast_ref::<String>() {
        s.clone()
    } else {
        "<non-string panic payload>".to_string()
    }
}

/// Install the recording hook. Panics whose message starts with `quiet_prefix` (the scripted panics
/// the harness raises on purpose inside wrapped sinks) are recorded too, nothing is printed.
pub fn install_hook() {
    panic::set_hook(Box::new(|info| {
        let message = payload_to_string(info.payload());
        let location = info.location().map(|l| format!("{}:{}:{}", l.file(), l.line(), l.column())).unwrap_or_default();
        let thread = std::thread::current().name().unwrap_or("<unnamed>").to_string();
        let mut g = LOG.lock().unwrap_or_else(|e| e.into_inner());
        if g.len() < 10_000 {
            g.push(PanicRecord { thread, location, message });
        }
    }));
}

pub fn take_log() -> Vec<PanicRecord> {
    let mut g = LOG.lock().unwrap_or_else(|e| e.into_inner());
    std::mem::take(&mut *g)
}

pub fn log_len() -> usize {
    LOG.lock().unwrap_or_else(|e| e.into_inner()).len()
}

/// "Who calls" includes a thread that is unwinding from a panic of its own: with `set_unwind_every(n)` every n-th
/// guarded call of each thread is made from a destructor that runs during such an unwinding (`thread::panicking()`
/// is true inside the call). Nothing in the library's contract depends on it.
static UNWIND_EVERY: std::sync::atomic::AtomicU32 = std::sync::atomic::AtomicU32::new(0);
static UNWOUND_CALLS: std::sync::atomic::AtomicU64 = std::sync::atomic::AtomicU64::new(0);
thread_local! {
    static UNWIND_TICK: std::cell::Cell<u32> = const { std::cell::Cell::new(0) };
}

pub fn set_unwind_every(n: u32) {
    UNWIND_EVERY.store(n, std::sync::atomic::Ordering::SeqCst);
}

/// Number of guarded calls made from an unwinding destructor so far (for the evidence).
pub fn unwound_calls() -> u64 {
    UNWOUND_CALLS.load(std::sync::atomic::Ordering::SeqCst)
}

struct Quiet;

fn guard_while_unwinding<R>(f: impl FnOnce() -> R) -> Result<R, String> {
    struct G<'a, F: FnOnce() -> R, R>(Option<F>, &'a mut Option<Result<R, String>>);
    impl<'a, F: FnOnce() -> R, R> Drop for G<'a, F, R> {
        fn drop(&mut self) {
            if let Some(f) = self.0.take() {
                debug_assert!(std::thread::panicking());
                *self.1 = Some(guard_plain(f));
            }
        }
    }
    let mut slot: Option<Result<R, String>> = None;
    let _ = panic::catch_unwind(AssertUnwindSafe(|| {
        let _g = G(Some(f), &mut slot);
        // (no hook, no message: the harness's own panic, raised only to have something to unwind from)
        panic::resume_unwind(Box::new(Quiet));
    }));
    UNWOUND_CALLS.fetch_add(1, std::sync::atomic::Ordering::Relaxed);
    slot.unwrap_or_else(|| Err("the guarded call did not run".into()))
}

/// Run `f`; `Err(description)` if it unwound. The description includes the location recorded by the hook.
pub fn guard<R>(f: impl FnOnce() -> R) -> Result<R, String> {
    let every = UNWIND_EVERY.load(std::sync::atomic::Ordering::Relaxed);
    if every > 0 && !std::thread::panicking() {
        let t = UNWIND_TICK.with(|c| {
            c.set(c.get().wrapping_add(1));
            c.get()
        });
        if t % every == 0 {
            return guard_while_unwinding(f);
        }
    }
    guard_plain(f)
}

fn guard_plain<R>(f: impl FnOnce() -> R) -> Result<R, String> {
    let before = log_len();
    match panic::catch_unwind(AssertUnwindSafe(f)) {
        Ok(r) => Ok(r),
        Err(p) => {
            let msg = payload_to_string(&*p);
            let loc = {
                let g = LOG.lock().unwrap_or_else(|e| e.into_inner());
                g.get(before..).and_then(|s| s.iter().rev().find(|r| r.message == msg)).map(|r| r.location.clone()).unwrap_or_default()
            };
            Err(format!("panic at {}: {}", loc, msg))
        }
    }
}

/// Proves that arithmetic overflow checks are enabled in this build (C20 relies on it).
pub fn overflow_checks_enabled() -> bool {
    let r = panic::catch_unwind(|| {
        let x: u8 = std::hint::black_box(255u8);
        let y: u8 = std::hint::black_box(1u8);
        #[allow(arithmetic_overflow)]
        let z = x + y;
        std::hint::black_box(z)
    });
    // remove the canary's record from the log
    let mut g = LOG.lock().unwrap_or_else(|e| e.into_inner());
    g.retain(|r| !r.message.contains("attempt to add with overflow"));
    r.is_err()
}
