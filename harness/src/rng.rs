//! SplitMix64-seeded xoshiro256** PRNG. Deterministic for a given seed; no external crates.
//!
//! Byte mode (`Rng::from_bytes`): the same generators can be driven by a coverage-guided fuzzer - every decision
//! consumes bytes of the fuzzer's input (1 byte for choices among <= 256, 2 for <= 65536, 8 otherwise) until the
//! input is used up; from then on the PRNG, seeded from the input, takes over (generators that loop until they draw
//! a valid choice must not spin on a constant).

#[derive(Clone, Debug)]
pub struct Rng {
    s: [u64; 4],
    src: Option<(std::sync::Arc<Vec<u8>>, usize)>,
}

pub fn splitmix(x: &mut u64) -> u64 {
    *x = x.wrapping_add(0x9E37_79B9_7F4A_7C15);
    let mut z = *x;
    z = (z ^ (z >> 30)).wrapping_mul(0xBF58_476D_1CE4_E5B9);
    z = (z ^ (z >> 27)).wrapping_mul(0x94D0_49BB_1331_11EB);
    z ^ (z >> 31)
}

/// Mix several integers into one seed (used for shard / case seeds).
pub fn mix(parts: &[u64]) -> u64 {
    let mut h = 0x243F_6A88_85A3_08D3u64;
    for p in parts {
        h ^= *p;
        let mut x = h;
        h = splitmix(&mut x);
    }
    h
}

pub fn hash_str(s: &str) -> u64 {
    // FNV-1a 64
    let mut h = 0xcbf2_9ce4_8422_2325u64;
    for b in s.as_bytes() {
        h ^= *b as u64;
        h = h.wrapping_mul(0x0000_0100_0000_01B3);
    }
    h
}

impl Rng {
    pub fn new(seed: u64) -> Rng {
        let mut x = seed;
        let s = [splitmix(&mut x), splitmix(&mut x), splitmix(&mut x), splitmix(&mut x)];
        Rng { s, src: None }
    }

    /// A generator driven by `data` (see the module comment).
    pub fn from_bytes(data: &[u8]) -> Rng {
        let mut h = 0xcbf2_9ce4_8422_2325u64;
        for b in data {
            h ^= *b as u64;
            h = h.wrapping_mul(0x0000_0100_0000_01B3);
        }
        let mut r = Rng::new(h);
        r.src = Some((std::sync::Arc::new(data.to_vec()), 0));
        r
    }

    /// Next `n` input bytes as a little-endian number; None once the input is used up (byte mode ends for good).
    fn take_bytes(&mut self, n: usize) -> Option<u64> {
        let (data, pos) = self.src.as_mut()?;
        if *pos + n > data.len() {
            self.src = None;
            return None;
        }
        let mut v = 0u64;
        for i in 0..n {
            v |= (data[*pos + i] as u64) << (8 * i);
        }
        *pos += n;
        Some(v)
    }

    pub fn next_u64(&mut self) -> u64 {
        if let Some(v) = self.take_bytes(8) {
            return v;
        }
        let result = self.s[1].wrapping_mul(5).rotate_left(7).wrapping_mul(9);
        let t = self.s[1] << 17;
        self.s[2] ^= self.s[0];
        self.s[3] ^= self.s[1];
        self.s[1] ^= self.s[2];
        self.s[0] ^= self.s[3];
        self.s[2] ^= t;
        self.s[3] = self.s[3].rotate_left(45);
        result
    }

    /// Uniform in 0..n (n > 0).
    pub fn below(&mut self, n: u64) -> u64 {
        debug_assert!(n > 0);
        if self.src.is_some() {
            let w = if n <= 256 { 1 } else if n <= 65536 { 2 } else { 8 };
            if let Some(v) = self.take_bytes(w) {
                return v % n;
            }
        }
        // multiply-shift; bias negligible for our purposes
        ((self.next_u64() as u128 * n as u128) >> 64) as u64
    }

    pub fn usize_below(&mut self, n: usize) -> usize {
        self.below(n as u64) as usize
    }

    /// Uniform in lo..=hi.
    pub fn range(&mut self, lo: u64, hi: u64) -> u64 {
        lo + self.below(hi - lo + 1)
    }

    pub fn chance(&mut self, num: u64, den: u64) -> bool {
        self.below(den) < num
    }

    pub fn pick<'a, T>(&mut self, xs: &'a [T]) -> &'a T {
        &xs[self.usize_below(xs.len())]
    }

    pub fn f64_unit(&mut self) -> f64 {
        (self.next_u64() >> 11) as f64 / (1u64 << 53) as f64
    }

    /// A u64 whose bit width is uniform in 0..=64 (so small and huge values are equally likely).
    pub fn u64_any_width(&mut self) -> u64 {
        let w = self.below(65);
        if w == 0 {
            0
        } else if w == 64 {
            self.next_u64()
        } else {
            (1u64 << (w - 1)) | (self.next_u64() & ((1u64 << (w - 1)) - 1))
        }
    }

    pub fn i64_any_width(&mut self) -> i64 {
        let v = self.u64_any_width();
        match self.below(3) {
            0 => (v >> 1) as i64,
            1 => ((v >> 1) as i64).wrapping_neg(),
            _ => v as i64,
        }
    }

    pub fn fork(&mut self) -> Rng {
        // (in byte mode the fork is seeded from the next 8 input bytes and runs as a plain PRNG)
        Rng::new(self.next_u64())
    }
}
