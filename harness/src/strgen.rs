//! Seeded generators for prefixes, keys, tags and container ids: clean (delimiter-free), dirty
//! (delimiter-laden), multi-byte, empty and long strings.

use crate::rng::Rng;

const CLEAN_ASCII: &[u8] = b"abcdefghijklmnopqrstuvwxyzABCDEFGHIJKLMNOPQRSTUVWXYZ0123456789_-./ =+*~!$%^&()[]{}<>?;'\"\\`\t";
const MULTI: &[&str] = &["é", "ß", "ж", "中", "文", "日本", "🎉", "𝄞", "\u{200b}", "\u{feff}", "ñ", "Ω", "\u{7f}", "\u{1}", "\r"];
const DELIMS: &[&str] = &[":", "|", "#", ",", "@", "\n", "|#", "|c:", "|T", "|@", "::", "||"];

#[derive(Clone, Copy, Debug, PartialEq, Eq)]
pub enum StrClass {
    Empty,
    CleanAscii,
    CleanMulti,
    Dirty,
    Long,
    DotsOnly,
    /// what real deployments put there: container runtime ids, UUIDs, well-known tag names, host names, versions
    Realistic,
}

impl StrClass {
    pub fn tag(self) -> &'static str {
        match self {
            StrClass::Empty => "empty",
            StrClass::CleanAscii => "ascii",
            StrClass::CleanMulti => "multi",
            StrClass::Dirty => "dirty",
            StrClass::Long => "long",
            StrClass::DotsOnly => "dots",
            StrClass::Realistic => "realistic",
        }
    }
}

pub fn clean_ascii(r: &mut Rng, min: usize, max: usize) -> String {
    let n = r.range(min as u64, max as u64) as usize;
    (0..n).map(|_| CLEAN_ASCII[r.usize_below(CLEAN_ASCII.len())] as char).collect()
}

pub fn clean_multi(r: &mut Rng, min: usize, max: usize) -> String {
    let n = r.range(min as u64, max as u64) as usize;
    let mut s = String::new();
    for _ in 0..n {
        if r.chance(1, 2) {
            s.push_str(MULTI[r.usize_below(MULTI.len())]);
        } else {
            s.push(CLEAN_ASCII[r.usize_below(CLEAN_ASCII.len())] as char);
        }
    }
    s
}

/// Values that look like what production systems really configure (all delimiter-free): a library may know such shapes
/// ("a 64-digit hex string is a docker id", "`env` is a reserved tag") - a client sends them as they are.
pub fn realistic(r: &mut Rng) -> String {
    fn hex(r: &mut Rng, n: usize, upper: bool) -> String {
        (0..n).map(|_| if upper { b"0123456789ABCDEF" } else { b"0123456789abcdef" }[r.usize_below(16)] as char).collect()
    }
    match r.below(24) {
        0 | 1 => hex(r, 64, false),
        2 => format!("ci-{}", hex(r, 64, false)),
        3 => format!("in-{}", r.range(1, 4_000_000_000)),
        4 => format!("{}-{}-{}-{}-{}", hex(r, 8, false), hex(r, 4, false), hex(r, 4, false), hex(r, 4, false), hex(r, 12, false)),
        5 => hex(r, 32, false),
        6 => hex(r, 64, true),
        7 => hex(r, 12, false),
        8 => (*r.pick(&["env", "service", "version", "host", "hostname", "device", "source", "container_id", "pod_name", "kube_namespace", "dd.internal.entity_id", "dd.internal.card", "region", "availability-zone"])).to_string(),
        9 => (*r.pick(&["prod", "production", "staging", "dev", "us-east-1", "eu-west-1a", "true", "false", "null", "none", "0", "1", "-1", "NaN", "inf"])).to_string(),
        10 => format!("{}.{}.{}", r.below(20), r.below(100), r.below(1000)),
        11 => format!("v{}.{}.{}-rc{}+build{}", r.below(9), r.below(9), r.below(9), r.below(9), r.below(999)),
        12 => format!("ip-10-{}-{}-{}.ec2.internal", r.below(256), r.below(256), r.below(256)),
        13 => format!("{}.{}.{}.{}", r.below(256), r.below(256), r.below(256), r.below(256)),
        14 => (*r.pick(&["my.app", "myapp", "statsd", "datadog", "dogstatsd", "cadence", "app.metrics", "http.requests", "requests.count", "latency_ms", "system.cpu.user"])).to_string(),
        15 => format!("pod-{}-{}", hex(r, 10, false), hex(r, 5, false)),
        16 => format!("/docker/{}", hex(r, 64, false)),
        17 => format!("cri-containerd-{}.scope", hex(r, 64, false)),
        18 => r.range(1_500_000_000, 2_000_000_000).to_string(),
        19 => hex(r, 63, false),
        20 => hex(r, 65, false),
        21 => (*r.pick(&["localhost", "127.0.0.1", "8125", "udp", "unix", "http", "https"])).to_string(),
        22 => format!("{}{}", hex(r, 63, false), "g"),
        _ => hex(r, 40, false),
    }
}

pub fn dirty(r: &mut Rng, min: usize, max: usize) -> String {
    let n = r.range(min.max(1) as u64, max.max(1) as u64) as usize;
    let mut s = String::new();
    let mut has = false;
    for _ in 0..n {
        match r.below(4) {
            0 => {
                s.push_str(DELIMS[r.usize_below(DELIMS.len())]);
                has = true;
            }
            1 => s.push_str(MULTI[r.usize_below(MULTI.len())]),
            _ => s.push(CLEAN_ASCII[r.usize_below(CLEAN_ASCII.len())] as char),
        }
    }
    if !has {
        s.push_str(DELIMS[r.usize_below(DELIMS.len())]);
    }
    s
}

/// A string of the given class. `allow_dirty=false` maps Dirty to CleanMulti.
pub fn of_class(r: &mut Rng, c: StrClass) -> String {
    match c {
        StrClass::Empty => String::new(),
        StrClass::CleanAscii => clean_ascii(r, 1, 24),
        StrClass::CleanMulti => clean_multi(r, 1, 16),
        StrClass::Dirty => dirty(r, 1, 16),
        StrClass::Long => {
            let n = if r.chance(1, 40) { *r.pick(&[65535usize, 65536, 70000]) } else { *r.pick(&[255usize, 256, 300, 1024, 4096]) };
            clean_ascii(r, n, n)
        }
        StrClass::DotsOnly => ".".repeat(r.range(1, 4) as usize),
        StrClass::Realistic => realistic(r),
    }
}

pub fn pick_class(r: &mut Rng, allow_dirty: bool, allow_empty: bool) -> StrClass {
    loop {
        let c = match r.below(20) {
            0 => StrClass::Empty,
            1..=9 => StrClass::CleanAscii,
            10..=13 => StrClass::CleanMulti,
            14..=17 => StrClass::Dirty,
            18 => StrClass::Long,
            _ => StrClass::Realistic,
        };
        if c == StrClass::Dirty && !allow_dirty {
            continue;
        }
        if c == StrClass::Empty && !allow_empty {
            continue;
        }
        return c;
    }
}

/// Prefix generator: (raw prefix handed to the client builder, class tag).
pub fn prefix(r: &mut Rng, allow_dirty: bool) -> (String, &'static str) {
    match r.below(16) {
        0 => (String::new(), "empty"),
        1 => (".".repeat(r.range(1, 3) as usize), "dots-only"),
        2 | 3 => {
            let mut p = clean_ascii(r, 1, 12).trim_end_matches('.').to_string();
            if p.is_empty() {
                p.push('p');
            }
            (p, "no-trailing-dot")
        }
        4 | 5 => {
            let mut p = clean_ascii(r, 1, 12).trim_end_matches('.').to_string();
            p.push('x');
            p.push('.');
            (p, "one-trailing-dot")
        }
        6 | 7 => {
            let mut p = clean_ascii(r, 1, 12);
            p.push('y');
            p.push_str(&".".repeat(r.range(2, 5) as usize));
            (p, "many-trailing-dots")
        }
        8 => {
            // dots inside and in front must be preserved
            let p = format!("..{}..{}", clean_ascii(r, 1, 5), clean_ascii(r, 1, 5).trim_end_matches('.'));
            (format!("{}z", p), "inner-dots")
        }
        9 | 10 => (format!("{}m", clean_multi(r, 1, 10)), "multibyte"),
        11 => {
            let n = *r.pick(&[300usize, 1024]);
            (format!("{}L", clean_ascii(r, n, n)), "long")
        }
        12 | 13 if allow_dirty => (dirty(r, 1, 10), "dirty"),
        _ => (format!("{}q", clean_ascii(r, 1, 12).trim_end_matches('.')), "no-trailing-dot"),
    }
}
