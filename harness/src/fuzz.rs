//! Support for running the drivers' case generators under a coverage-guided fuzzer (libFuzzer through cargo-fuzz):
//! the fuzzer's input bytes drive the same generators (`Rng::from_bytes`) and the same oracles; every finding carries
//! the input as hex so that `<driver> --mode fuzz-one --hex <bytes>` replays it without the fuzzer.
//!
//! One long-lived `Report` per fuzzing process; it is written to `$CVH_FUZZ_OUT/report-<pid>.json` every few seconds
//! (libFuzzer's fork mode kills its children without notice), in the format of every other driver report, so that the
//! orchestrator merges them like shard reports.

use crate::{Args, Report};
use std::sync::Mutex;
use std::time::Instant;

pub struct Session {
    pub rep: Report,
    pub args: Args,
    out: Option<String>,
    last_write: Instant,
    execs: u64,
}

static SESSION: Mutex<Option<Session>> = Mutex::new(None);

pub fn hex(data: &[u8]) -> String {
    let mut s = String::with_capacity(data.len() * 2);
    for b in data {
        s.push_str(&format!("{:02x}", b));
    }
    s
}

pub fn unhex(s: &str) -> Vec<u8> {
    let b = s.as_bytes();
    (0..b.len() / 2).map(|i| u8::from_str_radix(std::str::from_utf8(&b[2 * i..2 * i + 2]).unwrap_or("0"), 16).unwrap_or(0)).collect()
}

/// Replay arguments for a finding made on this input.
pub fn replay_of(data: &[u8]) -> Vec<(&'static str, String)> {
    vec![("mode", "fuzz-one".to_string()), ("hex", hex(data))]
}

/// Run one fuzzer input. `f(report, args)` executes the case(s) and records evaluations, observations and violations.
pub fn step(driver: &str, f: impl FnOnce(&mut Report, &Args)) {
    let mut g = SESSION.lock().unwrap_or_else(|e| e.into_inner());
    let st = g.get_or_insert_with(|| {
        // libfuzzer-sys installs a hook that aborts on every panic; the drivers catch the panics they provoke
        crate::panics::install_hook();
        let prop = std::env::var("CVH_FUZZ_PROP").unwrap_or_else(|_| "C20".to_string());
        let mut v = vec!["--property".to_string(), prop.clone()];
        if let Ok(extra) = std::env::var("CVH_FUZZ_ARGS") {
            v.extend(extra.split_whitespace().map(|s| s.to_string()));
        }
        let mut rep = Report::new(driver, &prop);
        if !crate::panics::overflow_checks_enabled() {
            rep.inconclusive("overflow checks are not enabled in this build");
        }
        rep.note("coverage-guided run: libFuzzer mutates the byte string that drives the case generator (Rng::from_bytes); evaluations = fuzzer executions");
        let out = std::env::var("CVH_FUZZ_OUT").ok().map(|d| format!("{}/report-{}.json", d, std::process::id()));
        Session { rep, args: Args::from_vec(v), out, last_write: Instant::now(), execs: 0 }
    });
    f(&mut st.rep, &st.args);
    st.execs += 1;
    st.rep.obs("fuzzer_executions", 1);
    if st.execs == 1 || st.last_write.elapsed().as_millis() > 2000 {
        if let Some(o) = &st.out {
            let tmp = format!("{}.tmp", o);
            let _ = st.rep.finish(Some(&tmp));
            let _ = std::fs::rename(&tmp, o);
        }
        st.last_write = Instant::now();
    }
}
