// sendto interposer - `include!`d into the driver binaries that observe the socket sinks at the syscall
// boundary. Because std is linked statically into the binary, defining `sendto` here binds std's reference to
// this definition: every UdpSocket::send_to / UnixDatagram::send_to of the process passes through it.
// It records (seq, tid, fd, destination sockaddr, payload copy, result), can fail a call with a scripted errno
// WITHOUT entering the kernel (all-or-nothing datagram semantics), and otherwise performs the real syscall.
// Never combined with ThreadSanitizer (which has its own interceptor).

use std::collections::VecDeque;
use std::sync::Mutex;

#[derive(Clone, Debug)]
pub struct Rec {
    pub seq: u64,
    pub tid: u32,
    pub fd: i32,
    pub dest: Vec<u8>,
    pub payload: Vec<u8>,
    pub flags: i32,
    /// bytes sent, or -1
    pub result: isize,
    pub errno: i32,
    /// true if the failure was injected by the script (the kernel never saw the call)
    pub scripted: bool,
}

pub struct State {
    pub log: Vec<Rec>,
    /// outcome for the next calls: Some(errno) = fail with errno, None = pass through
    pub script: VecDeque<Option<i32>>,
    /// random failures: (per mille, errno list, xorshift state)
    pub random: Option<(u64, Vec<i32>, u64)>,
    pub record_payloads: bool,
}

pub static STATE: Mutex<State> = Mutex::new(State { log: Vec::new(), script: VecDeque::new(), random: None, record_payloads: true });

extern "C" {
    fn syscall(num: i64, ...) -> i64;
    fn __errno_location() -> *mut i32;
}

const SYS_SENDTO: i64 = 44;
const SYS_GETTID: i64 = 186;

thread_local! {
    static TID: std::cell::Cell<u32> = const { std::cell::Cell::new(0) };
}

fn my_tid() -> u32 {
    TID.with(|t| {
        if t.get() == 0 {
            t.set(unsafe { syscall(SYS_GETTID) } as u32);
        }
        t.get()
    })
}

/// Contention mode: every call fails at once with this errno (0 = off; negative = every call succeeds at once) without taking the lock or logging; only the
/// number of attempts and their byte total are counted. Used to make many threads hammer a sink's own bookkeeping.
pub static FAST_FAIL_ERRNO: std::sync::atomic::AtomicI32 = std::sync::atomic::AtomicI32::new(0);
/// sendto calls on this descriptor succeed without entering the kernel (still logged); -1 = off
pub static FAKE_OK_FD: std::sync::atomic::AtomicI32 = std::sync::atomic::AtomicI32::new(-1);
pub static FAST_ATTEMPTS: std::sync::atomic::AtomicU64 = std::sync::atomic::AtomicU64::new(0);
pub static FAST_BYTES: std::sync::atomic::AtomicU64 = std::sync::atomic::AtomicU64::new(0);

/// # Safety
/// Called by std with the arguments of sendto(2).
#[no_mangle]
pub unsafe extern "C" fn sendto(fd: i32, buf: *const u8, len: usize, flags: i32, addr: *const u8, alen: u32) -> isize {
    let ff = FAST_FAIL_ERRNO.load(std::sync::atomic::Ordering::Relaxed);
    if ff != 0 {
        FAST_ATTEMPTS.fetch_add(1, std::sync::atomic::Ordering::Relaxed);
        FAST_BYTES.fetch_add(len as u64, std::sync::atomic::Ordering::Relaxed);
        if ff < 0 {
            // "accepted by the kernel" without entering it (volume runs: gigabytes of datagrams in no time)
            return len as isize;
        }
        *__errno_location() = ff;
        return -1;
    }
    let payload = if buf.is_null() { Vec::new() } else { std::slice::from_raw_parts(buf, len).to_vec() };
    let dest = if addr.is_null() { Vec::new() } else { std::slice::from_raw_parts(addr, alen as usize).to_vec() };
    let tid = my_tid();
    // decide under the lock, perform the syscall outside of it, append the record afterwards under the lock again;
    // the sink calls sendto under its own mutex, so per sink the log order is the wire order
    let injected: Option<i32> = {
        let mut g = STATE.lock().unwrap_or_else(|e| e.into_inner());
        if let Some(o) = g.script.pop_front() {
            o
        } else if let Some((pm, errnos, st)) = g.random.as_mut() {
            let mut x = *st;
            x ^= x << 13;
            x ^= x >> 7;
            x ^= x << 17;
            *st = x;
            if x % 1000 < *pm {
                Some(errnos[(x >> 20) as usize % errnos.len()])
            } else {
                None
            }
        } else {
            None
        }
    };
    let (result, errno, scripted) = match injected {
        // a destination that this sandbox cannot reach (another host): "accepted by the kernel" without entering it
        // (marked `scripted`: the kernel never saw it, an strace of the process must not expect it)
        None if FAKE_OK_FD.load(std::sync::atomic::Ordering::Relaxed) == fd => (len as isize, 0, true),
        Some(e) => {
            *__errno_location() = e;
            (-1isize, e, true)
        }
        None => {
            let r = syscall(SYS_SENDTO, fd as i64, buf, len, flags as i64, addr, alen as i64) as isize;
            let e = if r < 0 { *__errno_location() } else { 0 };
            (r, e, false)
        }
    };
    {
        let mut g = STATE.lock().unwrap_or_else(|e| e.into_inner());
        let seq = g.log.len() as u64;
        let keep = g.record_payloads;
        g.log.push(Rec { seq, tid, fd, dest, payload: if keep { payload } else { Vec::new() }, flags, result, errno, scripted });
    }
    if result < 0 {
        *__errno_location() = errno;
    }
    result
}

pub fn mark() -> u64 {
    STATE.lock().unwrap_or_else(|e| e.into_inner()).log.len() as u64
}

pub fn since(mark: u64) -> Vec<Rec> {
    STATE.lock().unwrap_or_else(|e| e.into_inner()).log[mark as usize..].to_vec()
}

pub fn clear() {
    let mut g = STATE.lock().unwrap_or_else(|e| e.into_inner());
    g.log.clear();
    g.script.clear();
    g.random = None;
}

pub fn push_script(o: Option<i32>) {
    STATE.lock().unwrap_or_else(|e| e.into_inner()).script.push_back(o);
}

pub fn clear_script() {
    STATE.lock().unwrap_or_else(|e| e.into_inner()).script.clear();
}

pub fn set_random(per_mille: u64, errnos: Vec<i32>, seed: u64) {
    STATE.lock().unwrap_or_else(|e| e.into_inner()).random = if per_mille == 0 { None } else { Some((per_mille, errnos, seed | 1)) };
}
