//! Minimal JSON value with a writer (and a small parser used for replay files).

use std::collections::BTreeMap;
use std::fmt::Write as _;

#[derive(Clone, Debug, PartialEq)]
pub enum Json {
    Null,
    Bool(bool),
    Int(i128),
    Float(f64),
    Str(String),
    Arr(Vec<Json>),
    Obj(BTreeMap<String, Json>),
}

impl From<&str> for Json {
    fn from(s: &str) -> Json {
        Json::Str(s.to_string())
    }
}
impl From<String> for Json {
    fn from(s: String) -> Json {
        Json::Str(s)
    }
}
impl From<&String> for Json {
    fn from(s: &String) -> Json {
        Json::Str(s.clone())
    }
}
impl From<bool> for Json {
    fn from(b: bool) -> Json {
        Json::Bool(b)
    }
}
macro_rules! from_int {
    ($($t:ty),*) => { $(impl From<$t> for Json { fn from(v: $t) -> Json { Json::Int(v as i128) } })* };
}
from_int!(i32, i64, u32, u64, usize, u8, u16, i128);
impl From<f64> for Json {
    fn from(v: f64) -> Json {
        Json::Float(v)
    }
}
impl<T: Into<Json>> From<Vec<T>> for Json {
    fn from(v: Vec<T>) -> Json {
        Json::Arr(v.into_iter().map(Into::into).collect())
    }
}
impl<T: Into<Json>> From<Option<T>> for Json {
    fn from(v: Option<T>) -> Json {
        match v {
            None => Json::Null,
            Some(x) => x.into(),
        }
    }
}

#[macro_export]
macro_rules! jobj {
    ($($k:expr => $v:expr),* $(,)?) => {{
        #[allow(unused_mut)]
        let mut m = std::collections::BTreeMap::new();
        $( m.insert($k.to_string(), $crate::json::Json::from($v)); )*
        $crate::json::Json::Obj(m)
    }};
}

impl Json {
    pub fn obj() -> Json {
        Json::Obj(BTreeMap::new())
    }

    pub fn set(&mut self, k: &str, v: impl Into<Json>) {
        if let Json::Obj(m) = self {
            m.insert(k.to_string(), v.into());
        }
    }

    pub fn get(&self, k: &str) -> Option<&Json> {
        match self {
            Json::Obj(m) => m.get(k),
            _ => None,
        }
    }

    pub fn as_str(&self) -> Option<&str> {
        match self {
            Json::Str(s) => Some(s),
            _ => None,
        }
    }

    pub fn as_i128(&self) -> Option<i128> {
        match self {
            Json::Int(i) => Some(*i),
            _ => None,
        }
    }

    pub fn as_arr(&self) -> Option<&[Json]> {
        match self {
            Json::Arr(a) => Some(a),
            _ => None,
        }
    }

    pub fn write(&self, out: &mut String) {
        match self {
            Json::Null => out.push_str("null"),
            Json::Bool(b) => out.push_str(if *b { "true" } else { "false" }),
            Json::Int(i) => {
                let _ = write!(out, "{}", i);
            }
            Json::Float(f) => {
                if f.is_finite() {
                    let _ = write!(out, "{:?}", f);
                } else {
                    let _ = write!(out, "\"{}\"", f);
                }
            }
            Json::Str(s) => write_str(out, s),
            Json::Arr(a) => {
                out.push('[');
                for (i, x) in a.iter().enumerate() {
                    if i > 0 {
                        out.push(',');
                    }
                    x.write(out);
                }
                out.push(']');
            }
            Json::Obj(m) => {
                out.push('{');
                for (i, (k, v)) in m.iter().enumerate() {
                    if i > 0 {
                        out.push(',');
                    }
                    write_str(out, k);
                    out.push(':');
                    v.write(out);
                }
                out.push('}');
            }
        }
    }

    pub fn to_string(&self) -> String {
        let mut s = String::new();
        self.write(&mut s);
        s
    }

    pub fn parse(text: &str) -> Result<Json, String> {
        let mut p = Parser { b: text.as_bytes(), i: 0 };
        p.ws();
        let v = p.value()?;
        p.ws();
        if p.i != p.b.len() {
            return Err(format!("trailing data at {}", p.i));
        }
        Ok(v)
    }
}

fn write_str(out: &mut String, s: &str) {
    out.push('"');
    for c in s.chars() {
        match c {
            '"' => out.push_str("\\\""),
            '\\' => out.push_str("\\\\"),
            '\n' => out.push_str("\\n"),
            '\r' => out.push_str("\\r"),
            '\t' => out.push_str("\\t"),
            c if (c as u32) < 0x20 => {
                let _ = write!(out, "\\u{:04x}", c as u32);
            }
            c => out.push(c),
        }
    }
    out.push('"');
}

/// Shorten a string for display in samples / violation details (keeps both ends).
pub fn clip(s: &str, max: usize) -> String {
    let n = s.chars().count();
    if n <= max {
        return s.to_string();
    }
    let head: String = s.chars().take(max / 2).collect();
    let tail: String = s.chars().skip(n - max / 2).collect();
    format!("{}…[{} chars]…{}", head, n, tail)
}

pub fn clip_bytes(b: &[u8], max: usize) -> String {
    clip(&String::from_utf8_lossy(b), max)
}

struct Parser<'a> {
    b: &'a [u8],
    i: usize,
}

impl<'a> Parser<'a> {
    fn ws(&mut self) {
        while self.i < self.b.len() && (self.b[self.i] as char).is_ascii_whitespace() {
            self.i += 1;
        }
    }
    fn value(&mut self) -> Result<Json, String> {
        self.ws();
        if self.i >= self.b.len() {
            return Err("eof".into());
        }
        match self.b[self.i] {
            b'n' => self.lit("null", Json::Null),
            b't' => self.lit("true", Json::Bool(true)),
            b'f' => self.lit("false", Json::Bool(false)),
            b'"' => Ok(Json::Str(self.string()?)),
            b'[' => {
                self.i += 1;
                let mut v = Vec::new();
                loop {
                    self.ws();
                    if self.peek() == Some(b']') {
                        self.i += 1;
                        break;
                    }
                    v.push(self.value()?);
                    self.ws();
                    match self.peek() {
                        Some(b',') => self.i += 1,
                        Some(b']') => {
                            self.i += 1;
                            break;
                        }
                        _ => return Err(format!("bad array at {}", self.i)),
                    }
                }
                Ok(Json::Arr(v))
            }
            b'{' => {
                self.i += 1;
                let mut m = BTreeMap::new();
                loop {
                    self.ws();
                    if self.peek() == Some(b'}') {
                        self.i += 1;
                        break;
                    }
                    let k = self.string()?;
                    self.ws();
                    if self.peek() != Some(b':') {
                        return Err(format!("expected : at {}", self.i));
                    }
                    self.i += 1;
                    let v = self.value()?;
                    m.insert(k, v);
                    self.ws();
                    match self.peek() {
                        Some(b',') => self.i += 1,
                        Some(b'}') => {
                            self.i += 1;
                            break;
                        }
                        _ => return Err(format!("bad object at {}", self.i)),
                    }
                }
                Ok(Json::Obj(m))
            }
            _ => self.number(),
        }
    }
    fn peek(&self) -> Option<u8> {
        self.b.get(self.i).copied()
    }
    fn lit(&mut self, s: &str, v: Json) -> Result<Json, String> {
        if self.b[self.i..].starts_with(s.as_bytes()) {
            self.i += s.len();
            Ok(v)
        } else {
            Err(format!("bad literal at {}", self.i))
        }
    }
    fn number(&mut self) -> Result<Json, String> {
        let st = self.i;
        while self.i < self.b.len() && matches!(self.b[self.i], b'-' | b'+' | b'.' | b'e' | b'E' | b'0'..=b'9') {
            self.i += 1;
        }
        let t = std::str::from_utf8(&self.b[st..self.i]).map_err(|e| e.to_string())?;
        if let Ok(i) = t.parse::<i128>() {
            Ok(Json::Int(i))
        } else {
            t.parse::<f64>().map(Json::Float).map_err(|e| format!("{} at {}", e, st))
        }
    }
    fn string(&mut self) -> Result<String, String> {
        if self.peek() != Some(b'"') {
            return Err(format!("expected string at {}", self.i));
        }
        self.i += 1;
        let mut out: Vec<u8> = Vec::new();
        loop {
            let c = *self.b.get(self.i).ok_or("eof in string")?;
            self.i += 1;
            match c {
                b'"' => break,
                b'\\' => {
                    let e = *self.b.get(self.i).ok_or("eof in escape")?;
                    self.i += 1;
                    match e {
                        b'n' => out.push(b'\n'),
                        b'r' => out.push(b'\r'),
                        b't' => out.push(b'\t'),
                        b'b' => out.push(8),
                        b'f' => out.push(12),
                        b'u' => {
                            let h = std::str::from_utf8(&self.b[self.i..self.i + 4]).map_err(|e| e.to_string())?;
                            let cp = u32::from_str_radix(h, 16).map_err(|e| e.to_string())?;
                            self.i += 4;
                            let ch = char::from_u32(cp).unwrap_or('\u{fffd}');
                            let mut buf = [0u8; 4];
                            out.extend_from_slice(ch.encode_utf8(&mut buf).as_bytes());
                        }
                        other => out.push(other),
                    }
                }
                c => out.push(c),
            }
        }
        String::from_utf8(out).map_err(|e| e.to_string())
    }
}
