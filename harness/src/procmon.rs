//! Hook-free observation of library-spawned threads through /proc/self/task.
//!
//! The harness registers the kernel tid of every thread it creates itself; every other task of the
//! process is a thread spawned by the library under test (the queuing sink's worker). Two *logical*
//! facts are derived: "no library thread exists" and "every library thread is parked for good"
//! (state S and an unchanged voluntary-context-switch counter across many samples while nothing in the
//! harness could still wake it).

use std::collections::{BTreeMap, BTreeSet};
use std::sync::Mutex;
use std::time::{Duration, Instant};

static HARNESS_TIDS: Mutex<BTreeSet<u32>> = Mutex::new(BTreeSet::new());

pub fn gettid() -> u32 {
    let p = std::fs::read_link("/proc/thread-self").expect("/proc/thread-self");
    p.file_name().and_then(|s| s.to_str()).and_then(|s| s.parse().ok()).expect("tid")
}

/// Register the calling thread as a harness thread. Call first thing in every spawned harness thread
/// (and in main).
pub fn register_current() -> u32 {
    let t = gettid();
    HARNESS_TIDS.lock().unwrap().insert(t);
    t
}

/// RAII registration for spawned harness threads: the tid is removed again when the thread ends. Kernel tids are
/// reused quickly (pid_max is 32768 here and the drivers create tens of thousands of threads), so a stale entry
/// would make a later LIBRARY thread with the same tid look like a harness thread.
pub struct Registration {
    pub tid: u32,
}

impl Registration {
    pub fn new() -> Registration {
        Registration { tid: register_current() }
    }
}

impl Default for Registration {
    fn default() -> Self {
        Self::new()
    }
}

impl Drop for Registration {
    fn drop(&mut self) {
        unregister(self.tid);
    }
}

pub fn unregister(tid: u32) {
    HARNESS_TIDS.lock().unwrap().remove(&tid);
}

pub fn is_harness_tid(tid: u32) -> bool {
    HARNESS_TIDS.lock().unwrap().contains(&tid)
}

pub fn all_tids() -> Vec<u32> {
    let mut v = Vec::new();
    if let Ok(rd) = std::fs::read_dir("/proc/self/task") {
        for e in rd.flatten() {
            if let Some(t) = e.file_name().to_str().and_then(|s| s.parse().ok()) {
                v.push(t);
            }
        }
    }
    v
}

/// Tids of threads that were not created by the harness.
pub fn library_tids() -> Vec<u32> {
    let h = HARNESS_TIDS.lock().unwrap().clone();
    all_tids().into_iter().filter(|t| !h.contains(t)).collect()
}

/// Listings of /proc/self/task that found no library thread although one existed (seen by the confirmation scans).
pub static SCAN_GLITCHES: std::sync::atomic::AtomicU64 = std::sync::atomic::AtomicU64::new(0);

/// "No library thread exists" has to be stable: 40 further listings over at least 80 ms must all agree. (A thread that
/// is replaced by a successor exists, together with it, for a while; a listing that races with the hand-over can miss
/// both, consecutive listings cannot.)
pub fn confirm_no_library_thread(excluding: &BTreeSet<u32>) -> bool {
    for _ in 0..40 {
        std::thread::sleep(Duration::from_millis(2));
        if library_tids().into_iter().any(|t| !excluding.contains(&t)) {
            SCAN_GLITCHES.fetch_add(1, std::sync::atomic::Ordering::Relaxed);
            return false;
        }
    }
    true
}

/// Start time of a task (clock ticks since boot, field 22 of /proc/self/task/<tid>/stat): together with the tid it
/// identifies a thread even when the kernel reuses the tid later.
pub fn task_starttime(tid: u32) -> Option<u64> {
    let s = std::fs::read_to_string(format!("/proc/self/task/{}/stat", tid)).ok()?;
    // the command name (field 2) is in parentheses and may contain spaces: split after the last ')'
    let rest = &s[s.rfind(')')? + 1..];
    rest.split_whitespace().nth(19).and_then(|x| x.parse().ok())
}

/// CPU time (user + system, clock ticks of 10 ms) a task has consumed so far: fields 14 and 15 of its stat file.
pub fn task_cpu_ticks(tid: u32) -> Option<u64> {
    let s = std::fs::read_to_string(format!("/proc/self/task/{}/stat", tid)).ok()?;
    let rest = &s[s.rfind(')')? + 1..];
    let mut it = rest.split_whitespace();
    let ut: u64 = it.nth(11)?.parse().ok()?;
    let st: u64 = it.next()?.parse().ok()?;
    Some(ut + st)
}

#[derive(Clone, Debug, PartialEq, Eq)]
pub struct TaskStatus {
    pub state: char,
    pub voluntary: u64,
    pub nonvoluntary: u64,
}

pub fn task_status(tid: u32) -> Option<TaskStatus> {
    let s = std::fs::read_to_string(format!("/proc/self/task/{}/status", tid)).ok()?;
    let mut state = '?';
    let mut vol = 0;
    let mut nonvol = 0;
    for line in s.lines() {
        if let Some(r) = line.strip_prefix("State:") {
            state = r.trim().chars().next().unwrap_or('?');
        } else if let Some(r) = line.strip_prefix("voluntary_ctxt_switches:") {
            vol = r.trim().parse().unwrap_or(0);
        } else if let Some(r) = line.strip_prefix("nonvoluntary_ctxt_switches:") {
            nonvol = r.trim().parse().unwrap_or(0);
        }
    }
    Some(TaskStatus { state, voluntary: vol, nonvoluntary: nonvol })
}

#[derive(Clone, Debug, PartialEq, Eq)]
pub enum Quiescence {
    /// No library thread exists.
    NoLibraryThread,
    /// Every library thread was seen in state S with unchanged context-switch counters over the whole window.
    ParkedForGood { tids: Vec<u32>, samples: u32, span_ms: u64 },
    /// Still making progress (or could be) when the budget ran out.
    Active,
    /// A library thread has consumed this much CPU time while nothing it is supposed to do happened (no event of the
    /// wrapped sink, the handler or the hooks was logged meanwhile): it spins.
    Spinning { tid: u32, cpu_ms: u64 },
}

/// Watches the library threads until `done()` returns true (returns `None`), or until one of the two
/// logical verdicts is reached, or the watchdog expires (`Active`).
///
/// `parked` needs `min_samples` consecutive samples spanning at least `min_span` in which every library
/// thread is in state S and its voluntary context switch counter did not move. A thread that has work to
/// do is runnable (R) or accumulates switches however loaded the machine is: wake-ups are issued by the
/// sender before `emit`/`drop` return.
pub fn watch(mut done: impl FnMut() -> bool, min_samples: u32, min_span: Duration, watchdog: Duration) -> Option<Quiescence> {
    let start = Instant::now();
    let mut last: BTreeMap<u32, TaskStatus> = BTreeMap::new();
    let mut stable_since = Instant::now();
    let mut stable_samples = 0u32;
    loop {
        if done() {
            return None;
        }
        let tids = library_tids();
        if tids.is_empty() {
            // re-check done() once: the last thread may have delivered and exited between the two reads
            if done() {
                return None;
            }
            if !confirm_no_library_thread(&BTreeSet::new()) {
                continue;
            }
            if done() {
                return None;
            }
            return Some(Quiescence::NoLibraryThread);
        }
        let mut cur = BTreeMap::new();
        let mut all_sleeping = true;
        for t in &tids {
            match task_status(*t) {
                Some(st) => {
                    if st.state != 'S' {
                        all_sleeping = false;
                    }
                    cur.insert(*t, st);
                }
                None => {
                    all_sleeping = false; // vanished between listing and reading: progress
                }
            }
        }
        if all_sleeping && cur == last {
            stable_samples += 1;
        } else {
            stable_samples = 0;
            stable_since = Instant::now();
            last = cur;
        }
        if stable_samples >= min_samples && stable_since.elapsed() >= min_span {
            if done() {
                return None;
            }
            return Some(Quiescence::ParkedForGood {
                tids,
                samples: stable_samples,
                span_ms: stable_since.elapsed().as_millis() as u64,
            });
        }
        if start.elapsed() > watchdog {
            return Some(Quiescence::Active);
        }
        std::thread::sleep(Duration::from_millis(if stable_samples < 3 { 1 } else { 10 }));
    }
}
