//! `--key value` / `--flag` argument parsing for the drivers.

use std::collections::BTreeMap;

#[derive(Clone, Debug, Default)]
pub struct Args {
    map: BTreeMap<String, String>,
}

impl Args {
    pub fn from_env() -> Args {
        let a = Self::from_vec(std::env::args().skip(1).collect());
        // --unwinding-every N: every N-th guarded call of each thread is made from a destructor during unwinding
        if let Some(n) = a.get("unwinding-every").and_then(|s| s.parse::<u32>().ok()) {
            crate::panics::set_unwind_every(n);
        }
        a
    }

    pub fn from_vec(v: Vec<String>) -> Args {
        let mut map = BTreeMap::new();
        let mut i = 0;
        while i < v.len() {
            let a = &v[i];
            if let Some(k) = a.strip_prefix("--") {
                if let Some((k, val)) = k.split_once('=') {
                    map.insert(k.to_string(), val.to_string());
                    i += 1;
                } else if i + 1 < v.len() && !v[i + 1].starts_with("--") {
                    map.insert(k.to_string(), v[i + 1].clone());
                    i += 2;
                } else {
                    map.insert(k.to_string(), "true".to_string());
                    i += 1;
                }
            } else {
                // (ignored silently: standard error may be unwritable on purpose)
                let _ = a;
                i += 1;
            }
        }
        Args { map }
    }

    pub fn get(&self, k: &str) -> Option<&str> {
        self.map.get(k).map(|s| s.as_str())
    }

    pub fn str(&self, k: &str, default: &str) -> String {
        self.get(k).unwrap_or(default).to_string()
    }

    pub fn u64(&self, k: &str, default: u64) -> u64 {
        self.get(k).map(|s| s.parse().unwrap_or_else(|_| panic!("--{} expects an integer, got {:?}", k, s))).unwrap_or(default)
    }

    pub fn usize(&self, k: &str, default: usize) -> usize {
        self.u64(k, default as u64) as usize
    }

    pub fn flag(&self, k: &str) -> bool {
        matches!(self.get(k), Some("true") | Some("1") | Some("yes"))
    }

    pub fn has(&self, k: &str) -> bool {
        self.map.contains_key(k)
    }

    /// All arguments as a flat vector (for replay command lines), with some keys overridden.
    pub fn to_vec_with(&self, overrides: &[(&str, String)]) -> Vec<String> {
        let mut m = self.map.clone();
        for (k, v) in overrides {
            m.insert(k.to_string(), v.clone());
        }
        let mut out = Vec::new();
        for (k, v) in m {
            out.push(format!("--{}", k));
            out.push(v);
        }
        out
    }
}
