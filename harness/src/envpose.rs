// getenv interposer - `include!`d into driver binaries. Defining `getenv` in the executable binds std's
// `std::env::var` / `var_os` (which call libc's getenv) to this definition. In hostile mode EVERY variable the
// process asks for - whatever its name - is reported as set (to a value picked by the mode), except the ones the Rust
// runtime and libc themselves consult; the names asked for are recorded. A library whose output is a function of its
// arguments never asks, so nothing changes for it; one that starts to consult the environment (an entity id, a host, a
// "disable" switch ...) gets an answer and shows it. With hostile mode off the real environment is passed through.

use std::ffi::{c_char, CStr};
use std::sync::atomic::{AtomicU32, Ordering};
use std::sync::Mutex;

/// 0 = off; 1 = a delimiter-laden string; 2 = "1"; 3 = "true"; 4 = "8125"; 5 = "0"
pub static HOSTILE_MODE: AtomicU32 = AtomicU32::new(0);
pub static QUERIED: Mutex<Vec<String>> = Mutex::new(Vec::new());

extern "C" {
    static environ: *const *const c_char;
}

const ALLOWED_PREFIXES: [&[u8]; 16] = [b"RUST", b"CARGO", b"TMPDIR", b"HOME", b"PATH", b"LANG", b"LC_", b"TZ", b"MALLOC", b"GLIBC", b"LD_", b"CVH", b"VERIF", b"TERM", b"NO_COLOR", b"USER"];

unsafe fn real_lookup(name: &[u8]) -> *mut c_char {
    if environ.is_null() {
        return std::ptr::null_mut();
    }
    let mut p = environ;
    while !(*p).is_null() {
        let entry = CStr::from_ptr(*p).to_bytes();
        if entry.len() > name.len() && &entry[..name.len()] == name && entry[name.len()] == b'=' {
            return (*p).add(name.len() + 1) as *mut c_char;
        }
        p = p.add(1);
    }
    std::ptr::null_mut()
}

/// # Safety
/// C ABI of getenv(3).
#[no_mangle]
pub unsafe extern "C" fn getenv(name: *const c_char) -> *mut c_char {
    if name.is_null() {
        return std::ptr::null_mut();
    }
    let n = CStr::from_ptr(name).to_bytes();
    let real = real_lookup(n);
    let mode = HOSTILE_MODE.load(Ordering::Relaxed);
    if mode == 0 || ALLOWED_PREFIXES.iter().any(|p| n.starts_with(p)) {
        return real;
    }
    if let Ok(mut q) = QUERIED.try_lock() {
        let s = String::from_utf8_lossy(n).to_string();
        if !q.contains(&s) && q.len() < 64 {
            q.push(s);
        }
    }
    let v: &'static [u8] = match mode {
        1 => b"cvh-env-\xc3\xa9,a:b|c#d@e\0",
        2 => b"1\0",
        3 => b"true\0",
        4 => b"8125\0",
        _ => b"0\0",
    };
    v.as_ptr() as *mut c_char
}

/// Names asked for so far (outside the runtime's own).
pub fn queried() -> Vec<String> {
    QUERIED.lock().map(|q| q.clone()).unwrap_or_default()
}
