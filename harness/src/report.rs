//! Per-run report written by every driver: what was executed, what was observed, what was violated.
//! The python orchestrator merges the reports of all shards into evidence/<id>.json.

use crate::json::Json;
use crate::rng::hash_str;
use std::collections::{BTreeMap, HashSet};
use std::time::Instant;

#[derive(Clone, Debug)]
pub struct Violation {
    pub property: String,
    /// Which oracle rule fired (e.g. "F1", "R2", "parse-back").
    pub rule: String,
    /// Scenario class computed from the failing trace; used to match KNOWN_FINDINGS entries exactly.
    pub class: String,
    pub detail: String,
    /// Arguments that make the same driver re-execute exactly this case.
    pub replay_args: Vec<String>,
    /// The failing input / history / trace.
    pub trace: Json,
}

pub struct Report {
    pub driver: String,
    pub property: String,
    pub evaluations: u64,
    distinct: HashSet<u64>,
    /// finer-grained distinct observations (e.g. interleaving windows inside a history); reported separately so that
    /// distinct_nontrivial stays a count of distinct evaluated cases
    fine: HashSet<u64>,
    pub fine_name: String,
    pub trivial: u64,
    pub samples: Vec<Json>,
    sample_cap: usize,
    pub violations: Vec<Violation>,
    pub violation_count: u64,
    pub obs: BTreeMap<String, u64>,
    pub notes: Vec<String>,
    pub inconclusive: Vec<String>,
    pub exhaustive: Option<bool>,
    pub extra: BTreeMap<String, Json>,
    start: Instant,
}

pub const MAX_DISTINCT_LISTED: usize = 400_000;

impl Report {
    pub fn new(driver: &str, property: &str) -> Report {
        Report {
            driver: driver.to_string(),
            property: property.to_string(),
            evaluations: 0,
            distinct: HashSet::new(),
            fine: HashSet::new(),
            fine_name: String::new(),
            trivial: 0,
            samples: Vec::new(),
            sample_cap: 6,
            violations: Vec::new(),
            violation_count: 0,
            obs: BTreeMap::new(),
            notes: Vec::new(),
            inconclusive: Vec::new(),
            exhaustive: None,
            extra: BTreeMap::new(),
            start: Instant::now(),
        }
    }

    pub fn eval(&mut self) {
        self.evaluations += 1;
    }

    pub fn evals(&mut self, n: u64) {
        self.evaluations += n;
    }

    /// Record the signature of a non-trivial case. Returns true if it was new.
    pub fn distinct(&mut self, sig: &str) -> bool {
        self.distinct.insert(hash_str(sig))
    }

    /// Record a fine-grained observation (window / trigram) under `fine_name`.
    pub fn fine(&mut self, name: &str, sig: &str) {
        if self.fine_name.is_empty() {
            self.fine_name = name.to_string();
        }
        self.fine.insert(hash_str(sig));
    }

    /// One signature for a whole case made of many windows: the hash of the sorted set of window signatures.
    pub fn distinct_set(&mut self, prefix: &str, windows: &mut Vec<String>) -> bool {
        windows.sort();
        windows.dedup();
        let mut h = hash_str(prefix);
        for w in windows.iter() {
            h = crate::rng::mix(&[h, hash_str(w)]);
        }
        self.distinct.insert(h)
    }

    pub fn distinct_hash(&mut self, h: u64) -> bool {
        self.distinct.insert(h)
    }

    pub fn distinct_count(&self) -> usize {
        self.distinct.len()
    }

    pub fn trivial(&mut self) {
        self.trivial += 1;
    }

    pub fn obs(&mut self, name: &str, n: u64) {
        *self.obs.entry(name.to_string()).or_insert(0) += n;
    }

    pub fn obs_max(&mut self, name: &str, n: u64) {
        let e = self.obs.entry(name.to_string()).or_insert(0);
        if n > *e {
            *e = n;
        }
    }

    /// Keep a handful of real cases: the first few, then replace pseudo-randomly so that late cases show too.
    pub fn sample(&mut self, j: impl FnOnce() -> Json) {
        if self.samples.len() < self.sample_cap {
            self.samples.push(j());
        } else if self.evaluations % 9973 == 0 {
            let idx = (self.evaluations / 9973) as usize % self.sample_cap;
            self.samples[idx] = j();
        }
    }

    pub fn want_sample(&self) -> bool {
        self.samples.len() < self.sample_cap || self.evaluations % 9973 == 0
    }

    pub fn violation(&mut self, v: Violation) {
        self.violation_count += 1;
        if self.violations.len() < 12 {
            self.violations.push(v);
        }
    }

    pub fn inconclusive(&mut self, why: impl Into<String>) {
        let w = why.into();
        if self.inconclusive.len() < 20 {
            self.inconclusive.push(w);
        }
    }

    pub fn note(&mut self, n: impl Into<String>) {
        let n = n.into();
        if self.notes.len() < 50 && !self.notes.contains(&n) {
            self.notes.push(n);
        }
    }

    pub fn to_json(&self) -> Json {
        let mut o = Json::obj();
        o.set("driver", self.driver.as_str());
        o.set("property", self.property.as_str());
        o.set("evaluations", self.evaluations);
        o.set("distinct_count", self.distinct.len());
        if self.distinct.len() <= MAX_DISTINCT_LISTED {
            let mut v: Vec<u64> = self.distinct.iter().copied().collect();
            v.sort_unstable();
            o.set("distinct", Json::Arr(v.into_iter().map(|h| Json::Str(format!("{:x}", h))).collect()));
        } else {
            o.set("distinct", Json::Null);
        }
        if !self.fine.is_empty() && self.fine.len() <= MAX_DISTINCT_LISTED {
            let mut v: Vec<u64> = self.fine.iter().copied().collect();
            v.sort_unstable();
            o.set("fine", Json::Arr(v.into_iter().map(|h| Json::Str(format!("{:x}", h))).collect()));
            o.set("fine_name", self.fine_name.as_str());
        }
        o.set("trivial", self.trivial);
        o.set("samples", Json::Arr(self.samples.clone()));
        o.set("violation_count", self.violation_count);
        o.set(
            "violations",
            Json::Arr(
                self.violations
                    .iter()
                    .map(|v| {
                        let mut j = Json::obj();
                        j.set("property", v.property.as_str());
                        j.set("rule", v.rule.as_str());
                        j.set("class", v.class.as_str());
                        j.set("detail", v.detail.as_str());
                        j.set("replay_args", v.replay_args.clone());
                        j.set("trace", v.trace.clone());
                        j
                    })
                    .collect(),
            ),
        );
        let mut obs = Json::obj();
        for (k, v) in &self.obs {
            obs.set(k, *v);
        }
        if crate::panics::unwound_calls() > 0 {
            obs.set("guarded_calls_made_from_a_destructor_while_the_thread_unwinds", crate::panics::unwound_calls());
        }
        o.set("obs", obs);
        o.set("notes", self.notes.clone());
        o.set("inconclusive", self.inconclusive.clone());
        if let Some(e) = self.exhaustive {
            o.set("exhaustive", e);
        }
        for (k, v) in &self.extra {
            o.set(k, v.clone());
        }
        o.set("wall_s", self.start.elapsed().as_secs_f64());
        o
    }

    /// Write the report to `--out` (or stdout) and return the process exit code: 0 held, 1 violated,
    /// 3 inconclusive (nothing observed, watchdog, harness problem).
    pub fn finish(&self, out: Option<&str>) -> i32 {
        let text = self.to_json().to_string();
        match out {
            Some(p) => {
                if let Err(e) = std::fs::write(p, &text) {
                    eprintln!("cannot write report {}: {}", p, e);
                    return 3;
                }
            }
            None => println!("{}", text),
        }
        if self.violation_count > 0 {
            1
        } else if !self.inconclusive.is_empty() || self.evaluations == 0 {
            3
        } else {
            0
        }
    }
}
