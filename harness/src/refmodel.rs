//! Reference model of the DogStatsD line format, written independently of cadence:
//! a formatter `R` (expected text from the supplied pieces), a tolerant matcher (float fields may use
//! any plain decimal numeral that parses back bit-identically) and a parser `P` for lines whose strings
//! contain no delimiter.

use std::time::Duration;

#[derive(Clone, Copy, Debug, PartialEq, Eq, Hash, PartialOrd, Ord)]
pub enum Kind {
    Counter,
    Timer,
    Gauge,
    Meter,
    Histogram,
    Distribution,
    Set,
}

pub const ALL_KINDS: [Kind; 7] = [Kind::Counter, Kind::Timer, Kind::Gauge, Kind::Meter, Kind::Histogram, Kind::Distribution, Kind::Set];

impl Kind {
    /// Wire code, from the statsd / DogStatsD specification.
    pub fn code(self) -> &'static str {
        match self {
            Kind::Counter => "c",
            Kind::Timer => "ms",
            Kind::Gauge => "g",
            Kind::Meter => "m",
            Kind::Histogram => "h",
            Kind::Distribution => "d",
            Kind::Set => "s",
        }
    }
    pub fn name(self) -> &'static str {
        match self {
            Kind::Counter => "count",
            Kind::Timer => "time",
            Kind::Gauge => "gauge",
            Kind::Meter => "meter",
            Kind::Histogram => "histogram",
            Kind::Distribution => "distribution",
            Kind::Set => "set",
        }
    }
}

/// A value as it must appear on the wire.
#[derive(Clone, Copy, Debug)]
pub enum Num {
    I(i64),
    U(u64),
    F(f64),
}

impl PartialEq for Num {
    fn eq(&self, o: &Num) -> bool {
        match (self, o) {
            (Num::I(a), Num::I(b)) => a == b,
            (Num::U(a), Num::U(b)) => a == b,
            (Num::F(a), Num::F(b)) => a.to_bits() == b.to_bits(),
            _ => false,
        }
    }
}

pub type Tag = (Option<String>, String);

#[derive(Clone, Debug, PartialEq)]
pub struct Expect {
    pub name: String,
    pub values: Vec<Num>,
    pub kind: Kind,
    pub rate: Option<f64>,
    pub tags: Vec<Tag>,
    pub container: Option<String>,
    pub timestamp: Option<u64>,
}

/// name = key for an empty prefix, else prefix with trailing dots removed + "." + key.
pub fn ref_name(prefix_raw: &str, key: &str) -> String {
    if prefix_raw.is_empty() {
        return key.to_string();
    }
    let mut p: &str = prefix_raw;
    while let Some(s) = p.strip_suffix('.') {
        p = s;
    }
    let mut out = String::with_capacity(p.len() + 1 + key.len());
    out.push_str(p);
    out.push('.');
    out.push_str(key);
    out
}

/// Independent decimal rendering (does not use `Display` of integers).
pub fn dec_u64(mut v: u64) -> String {
    if v == 0 {
        return "0".to_string();
    }
    let mut digits = [0u8; 20];
    let mut n = 0;
    while v > 0 {
        digits[n] = b'0' + (v % 10) as u8;
        v /= 10;
        n += 1;
    }
    let mut s = String::with_capacity(n);
    for i in (0..n).rev() {
        s.push(digits[i] as char);
    }
    s
}

pub fn dec_i64(v: i64) -> String {
    if v < 0 {
        // unsigned_abs handles i64::MIN
        format!("-{}", dec_u64(v.unsigned_abs()))
    } else {
        dec_u64(v as u64)
    }
}

#[derive(Clone, Debug)]
enum Seg {
    Lit(String),
    Float(f64),
}

fn segments(e: &Expect) -> Vec<Seg> {
    let mut segs: Vec<Seg> = Vec::new();
    let mut cur = String::new();
    cur.push_str(&e.name);
    cur.push(':');
    for (i, v) in e.values.iter().enumerate() {
        if i > 0 {
            cur.push(':');
        }
        match v {
            Num::I(x) => cur.push_str(&dec_i64(*x)),
            Num::U(x) => cur.push_str(&dec_u64(*x)),
            Num::F(f) => {
                segs.push(Seg::Lit(std::mem::take(&mut cur)));
                segs.push(Seg::Float(*f));
            }
        }
    }
    cur.push('|');
    cur.push_str(e.kind.code());
    if let Some(r) = e.rate {
        cur.push_str("|@");
        segs.push(Seg::Lit(std::mem::take(&mut cur)));
        segs.push(Seg::Float(r));
    }
    if !e.tags.is_empty() {
        cur.push_str("|#");
        for (i, (k, v)) in e.tags.iter().enumerate() {
            if i > 0 {
                cur.push(',');
            }
            if let Some(k) = k {
                cur.push_str(k);
                cur.push(':');
            }
            cur.push_str(v);
        }
    }
    if let Some(c) = &e.container {
        cur.push_str("|c:");
        cur.push_str(c);
    }
    if let Some(t) = e.timestamp {
        cur.push_str("|T");
        cur.push_str(&dec_u64(t));
    }
    if !cur.is_empty() {
        segs.push(Seg::Lit(cur));
    }
    segs
}

/// The reference line with floats rendered by Rust's shortest round-trip `Display` (for messages and
/// as the fast path of `matches_line`).
pub fn ref_line(e: &Expect) -> String {
    let mut out = String::new();
    for s in segments(e) {
        match s {
            Seg::Lit(l) => out.push_str(&l),
            Seg::Float(f) => out.push_str(&format!("{}", f)),
        }
    }
    out
}

/// `-?digits[.digits]`
pub fn is_plain_decimal(s: &str) -> bool {
    let b = s.as_bytes();
    let mut i = 0;
    if i < b.len() && b[i] == b'-' {
        i += 1;
    }
    let st = i;
    while i < b.len() && b[i].is_ascii_digit() {
        i += 1;
    }
    if i == st {
        return false;
    }
    if i == b.len() {
        return true;
    }
    if b[i] != b'.' {
        return false;
    }
    i += 1;
    let st2 = i;
    while i < b.len() && b[i].is_ascii_digit() {
        i += 1;
    }
    i > st2 && i == b.len()
}

/// Does the text denote exactly this float? Finite: plain decimal numeral parsing back bit-identically.
/// Non-finite values have no decimal numeral; any text that parses back to the same non-finite value is accepted
/// (C02 only speaks about finite values, C20 only requires that nothing panics).
pub fn float_field_ok(text: &str, f: f64) -> Result<(), String> {
    if f.is_finite() {
        if !is_plain_decimal(text) {
            return Err(format!("float field {:?} is not a plain decimal numeral (value {:e})", text, f));
        }
        match text.parse::<f64>() {
            Ok(p) if p.to_bits() == f.to_bits() => Ok(()),
            Ok(p) => Err(format!("float field {:?} parses to {:e} (bits {:#x}), supplied {:e} (bits {:#x})", text, p, p.to_bits(), f, f.to_bits())),
            Err(e) => Err(format!("float field {:?} does not parse: {}", text, e)),
        }
    } else {
        match text.parse::<f64>() {
            Ok(p) if (p.is_nan() && f.is_nan()) || p == f => Ok(()),
            _ => Err(format!("non-finite float field {:?} does not denote {:?}", text, f)),
        }
    }
}

/// Only the value field of the line is judged (C02's business when the rest of the line belongs to other properties):
/// `None` if the name part in front of it is not the reference name (then the field cannot be located reliably and
/// whoever owns the name part reports it).
pub fn value_field_matches(e: &Expect, emitted: &str) -> Option<Result<(), String>> {
    let head = format!("{}:", e.name);
    let rest = emitted.strip_prefix(head.as_str())?;
    let field = &rest[..rest.find('|')?];
    let parts: Vec<&str> = field.split(':').collect();
    if parts.len() != e.values.len() {
        return Some(Err(format!("value field {:?} has {} element(s), {} supplied", crate::json::clip(field, 120), parts.len(), e.values.len())));
    }
    for (t, v) in parts.iter().zip(e.values.iter()) {
        let r = match v {
            Num::I(x) => if *t == dec_i64(*x) { Ok(()) } else { Err(format!("value {:?} is not the numeral of {}", t, x)) },
            Num::U(x) => if *t == dec_u64(*x) { Ok(()) } else { Err(format!("value {:?} is not the numeral of {}", t, x)) },
            Num::F(f) => float_field_ok(t, *f),
        };
        if r.is_err() {
            return Some(r);
        }
    }
    Some(Ok(()))
}

/// Emitted text must be the reference line byte for byte, except that a float field may be any
/// numeral accepted by `float_field_ok`.
pub fn matches_line(e: &Expect, emitted: &str) -> Result<(), String> {
    let segs = segments(e);
    let mut rest = emitted;
    for (i, s) in segs.iter().enumerate() {
        match s {
            Seg::Lit(l) => {
                if let Some(r) = rest.strip_prefix(l.as_str()) {
                    rest = r;
                } else {
                    let common = rest.bytes().zip(l.bytes()).take_while(|(a, b)| a == b).count();
                    return Err(format!(
                        "text differs from reference at byte {}: expected {:?}",
                        emitted.len() - rest.len() + common,
                        crate::json::clip(&ref_line(e), 300)
                    ));
                }
            }
            Seg::Float(f) => {
                // the field ends where the next literal begins (':' or '|') or at the end of the line
                let end = if i + 1 < segs.len() { rest.find(|c| c == ':' || c == '|').unwrap_or(rest.len()) } else { rest.len() };
                float_field_ok(&rest[..end], *f)?;
                rest = &rest[end..];
            }
        }
    }
    if !rest.is_empty() {
        return Err(format!("trailing text {:?} after the reference line", crate::json::clip(rest, 80)));
    }
    Ok(())
}

#[derive(Clone, Debug, PartialEq)]
pub struct Parsed {
    pub name: String,
    pub values: Vec<String>,
    pub code: String,
    pub rate: Option<String>,
    pub tags: Option<Vec<Tag>>,
    pub container: Option<String>,
    pub timestamp: Option<String>,
}

/// Independent parser of `<name>:<v1>[:<v2>...]|<type>[|@<rate>][|#<tag>,...][|c:<container>][|T<timestamp>]`.
/// Sound for lines whose name, tags and container contain none of `: | # , @ \n`.
pub fn parse_line(line: &str) -> Result<Parsed, String> {
    let parts: Vec<&str> = line.split('|').collect();
    if parts.len() < 2 {
        return Err("no '|' separating value and type".into());
    }
    let (name, vals) = parts[0].split_once(':').ok_or("no ':' separating name and value")?;
    let values: Vec<String> = vals.split(':').map(|s| s.to_string()).collect();
    if values.iter().any(|v| v.is_empty()) {
        return Err(format!("empty value field in {:?}", parts[0]));
    }
    let code = parts[1].to_string();
    if !["c", "ms", "g", "m", "h", "d", "s"].contains(&code.as_str()) {
        return Err(format!("unknown type code {:?}", code));
    }
    let mut p = Parsed { name: name.to_string(), values, code, rate: None, tags: None, container: None, timestamp: None };
    // sections must come in this order, each at most once
    let mut stage = 0;
    for sec in &parts[2..] {
        if let Some(r) = sec.strip_prefix('@') {
            if stage > 0 {
                return Err(format!("sampling rate section {:?} out of order", sec));
            }
            stage = 1;
            p.rate = Some(r.to_string());
        } else if let Some(t) = sec.strip_prefix('#') {
            if stage > 1 {
                return Err(format!("tag section {:?} out of order", sec));
            }
            stage = 2;
            let mut tags = Vec::new();
            for item in t.split(',') {
                match item.split_once(':') {
                    Some((k, v)) => tags.push((Some(k.to_string()), v.to_string())),
                    None => tags.push((None, item.to_string())),
                }
            }
            p.tags = Some(tags);
        } else if let Some(c) = sec.strip_prefix("c:") {
            if stage > 2 {
                return Err(format!("container section {:?} out of order", sec));
            }
            stage = 3;
            p.container = Some(c.to_string());
        } else if let Some(t) = sec.strip_prefix('T') {
            if stage > 3 {
                return Err(format!("timestamp section {:?} out of order", sec));
            }
            stage = 4;
            p.timestamp = Some(t.to_string());
        } else {
            return Err(format!("unrecognised section {:?}", sec));
        }
    }
    Ok(p)
}

/// Compare a parsed line with what was supplied (parse-back rule of C01).
pub fn parsed_equals(p: &Parsed, e: &Expect) -> Result<(), String> {
    if p.name != e.name {
        return Err(format!("name {:?} != supplied {:?}", p.name, e.name));
    }
    if p.code != e.kind.code() {
        return Err(format!("type code {:?} != {:?}", p.code, e.kind.code()));
    }
    if p.values.len() != e.values.len() {
        return Err(format!("{} values on the wire, {} supplied", p.values.len(), e.values.len()));
    }
    for (i, (t, v)) in p.values.iter().zip(e.values.iter()).enumerate() {
        let ok = match v {
            Num::I(x) => *t == dec_i64(*x),
            Num::U(x) => *t == dec_u64(*x),
            Num::F(f) => float_field_ok(t, *f).is_ok(),
        };
        if !ok {
            return Err(format!("value #{} is {:?}, supplied {:?}", i, t, v));
        }
    }
    match (&p.rate, e.rate) {
        (None, None) => {}
        (Some(t), Some(r)) => float_field_ok(t, r)?,
        (a, b) => return Err(format!("sampling rate section {:?} vs supplied {:?}", a, b)),
    }
    let exp_tags = if e.tags.is_empty() { None } else { Some(e.tags.clone()) };
    if p.tags != exp_tags {
        return Err(format!("tags {:?} != supplied {:?}", p.tags, exp_tags));
    }
    if p.container != e.container {
        return Err(format!("container {:?} != supplied {:?}", p.container, e.container));
    }
    let exp_ts = e.timestamp.map(dec_u64);
    if p.timestamp != exp_ts {
        return Err(format!("timestamp {:?} != supplied {:?}", p.timestamp, exp_ts));
    }
    Ok(())
}

pub fn is_clean(s: &str) -> bool {
    !s.chars().any(|c| matches!(c, ':' | '|' | '#' | ',' | '@' | '\n'))
}

pub fn expect_is_clean(e: &Expect) -> bool {
    is_clean(&e.name)
        && e.tags.iter().all(|(k, v)| k.as_deref().map(is_clean).unwrap_or(true) && is_clean(v))
        && e.container.as_deref().map(is_clean).unwrap_or(true)
        // a bare tag value "c:..." cannot occur (clean), but a *name* is never confused with a section
}

/// Whole milliseconds (rounded down) of a Duration, computed with u128 arithmetic from its parts
/// (never with `as_millis`). None if it does not fit in 64 bits.
pub fn duration_ms(d: Duration) -> Option<u64> {
    let v = d.as_secs() as u128 * 1000 + (d.subsec_nanos() / 1_000_000) as u128;
    if v > u64::MAX as u128 {
        None
    } else {
        Some(v as u64)
    }
}

/// Whole nanoseconds of a Duration. None if it does not fit in 64 bits.
pub fn duration_ns(d: Duration) -> Option<u64> {
    let v = d.as_secs() as u128 * 1_000_000_000 + d.subsec_nanos() as u128;
    if v > u64::MAX as u128 {
        None
    } else {
        Some(v as u64)
    }
}

#[cfg(test)]
mod tests {
    use super::*;

    #[test]
    fn parser_inverts_formatter() {
        let e = Expect {
            name: "a.b".into(),
            values: vec![Num::U(1), Num::F(0.5), Num::I(-3)],
            kind: Kind::Histogram,
            rate: Some(0.25),
            tags: vec![(Some("k".into()), "v".into()), (None, "bare".into())],
            container: Some("cid".into()),
            timestamp: Some(17),
        };
        let l = ref_line(&e);
        assert_eq!(l, "a.b:1:0.5:-3|h|@0.25|#k:v,bare|c:cid|T17");
        assert!(matches_line(&e, &l).is_ok());
        assert!(parsed_equals(&parse_line(&l).unwrap(), &e).is_ok());
        assert!(matches_line(&e, "a.b:1:0.50:-3|h|@0.25|#k:v,bare|c:cid|T17").is_ok());
        assert!(matches_line(&e, "a.b:1:5e-1:-3|h|@0.25|#k:v,bare|c:cid|T17").is_err());
        assert_eq!(dec_i64(i64::MIN), i64::MIN.to_string());
        assert_eq!(dec_u64(u64::MAX), u64::MAX.to_string());
    }
}
