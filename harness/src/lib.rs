//! Common machinery of the cadence runtime-monitoring harness: seeded PRNG, tiny JSON writer,
//! per-run report (coverage counters, samples, violations), argument parsing, panic capture,
//! /proc thread monitor, reference formatter/parser and the framing model.
//!
//! Nothing in here calls into cadence except where a module says so explicitly: the reference
//! models are written independently of the library on purpose.

pub mod args;
pub mod callengine;
pub mod frame;
pub mod fuzz;
pub mod json;
pub mod panics;
pub mod procmon;
pub mod qmon;
pub mod refmodel;
pub mod report;
pub mod rng;
pub mod strgen;
pub mod valgen;

pub use args::Args;
pub use json::Json;
pub use report::{Report, Violation};
pub use rng::Rng;
