//! libFuzzer target: the input bytes drive the case generator of hostile_driver (Rng::from_bytes); the driver's own
//! oracles judge every execution. See harness/src/fuzz.rs.
#![no_main]
use libfuzzer_sys::fuzz_target;

#[allow(dead_code)]
#[path = "../../harness/src/bin/hostile_driver.rs"]
mod drv;

fuzz_target!(|data: &[u8]| {
    drv::fuzz_one(data);
});
