"""Static texts for MANIFEST.json (techniques, engines). Imported by gen_manifest.py."""

RM = "runtime monitoring: "
TECHNIQUE = {
    "C01": RM + "reference-formatter + independent-parser monitor over randomized calls through every entry point and call form; thorough adds a coverage-guided session (libFuzzer picks the bytes that drive the same generator, the same monitor judges every execution)",
    "C02": RM + "reference-numeral monitor (independent decimal rendering, float round-trip, u128 duration arithmetic) over boundary/random values; exhaustive 32-bit sweeps in thorough; thorough adds a coverage-guided session (libFuzzer picks the bytes that drive the same generator, the same monitor judges every execution)",
    "C03": RM + "fault injection at a scripted sink, all accept/refuse sequences enumerated; per-call oracle over sink log / handler log / result; thorough adds a coverage-guided session (libFuzzer picks the bytes that drive the same generator, the same monitor judges every execution)",
    "C04": RM + "decoration monitor (tag + container sections vs configured defaults ++ per-call) over random client configurations; thorough adds a coverage-guided session (libFuzzer picks the bytes that drive the same generator, the same monitor judges every execution)",
    "C05": RM + "model-based trace checker (pending-lines model, rule F1) over small-scope-enumerated and random histories of the real writer, spy sink and real sockets (interposed sendto); thorough adds a coverage-guided session (libFuzzer picks the bytes that drive the same generator, the same monitor judges every execution)",
    "C06": RM + "model-based trace checker (rule F2: conservation, order, flush/drop) over enumerated and random histories incl. flush delegation through client and queuing sink; thorough adds a coverage-guided session (libFuzzer picks the bytes that drive the same generator, the same monitor judges every execution)",
    "C07": RM + "fault injection: every ok/fail/interrupted assignment to the underlying write attempts (DFS), random failure bursts, full spy channel, scripted errno / kernel EAGAIN at an interposed sendto; model-based trace checker (rules F1-F3); thorough adds a coverage-guided session (libFuzzer picks the bytes that drive the same generator, the same monitor judges every execution)",
    "C08": RM + "offline history checker (exactly-once, FIFO, real-time order, one-at-a-time) over enumerated sequential and sampled concurrent histories with a gated wrapped sink; bounded progress decided from /proc thread state",
    "C09": RM + "drop matrix (every occupancy at last drop) + forced stop windows via schedule hooks; release of the wrapped sink and thread termination observed via Drop event and /proc",
    "C10": RM + "exact capacity oracle with the worker parked inside a gated sink, blocked-call watchdog on the caller's /proc state, tolerant bounds under concurrency",
    "C11": RM + "fault injection: all ok/err/panic outcome assignments enumerated; history checker + panics() at rest",
    "C12": RM + "stress with 2-32 threads through one client; stream checker (line atomicity, conservation, per-thread order) at spy channel / draining Unix receiver / interposed sendto",
    "C13": RM + "syscall-boundary observation (interposed sendto) + loop-back receive: payload, destination sockaddr, result; framing model for the buffered socket sinks",
    "C14": RM + "conservation check of stats() against the interposed-sendto log at quiescent points, all accept/refuse patterns enumerated, concurrent emitters, through the queuing wrapper",
    "C15": RM + "counter invariants at every rest point of enumerated histories, sampler thread under concurrency, forced windows via schedule hooks (consumer overtakes producer bookkeeping)",
    "C16": RM + "fault injection: all ok/err patterns enumerated with and without handler; log checker (exactly one handler call, same error, same thread, before next delivery)",
    "C17": RM + "differential monitor: macro vs explicit chain on the same global client, argument-evaluation counters, one process per global configuration; Miri (many seeds) on a plain macro program as independent observer of the set-once path",
    "C18": RM + "controlled scheduler enumerating all interleavings of real threads through a tracing shim + online vector-clock (happens-before) race check + set-once value oracle; Miri (data races, weak memory, UB) and ThreadSanitizer as independent observers",
    "C19": RM + "model-based trace checker (rule F4: a write happens only when it must, and then carries everything pending) over enumerated and random histories; thorough adds a coverage-guided session (libFuzzer picks the bytes that drive the same generator, the same monitor judges every execution)",
    "C20": RM + "hostile-input exploration under catch_unwind + panic hook + sub-process exit status, overflow checks proven on by a canary; thorough adds a coverage-guided session (libFuzzer picks the bytes that drive the same generator, the same monitor judges every execution)",
}

ENGINES = [
    {"name": "fmt_driver", "path": "harness/src/bin/fmt_driver.rs", "serves_properties": ["C01", "C02", "C03", "C04"],
     "kind_free_text": "drives every StatsdClient entry point against a recording/scripted sink; reference formatter, parser, numeral and decoration oracles"},
    {"name": "frame_driver", "path": "harness/src/bin/frame_driver.rs", "serves_properties": ["C05", "C06", "C07", "C19"],
     "kind_free_text": "MultiLineWriter / BufferedSpyMetricSink / flush delegation under the pending-lines framing model (harness/src/frame.rs); small-scope enumeration, fault DFS, random histories"},
    {"name": "sock_driver", "path": "harness/src/bin/sock_driver.rs", "serves_properties": ["C05", "C06", "C07", "C13", "C14", "C19"],
     "kind_free_text": "socket sinks observed at an interposed sendto (harness/src/interpose.rs) and at loop-back receivers; scripted errno and kernel-made faults"},
    {"name": "queue_driver", "path": "harness/src/bin/queue_driver.rs", "serves_properties": ["C08", "C09", "C10", "C11", "C15", "C16"],
     "kind_free_text": "sequential histories of the queuing sink with a gated scripted wrapped sink (harness/src/qmon.rs): enumeration, drop matrix, outcome enumeration, random; /proc-based bounded-progress verdicts"},
    {"name": "queue_conc", "path": "harness/src/bin/queue_conc.rs", "serves_properties": ["C08", "C09", "C10", "C11", "C15", "C16"],
     "kind_free_text": "concurrent producers / handle churn / sampler and forced windows through schedule hook H2"},
    {"name": "conc_driver", "path": "harness/src/bin/conc_driver.rs", "serves_properties": ["C12"],
     "kind_free_text": "multi-threaded stress through one shared client into buffered spy / Unix / UDP sinks; datagram stream checker"},
    {"name": "macro_driver", "path": "harness/src/bin/macro_driver.rs", "serves_properties": ["C17"],
     "kind_free_text": "one process per global-client configuration; macro vs explicit chain differential"},
    {"name": "macro_miri", "path": "harness/src/bin/macro_miri.rs", "serves_properties": ["C17"],
     "kind_free_text": "plain program (global client set, macros from several threads, lines compared with explicit chains) run under Miri with many seeds"},
    {"name": "holder_driver", "path": "harness/src/bin/holder_driver.rs", "serves_properties": ["C18"],
     "kind_free_text": "token-passing scheduler over hook H1, DFS over all interleavings, vector-clock race check, value oracle"},
    {"name": "holder_stress", "path": "harness/src/bin/holder_stress.rs", "serves_properties": ["C18"],
     "kind_free_text": "plain racing program run under Miri (many seeds) and ThreadSanitizer"},
    {"name": "hostile_driver", "path": "harness/src/bin/hostile_driver.rs", "serves_properties": ["C20"],
     "kind_free_text": "hostile inputs against all public constructors and calls under catch_unwind"},
    {"name": "fuzz targets fz_fmt / fz_frame / fz_hostile", "path": "fuzz/fuzz_targets", "serves_properties": ["C01", "C02", "C03", "C04", "C05", "C06", "C07", "C19", "C20"],
     "kind_free_text": "cargo-fuzz (libFuzzer, no sanitizer) targets that include the driver sources: the input bytes drive the drivers' case generators through Rng::from_bytes, the drivers' oracles judge each execution; run by tools/fuzz_job.py in the thorough tier"},
]

NOT_APPLICABLE = {}
