#!/bin/bash
# Like iso_eval.sh, but runs only a coverage-guided session (tools/fuzz_job.py) against a seeded change.
#   tools/iso_fuzz.sh <slot> <seeded-id> <target> <driver> <prop> <seconds>
set -u
SLOT="$1"; ID="$2"; TARGET="$3"; DRIVER="$4"; PROP="$5"; SECS="${6:-30}"
BASE=/tmp/iso-$SLOT
PATCH=/verif/seeded/$ID/patch.diff
mkdir -p $BASE
if [ ! -d $BASE/repo ]; then git -C /repo worktree add -q --detach $BASE/repo HEAD || exit 2; cp /repo/Cargo.lock $BASE/repo/ 2>/dev/null; fi
rsync -a --delete --exclude target --exclude .git --exclude .run --exclude replays --exclude evidence /verif/ $BASE/verif/
sed -i "s#/repo/cadence#$BASE/repo/cadence#g" $BASE/verif/harness/Cargo.toml $BASE/verif/fuzz/Cargo.toml
git -C $BASE/repo checkout -q -- . && git -C $BASE/repo apply "$PATCH" || { echo "patch does not apply"; exit 2; }
cd $BASE/verif
mkdir -p .run/fz
(cd harness && CARGO_NET_OFFLINE=true RUSTFLAGS="--cfg cadence_verif" cargo build --release --offline --bin $DRIVER --target-dir $BASE/target 2>&1 | tail -1)
s=$(date +%s)
CVH_REPO=$BASE/repo CVH_TARGET_DIR=$BASE/target python3 tools/fuzz_job.py --target $TARGET --driver $DRIVER --property $PROP --seconds $SECS --workers 8 --out .run/fz/r.json; rc=$?
python3 - <<PY
import json
d=json.load(open('.run/fz/r.json'))
m=[v for v in d['violations'] if v['property']=='$PROP']
print("$ID fuzz($TARGET,$PROP,${SECS}s) exit=$rc execs=%d violations=%d %s" % (d['obs'].get('fuzzer_executions',0), len(m), (m[0]['rule']+'/'+m[0]['class']+': '+m[0]['detail'][:160]) if m else ''))
PY
git -C $BASE/repo checkout -q -- .
