#!/bin/bash
# dev helper: tools/mut.sh '<sed-expr>' <file-relative-to-/repo> <prop> [<prop>...]   -- apply a sed mutation to /repo, run quick checks, revert
expr="$1"; file="$2"; shift 2
cd /repo && git diff --quiet || { echo "/repo dirty, refusing"; exit 2; }
sed -i -E "$expr" "/repo/$file"
if git -C /repo diff --quiet; then echo "MUTATION DID NOT APPLY"; exit 2; fi
git -C /repo diff | grep -E '^[+-]' | grep -vE '^(\+\+\+|---)' | head -10
for p in "$@"; do
  out=$(cd /verif && ./check $p --tier quick 2>&1)
  echo "$out" | grep -E "^$p:|VIOLATION|INCONCLUSIVE|rule=" | head -6
done
git -C /repo checkout -- .
