#!/bin/bash
# Runs checks against a seeded change:  tools/seed_eval.sh <seeded-id> [tier] [props...]
# Applies /verif/seeded/<id>/patch.diff to /repo, runs the given checks (default: the property the change targets),
# reverts /repo straight afterwards, and appends the outcome to seeded/<id>/results.txt.
set -u
ID="$1"; TIER="${2:-quick}"; shift; shift 2>/dev/null
D=/verif/seeded/$ID
[ -f "$D/patch.diff" ] || { echo "no such seeded change $ID"; exit 2; }
PROPS="${@:-$(python3 -c "import json;print(json.load(open('$D/meta.json'))['breaks_property'])")}"
git -C /repo diff --quiet || { echo "/repo is dirty, refusing"; exit 2; }
git -C /repo apply "$D/patch.diff" || { echo "$ID: patch does not apply to /repo"; exit 2; }
trap 'git -C /repo checkout -- . ' EXIT
cd /verif
for p in $PROPS; do
  s=$(date +%s)
  out=$(./check $p --tier $TIER 2>&1); rc=$?
  e=$(date +%s)
  first=$(echo "$out" | grep -E "rule=" | head -1 | cut -c1-260)
  verdict=$(echo "$out" | grep -E "^$p:" | head -1 | awk '{print $2}')
  line="$(date -u +%FT%TZ) $ID check=$p tier=$TIER exit=$rc verdict=${verdict:-?} $((e-s))s $first"
  echo "$line"
  echo "$line" >> "$D/results.txt"
done
