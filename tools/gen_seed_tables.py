#!/usr/bin/env python3
"""Print the seeded-change tables of DESIGN.md section 16 from seeded/*/results.txt and tools/seed_desc.py,
and refresh the 'description' / 'needs' / 'caught_by' fields of each meta.json.  tools/gen_seed_tables.py [--write-meta]"""
import json, os, re, sys
HERE = os.path.dirname(os.path.abspath(__file__))
sys.path.insert(0, HERE)
from seed_desc import DESC
SEEDED = os.path.join(HERE, "..", "seeded")
LINE = re.compile(r"^(\S+) (\S+) check=(C\d\d) tier=(\w+) exit=(\d+) verdict=(\w+) \d+s[^r]*(?:rule=(.*?) class=([\w\-=>!.() ]+?):)?")

def rows(ids):
    out = []
    for sid in ids:
        prop = sid.split("-")[0]
        res = []
        p = os.path.join(SEEDED, sid, "results.txt")
        for l in open(p, errors="replace") if os.path.exists(p) else []:
            m = LINE.match(l)
            if m:
                res.append(m.groups())
        own = [r for r in res if r[2] == prop]
        first = own[0][5] if own else "?"
        caught = {}
        for r in res:  # in chronological order: the latest evaluation of a check counts
            if r[5] == "VIOLATED":
                caught[r[2]] = "%s / %s" % ((r[6] or "?").strip(), (r[7] or "?").strip())
            elif r[5] == "HELD":
                caught.pop(r[2], None)
        order = sorted(caught, key=lambda c: (c != prop, c))
        cb = "; ".join("%s (%s)" % (c, caught[c]) for c in order) or "not caught"
        if first == "VIOLATED" and prop not in caught:
            fp = "own check no longer reports it (a rule that did not belong to %s was removed); caught by %s" % (prop, ", ".join(order) or "none")
        else:
          fp = "caught" if first == "VIOLATED" else ("missed at first, caught after strengthening" if prop in caught else ("missed by its own check; caught by " + ", ".join(order) if caught else "missed"))
        d, n = DESC.get(sid, ("?", "?"))
        out.append((sid, d, n, cb, fp))
        if "--write-meta" in sys.argv:
            mp = os.path.join(SEEDED, sid, "meta.json")
            meta = json.load(open(mp))
            meta.update({"description": d, "needs_to_manifest": n, "caught_by": {c: caught[c] for c in order}, "first_pass": fp})
            json.dump(meta, open(mp, "w"), indent=1)
    return out

def table(ids):
    print("| Id | Change | Needs | Caught by (rule / class) | First pass |")
    print("|---|---|---|---|---|")
    for r in rows(ids):
        print("| " + " | ".join(x.replace("|", "\\|") for x in r) + " |")

ids = sorted(os.listdir(SEEDED))
r1 = [i for i in ids if re.match(r"C\d\d-[AB]$", i)]
r2 = [i for i in ids if re.match(r"C\d\d-2[ABC]$", i)]
r3 = [i for i in ids if re.match(r"C\d\d-3[AB]$", i)]
r4 = [i for i in ids if re.match(r"C\d\d-4[AB]$", i)]
r5 = [i for i in ids if re.match(r"C\d\d-5F\d\d[ABC]$", i)]
r6 = [i for i in ids if re.match(r"C\d\d-6G\d\d[ABC]$", i)]
r7 = [i for i in ids if re.match(r"C\d\d-7H\d\d[ABC]$", i)]
r8 = [i for i in ids if re.match(r"C\d\d-8K\d\d[ABC]$", i)]
r9 = [i for i in ids if re.match(r"C\d\d-9[AB]$", i)]
r10 = [i for i in ids if re.match(r"C\d\d-10M\d\d[ABC]$", i)]
r11 = [i for i in ids if re.match(r"C\d\d-11[AB]$", i)]
r12 = [i for i in ids if re.match(r"C\d\d-12[AB]$", i)]
for name, grp in (("Round 1", r1), ("Round 2", r2), ("Round 3", r3), ("Round 4", r4), ("Round 5 (file-focused; id = property named by the agent - focus area - letter)", r5), ("Round 6 (theme-focused)", r6), ("Round 7 (theme-focused, second set of themes)", r7), ("Round 8 (theme-focused, third set of themes)", r8), ("Round 9 (one property each, 'beat the diligent tester')", r9), ("Round 10 (one source area each, same instruction)", r10), ("Round 11 (one property each again, told everything done before)", r11), ("Round 12 (six properties, the same instruction, in the last hour)", r12)):
    print("\n%s:\n" % name)
    table(grp)
    rr = rows(grp) if "--write-meta" not in sys.argv else []
