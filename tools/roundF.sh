#!/bin/bash
# process finished round-5 (file-focused) sub-agent worktrees /tmp/wt5-Fnn: the property each change breaks is named in
# the NOTES.md heading "## A - ... (breaks Cxx)"; ids are Cxx-5FnnA.
cd /verif
for wt in /tmp/wt${ROUND:-5}-${PFX:-F}*; do
  f=$(basename $wt | sed "s/wt${ROUND:-5}-//")
  [ -f $wt/NOTES.md ] || continue
  for l in A B C; do
    [ -f $wt/mutant$l.diff ] || continue
    p=$(grep -E "^##+ *(Change |Mutant )?$l\b" $wt/NOTES.md | grep -oE "C[0-9][0-9]" | head -1)
    [ -z "$p" ] && { echo "$f $l: no property named in NOTES.md"; continue; }
    id=$p-${ROUND:-5}$f$l
    [ -f seeded/$id/results.txt ] && continue
    if [ ! -d seeded/$id ]; then
      if [ -f $wt/.verify_$l ]; then continue; fi
      out=$(tools/seed_verify.sh $wt $l $p ${ROUND:-5}$f 2>&1 | tail -1); echo "$out" | cut -c1-160
      echo "$out" > $wt/.verify_$l
      if [ ! -d seeded/$id ] && grep -qi "miri" $wt/NOTES.md; then
        out=$(SEED_MIRI=1 tools/seed_verify.sh $wt $l $p ${ROUND:-5}$f 2>&1 | tail -1); echo "(miri) $out" | cut -c1-160
      fi
    fi
    if [ -d seeded/$id ]; then
      # all properties the agent names for this change
      props=$(grep -E "^##+ *(Change |Mutant )?$l\b" $wt/NOTES.md | grep -oE "C[0-9][0-9]" | sort -u | tr '\n' ' ')
      tools/iso_eval.sh ${SLOT:-r${ROUND:-5}} $id quick $props 2>&1 | grep "check=" | cut -c1-260
    fi
  done
done
