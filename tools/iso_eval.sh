#!/bin/bash
# Evaluate seeded changes WITHOUT touching /repo or /verif: an isolated copy of the machinery and a scratch
# worktree of /repo under /tmp (removed with --clean).
#   tools/iso_eval.sh <slot> <seeded-id|patch-file> <tier> <prop> [<prop>...]
#   tools/iso_eval.sh <slot> --clean
# The copy's harness/Cargo.toml points at the scratch worktree; results go to stdout and to
# /verif/seeded/<id>/results.txt (when a seeded id is given). Evidence written by these runs stays in the copy.
set -u
SLOT="$1"; shift
BASE=/tmp/iso-$SLOT
if [ "${1:-}" = "--clean" ]; then
  git -C /repo worktree remove --force $BASE/repo >/dev/null 2>&1; rm -rf $BASE; git -C /repo worktree prune; exit 0
fi
WHAT="$1"; TIER="$2"; shift 2
if [ -f "/verif/seeded/$WHAT/patch.diff" ]; then PATCH=/verif/seeded/$WHAT/patch.diff; ID=$WHAT; else PATCH="$WHAT"; ID=""; fi
mkdir -p $BASE
if [ ! -d $BASE/repo ]; then git -C /repo worktree add -q --detach $BASE/repo HEAD || exit 2; cp /repo/Cargo.lock $BASE/repo/ 2>/dev/null; fi
# the machinery that is evaluated is the COMMITTED one (work in progress in /verif does not leak into results);
# ISO_FROM=worktree copies the working tree instead. Checksum-based copy: unchanged files keep their mtime (no rebuild).
if [ "${ISO_FROM:-head}" = "worktree" ]; then
  rsync -a --delete --exclude target --exclude .git --exclude .run --exclude replays --exclude evidence /verif/ $BASE/verif/
else
  rm -rf $BASE/verif.new && mkdir -p $BASE/verif.new $BASE/verif && git -C /verif archive ${ISO_REV:-HEAD} | tar -x -C $BASE/verif.new
  rsync -rlpc --delete --exclude target --exclude .run --exclude replays --exclude evidence $BASE/verif.new/ $BASE/verif/
  rm -rf $BASE/verif.new
fi
mkdir -p $BASE/verif/evidence
sed -i "s#/repo/cadence#$BASE/repo/cadence#g" $BASE/verif/harness/Cargo.toml $BASE/verif/fuzz/Cargo.toml
# the scratch worktree sits on /repo's HEAD unless the change was written against an earlier commit and no longer applies
# (meta.json: base_commit, applies_to_head=false) or ISO_BASE names a commit
WANT=$(git -C /repo rev-parse HEAD)
if [ -n "${ISO_BASE:-}" ]; then WANT=$(git -C /repo rev-parse $ISO_BASE); elif ! git -C /repo apply --check "$PATCH" 2>/dev/null && [ -n "$ID" ] && [ -f /verif/seeded/$ID/meta.json ]; then
  b=$(python3 -c "import json,sys; print(json.load(open('/verif/seeded/$ID/meta.json')).get('base_commit',''))"); [ -n "$b" ] && WANT=$(git -C /repo rev-parse $b)
fi
git -C $BASE/repo checkout -q -- . && git -C $BASE/repo checkout -q --detach $WANT
git -C $BASE/repo apply "$PATCH" || { echo "patch does not apply"; exit 2; }
cd $BASE/verif
for p in "$@"; do
  s=$(date +%s)
  out=$(CVH_REPO=$BASE/repo CVH_TARGET_DIR=$BASE/target ./check $p --tier $TIER 2>&1); rc=$?
  e=$(date +%s)
  first=$(echo "$out" | grep -E "rule=" | head -1 | cut -c1-260)
  verdict=$(echo "$out" | grep -E "^$p:" | head -1 | awk '{print $2}')
  [ -z "$verdict" ] && verdict=$(echo "$out" | grep -E "INCONCLUSIVE" | head -1 | cut -c1-200)
  line="$(date -u +%FT%TZ) ${ID:-$(basename $PATCH)} check=$p tier=$TIER exit=$rc verdict=${verdict:-?} $((e-s))s (isolated) $first"
  echo "$line"
  [ -n "$ID" ] && echo "$line" >> /verif/seeded/$ID/results.txt
done
git -C $BASE/repo checkout -q -- .
