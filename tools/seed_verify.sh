#!/bin/bash
# Confirms a seeded change produced by a sub-agent and files it under /verif/seeded/<id>/.
#   tools/seed_verify.sh <agent-worktree> <A|B> <property>
# Steps (all in a fresh scratch worktree of /repo, removed afterwards):
#   1. the demonstration passes on the unchanged tree
#   2. the change applies, the tree compiles and the pinned suite reproduces BASELINE.json
#   3. the demonstration fails with the change
# Then the patch, the demonstration and meta.json are stored; nothing is ever committed to /repo.
set -u
WT="$1"; L="$2"; PROP="$3"
ID="${PROP}-${4:-}${L}"
PATCH="$WT/mutant${L}.diff"; DEMO="$WT/demo/demo_${L}.rs"
[ -f "$PATCH" ] && [ -f "$DEMO" ] || { echo "$ID: missing $PATCH or $DEMO"; exit 2; }
SCR=/tmp/sv-$ID
git -C /repo worktree remove --force "$SCR" >/dev/null 2>&1; rm -rf "$SCR"
git -C /repo worktree add -q --detach "$SCR" HEAD || exit 2
cleanup() { git -C /repo worktree remove --force "$SCR" >/dev/null 2>&1; rm -rf "$SCR"; }
trap cleanup EXIT
export CARGO_NET_OFFLINE=true CARGO_TARGET_DIR="$SCR/target"
unset RUSTFLAGS
if grep -q 'cadence_macros' "$DEMO"; then TDIR=cadence-macros/tests; PKG=cadence-macros; else TDIR=cadence/tests; PKG=cadence; fi
cp "$DEMO" "$SCR/$TDIR/seed_demo.rs"
cd "$SCR"
if [ "${SEED_MIRI:-0}" = "1" ]; then
  # the demonstration only shows under Miri (e.g. a data race that x86 hardware does not expose)
  run_demo() { MIRIFLAGS="-Zmiri-many-seeds=0..6" timeout 1800 cargo +nightly miri test --offline -p $PKG --test seed_demo >"$SCR/demo.log" 2>&1; }
else
  run_demo() { timeout 600 cargo test --offline -p $PKG --test seed_demo >"$SCR/demo.log" 2>&1; }
fi
run_demo; rc_clean=$?
if [ $rc_clean -ne 0 ]; then echo "$ID: REJECTED - demonstration does not pass on the unchanged tree"; tail -15 "$SCR/demo.log"; exit 1; fi
git apply "$PATCH" || { echo "$ID: REJECTED - patch does not apply"; exit 1; }
if git diff --name-only | grep -qv '^cadence\(-macros\)\?/src/'; then echo "$ID: REJECTED - patch touches files outside the library sources"; exit 1; fi
run_demo; rc_mut=$?
if [ $rc_mut -eq 0 ]; then echo "$ID: REJECTED - demonstration still passes with the change"; exit 1; fi
demo_fail=$(grep -E "panicked at|assertion|test result|Undefined Behavior" "$SCR/demo.log" | head -3 | tr '\n' ' ')
rm -f "$SCR/$TDIR/seed_demo.rs"
BASELINE_TARGET_DIR="$SCR/target" /verif/tools/baseline_off.sh "$SCR" >"$SCR/suite.log" 2>&1; rc_suite=$?
if [ $rc_suite -ne 0 ]; then echo "$ID: REJECTED - existing suite does not reproduce the baseline with the change"; tail -8 "$SCR/suite.log"; exit 1; fi
D=/verif/seeded/$ID
mkdir -p "$D"
cp "$PATCH" "$D/patch.diff"; cp "$DEMO" "$D/demo.rs"
python3 - "$D" "$PROP" "$ID" "$WT" "$L" "$TDIR" "$demo_fail" <<'EOF'
import json, sys, re, os
d, prop, mid, wt, letter, tdir, demo_fail = sys.argv[1:8]
notes = open(os.path.join(wt, "NOTES.md")).read() if os.path.exists(os.path.join(wt, "NOTES.md")) else ""
meta = {
  "id": mid, "breaks_property": prop, "origin": "independent sub-agent given only the property text and a scratch worktree",
  "files_changed": sorted(set(re.findall(r"^\+\+\+ b/(\S+)", open(os.path.join(d, "patch.diff")).read(), re.M))),
  "demonstration": {"file": "demo.rs", "copy_to": tdir, "passes_without_change": True, "fails_with_change": True, "failure": demo_fail[:400]},
  "existing_suite_with_change": "baseline reproduced (160 stable tests pass, the 2 recorded always-fail tests fail)",
  "confirmed_by": "tools/seed_verify.sh in a scratch worktree of /repo HEAD",
  "needs_to_manifest": "see notes",
  "agent_notes": notes[:6000],
}
json.dump(meta, open(os.path.join(d, "meta.json"), "w"), indent=1)
EOF
echo "$ID: CONFIRMED (demo passes clean, fails with change: $demo_fail; suite reproduces baseline)"
