#!/bin/bash
# dev helper: build the harness (hooks on) and show only harness diagnostics
export CARGO_NET_OFFLINE=true CARGO_TARGET_DIR=${CARGO_TARGET_DIR:-/verif/target} RUSTFLAGS="--cfg cadence_verif"
cd /verif/harness && cargo build --release --offline --message-format short "$@" 2>&1 | grep -v '^/repo/' | grep -E 'error|warning: unused|^src/|Finished|panicked' | head -${HB_LINES:-60}
