#!/bin/bash
# Runs the repository's pinned test suite with the verification guard OFF (no --cfg cadence_verif)
# and compares the outcome with /root/.vp/BASELINE.json: every stable_pass test must pass.
# Usage: tools/baseline_off.sh [repo-dir]      exit 0 = baseline reproduced
set -u
REPO="${1:-/repo}"
export CARGO_NET_OFFLINE=true
unset RUSTFLAGS
TD="${BASELINE_TARGET_DIR:-$REPO/target}"
OUT=$(mktemp -d /var/tmp/cadence-baseline.XXXXXX)
trap 'rm -rf "$OUT"' EXIT
cd "$REPO" || exit 2
if cargo nextest --version >/dev/null 2>&1; then
  CARGO_TARGET_DIR="$TD" cargo nextest run --workspace --no-fail-fast --offline --test-threads 8 \
     --status-level all --final-status-level none --failure-output never --success-output never \
     >"$OUT/log" 2>&1
  python3 - "$OUT/log" <<'EOF'
import json, re, sys
base = json.load(open('/root/.vp/BASELINE.json'))
want = set(base['stable_pass'])
log = open(sys.argv[1]).read()
passed, failed = set(), set()
for m in re.finditer(r'^\s*(PASS|FAIL|SIGABRT|SIGSEGV|TIMEOUT|LEAK)\s+\[[^\]]*\]\s+(?:\(\s*\d+/\d+\)\s+)?(\S+)\s+(\S+)\s*$', log, re.M):
    st, binid, name = m.groups()
    # nextest binary ids: "cadence" (lib), "cadence::core" (integration test), "cadence-macros::lib"
    tid = f"{binid}::{name}"
    (passed if st in ('PASS', 'LEAK') else failed).add(tid)
missing = sorted(t for t in want if t not in passed)
unexpected_fail = sorted(t for t in failed if t in want)
print(f"baseline_off: passed={len(passed)} failed={len(failed)} stable_pass_expected={len(want)} missing={len(missing)}")
for t in missing[:20]:
    print("  MISSING/FAILED:", t)
extra_fail = sorted(t for t in failed if t not in want and t not in set(base.get('always_fail', [])))
for t in extra_fail[:20]:
    print("  NEW FAILURE (not in baseline):", t)
sys.exit(0 if not missing and not extra_fail else 1)
EOF
  rc=$?
  if [ $rc -ne 0 ]; then tail -40 "$OUT/log"; fi
  exit $rc
else
  CARGO_TARGET_DIR="$TD" cargo test --workspace --no-fail-fast --offline >"$OUT/log" 2>&1
  P=$(grep -c ' \.\.\. ok$' "$OUT/log"); F=$(grep -c ' \.\.\. FAILED$' "$OUT/log")
  echo "baseline_off (cargo test fallback): ok=$P failed=$F (expected: >=160 ok, 2 failed)"
  [ "$P" -ge 160 ] && [ "$F" -le 2 ]
fi
