#!/opt/veriftools/pyvenv/bin/python
"""dev helper: validate MANIFEST.json and evidence/*.json against the schemas."""
import glob, json, sys
import jsonschema
m = json.load(open('/verif/MANIFEST.json'))
jsonschema.validate(m, json.load(open('/root/.vp/MANIFEST.schema.json')))
print('MANIFEST ok: %d checks, %d n/a' % (len(m['checks']), len(m.get('not_applicable', []))))
s = json.load(open('/root/.vp/EVIDENCE.schema.json'))
for f in sorted(glob.glob('/verif/evidence/*.json')):
    e = json.load(open(f))
    jsonschema.validate(e, s)
    print('ok', f, e['tier'], e['coverage']['evaluations'], e['coverage']['distinct_nontrivial'], e['coverage'].get('verdict'))
