#!/bin/bash
# dev helper: run every check at a tier and summarise.  tools/run_all.sh [quick|thorough] [props...]
tier=${1:-quick}; shift
props=${@:-$(cd /verif && ./check --list | cut -d' ' -f1)}
cd /verif
for p in $props; do
  s=$(date +%s.%N)
  out=$(./check $p --tier $tier 2>&1); rc=$?
  e=$(date +%s.%N)
  printf "%s rc=%d %.1fs  %s\n" $p $rc $(echo "$e - $s" | bc) "$(echo "$out" | grep -E "^$p:" | head -1)"
  echo "$out" | grep -E "VIOLATION|INCONCLUSIVE|KNOWN-FINDING" | head -5
done
