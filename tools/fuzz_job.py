#!/usr/bin/env python3
"""Run one coverage-guided (libFuzzer / cargo-fuzz) session of a driver's case generator and merge what its
processes reported into one driver-style report.

  tools/fuzz_job.py --target fz_fmt --driver fmt_driver --property C01 --seconds 60 --workers 4 --seed 1 --out R.json

The fuzz target feeds libFuzzer's input bytes to the same generators and oracles the driver uses (Rng::from_bytes);
each fuzzing process writes report-<pid>.json every 2 s (harness/src/fuzz.rs). No sanitizer is compiled in: the
deciding oracle is the driver's, libFuzzer only chooses inputs by coverage feedback. Exit: 0 held, 1 violated, 3 inconclusive."""
import glob, json, os, re, shutil, subprocess, sys, time

def arg(name, default=None):
    return sys.argv[sys.argv.index("--" + name) + 1] if "--" + name in sys.argv else default

VERIF = os.path.dirname(os.path.dirname(os.path.abspath(__file__)))
target, driver, prop = arg("target"), arg("driver"), arg("property")
seconds, workers, seed, out = int(arg("seconds", "30")), int(arg("workers", "4")), int(arg("seed", "1")), arg("out")
work = os.path.join(os.path.dirname(os.path.abspath(out)), "fuzz-%s-%s" % (target, prop))
shutil.rmtree(work, ignore_errors=True)
for d in ("corpus", "out", "artifacts"):
    os.makedirs(os.path.join(work, d))
tdir = os.path.join(os.environ.get("CVH_TARGET_DIR", os.path.join(VERIF, "target")), "fuzz")
env = dict(os.environ, CVH_FUZZ_PROP=prop, CVH_FUZZ_OUT=os.path.join(work, "out"), CARGO_NET_OFFLINE="true")
cmd = ["cargo", "+nightly", "fuzz", "run", "--fuzz-dir", os.path.join(VERIF, "fuzz"), "--target-dir", tdir, "-s", "none", target,
       os.path.join(work, "corpus"), "--", "-max_total_time=%d" % seconds, "-fork=%d" % workers, "-ignore_crashes=1", "-ignore_timeouts=1",
       "-ignore_ooms=1", "-timeout=25", "-rss_limit_mb=4096", "-max_len=1024", "-len_control=0", "-seed=%d" % seed,
       "-artifact_prefix=%s/" % os.path.join(work, "artifacts")]
t0 = time.time()
try:
    p = subprocess.run(cmd, cwd=os.path.join(VERIF, "fuzz"), env=env, stdout=subprocess.PIPE, stderr=subprocess.STDOUT, timeout=seconds + 900)
    log, rc = p.stdout.decode("utf-8", "replace"), p.returncode
except subprocess.TimeoutExpired as e:
    log, rc = (e.stdout or b"").decode("utf-8", "replace"), -1
rep = {"driver": "%s(fuzz)" % driver, "property": prop, "evaluations": 0, "trivial": 0, "samples": [], "violations": [], "violation_count": 0,
       "obs": {}, "notes": [], "inconclusive": [], "wall_s": time.time() - t0}
distinct, fine, fine_name, nrep = set(), set(), "", 0
for f in glob.glob(os.path.join(work, "out", "report-*.json")):
    try:
        r = json.load(open(f))
    except Exception:
        continue
    nrep += 1
    rep["evaluations"] += r.get("evaluations", 0)
    rep["trivial"] += r.get("trivial", 0)
    distinct.update(r.get("distinct") or [])
    fine.update(r.get("fine") or [])
    fine_name = r.get("fine_name") or fine_name
    for k, v in r.get("obs", {}).items():
        rep["obs"][k] = max(rep["obs"].get(k, 0), v) if k.startswith("max_") else rep["obs"].get(k, 0) + v
    for v in r.get("violations", []):
        if len(rep["violations"]) < 40:
            v["bin"] = driver
            rep["violations"].append(v)
    rep["violation_count"] += r.get("violation_count", 0)
    for n in r.get("notes", []):
        if n not in rep["notes"]:
            rep["notes"].append(n)
    for n in r.get("inconclusive", []):
        if n not in rep["inconclusive"]:
            rep["inconclusive"].append(n)
    if len(rep["samples"]) < 4:
        rep["samples"] += r.get("samples", [])[:1]
rep["distinct"] = sorted(distinct)
rep["distinct_count"] = len(distinct)
if fine:
    rep["fine"], rep["fine_name"] = sorted(fine), fine_name
# libFuzzer's own account of what it explored
cov = [(int(a), int(b)) for a, b in re.findall(r"cov: (\d+) ft: (\d+)", log)]
if cov:
    rep["obs"]["max_fuzzer_coverage_edges"] = max(c for c, _ in cov)
    rep["obs"]["max_fuzzer_coverage_features"] = max(f for _, f in cov)
rep["obs"]["fuzzer_corpus_inputs_kept"] = len(os.listdir(os.path.join(work, "corpus")))
rep["obs"]["fuzzer_processes_reporting"] = nrep
arts = sorted(os.listdir(os.path.join(work, "artifacts")))
rep["obs"]["fuzzer_crash_or_timeout_artifacts"] = len(arts)
# an input that killed the fuzzing process (abort, timeout, OOM): replay it on the plain driver; a process killed by a
# signal is an abort inside the library (C20), everything else is a note
bindir = os.path.join(os.environ.get("CVH_TARGET_DIR", os.path.join(VERIF, "target")), "release")
for a in arts[:6]:
    data = open(os.path.join(work, "artifacts", a), "rb").read()
    args = ["--property", prop, "--mode", "fuzz-one", "--hex", data.hex()]
    try:
        q = subprocess.run([os.path.join(bindir, driver)] + args + ["--out", os.path.join(work, "replay-%s.json" % a[:24])], stdout=subprocess.PIPE, stderr=subprocess.STDOUT, timeout=120)
        if q.returncode < 0:
            if prop == "C20":
                rep["violations"].append({"property": "C20", "rule": "no-abort", "class": "process-aborted", "bin": driver, "replay_args": args,
                                          "detail": "fuzzer input kills the process with signal %d: %s" % (-q.returncode, q.stdout.decode("utf-8", "replace")[-300:]), "trace": {"input_hex": data.hex()[:4000]}})
                rep["violation_count"] += 1
            else:
                rep["notes"].append("artifact %s: the plain driver dies with signal %d on it (reported by the C20 check)" % (a, -q.returncode))
        else:
            rep["notes"].append("artifact %s (%d bytes): not reproduced on the plain driver (exit %d): a slow or memory-hungry input under the fuzzer" % (a[:30], len(data), q.returncode))
    except subprocess.TimeoutExpired:
        rep["notes"].append("artifact %s: replay on the plain driver exceeded 120 s" % a[:30])
if rep["evaluations"] == 0:
    rep["inconclusive"].append("the fuzzing session reported no executions (cargo fuzz exit %s): %s" % (rc, log[-600:].replace("\n", " | ")))
json.dump(rep, open(out, "w"))
shutil.rmtree(os.path.join(work, "corpus"), ignore_errors=True)
mine = [v for v in rep["violations"] if v.get("property") == prop]
sys.exit(1 if mine else (3 if rep["inconclusive"] else 0))
