#!/usr/bin/env python3
"""Systematic one-line mutation sweep over the library sources, as a gap finder for the checks.

  tools/mutsweep.py --slot m1 --shard 0/3 [--max N] [--files cadence/src/io.rs,...] [--list]

For every mutation site (relational / arithmetic / boolean operator flips, integer and boolean constant changes,
deletion of a self.* statement, Ok(x) -> Ok(0)) in the non-test part of the selected files:
  1. apply it in a scratch worktree of /repo (slot under /tmp, removed with tools/iso_eval.sh <slot> --clean),
  2. `cargo check`: a mutant that does not compile is dropped,
  3. tools/baseline_off.sh: a mutant the pinned test suite kills is recorded as such and not pursued,
  4. the quick checks of the properties the file is relevant to are run against the mutant (isolated copy of /verif),
  5. one JSON line per mutant is appended to /verif/mutsweep/results-<slot>.jsonl.
Survivors that no check reports need triage by hand (equivalent mutant, outside every property, or a real gap)."""
import json, os, re, subprocess, sys, time

def arg(name, default=None):
    return sys.argv[sys.argv.index("--" + name) + 1] if "--" + name in sys.argv else default

SLOT = arg("slot", "m1")
SHARD, NSH = [int(x) for x in arg("shard", "0/1").split("/")]
MAX = int(arg("max", "100000"))
BASE = "/tmp/iso-" + SLOT
REL = {
    "cadence/src/io.rs": ["C05", "C06", "C07", "C19", "C12", "C13", "C20"],
    "cadence/src/builder.rs": ["C01", "C02", "C03", "C04", "C17", "C20"],
    "cadence/src/client.rs": ["C01", "C02", "C03", "C04", "C17", "C20", "C06"],
    "cadence/src/types.rs": ["C01", "C03", "C17", "C20"],
    "cadence/src/sinks/queuing.rs": ["C08", "C09", "C10", "C11", "C15", "C16", "C14", "C06", "C20", "C12"],
    "cadence/src/sinks/udp.rs": ["C13", "C14", "C05", "C06", "C07", "C12", "C19", "C20"],
    "cadence/src/sinks/unix.rs": ["C13", "C14", "C05", "C06", "C07", "C12", "C19", "C20"],
    "cadence/src/sinks/core.rs": ["C13", "C14", "C07", "C20"],
    "cadence/src/sinks/spy.rs": ["C05", "C06", "C07", "C19", "C12", "C14", "C20"],
    "cadence/src/sinks/mod.rs": ["C14", "C20", "C03"],
    "cadence-macros/src/state.rs": ["C18", "C17"],
    "cadence-macros/src/macros.rs": ["C17", "C02"],
    "cadence-macros/src/lib.rs": ["C17", "C18"],
}
FILES = arg("files").split(",") if arg("files") else list(REL)

OPS = [
    (r"(?<![<>=!\-])<(?![<=])(?=\s)", "<=", "lt->le"), (r"<=", "<", "le->lt"),
    (r"(?<![<>=\-])>(?![>=])(?=\s)", ">=", "gt->ge"), (r">=", ">", "ge->gt"),
    (r"==", "!=", "eq->ne"), (r"!=", "==", "ne->eq"),
    (r" \+ ", " - ", "plus->minus"), (r" - ", " + ", "minus->plus"), (r" \+= ", " -= ", "pluseq->minuseq"),
    (r"&&", "||", "and->or"), (r"\|\|", "&&", "or->and"),
    (r"\btrue\b", "false", "true->false"), (r"\bfalse\b", "true", "false->true"),
    (r"(?<![\w.])(\d+)(?![\w.])", None, "int+1"),
    (r"Ok\((\w+)\)", "Ok(0)", "ok->ok0"),
    (r"\.is_ok\(\)", ".is_err()", "is_ok->is_err"), (r"\.is_err\(\)", ".is_ok()", "is_err->is_ok"),
    (r"\.is_some\(\)", ".is_none()", "some->none"), (r"\.is_empty\(\)", ".len() == 1", "empty->len1"),
    (r"Ordering::(Acquire|Release|AcqRel|SeqCst)", "Ordering::Relaxed", "ordering->relaxed"),
]

def sites(path, text):
    out = []
    lines = text.split("\n")
    in_tests = False
    skip_next = False
    for i, l in enumerate(lines):
        st = l.strip()
        if re.match(r"#\[cfg\(test\)\]", st) or re.match(r"mod tests? \{", st):
            in_tests = True
        if in_tests:
            continue
        if skip_next:
            skip_next = False
            continue
        if "cfg(cadence_verif)" in st:
            skip_next = True
            continue
        if not st or st.startswith("//") or st.startswith("#[") or st.startswith("use ") or st.startswith("///") or st.startswith("*") or st.startswith("pub use"):
            continue
        code = l.split("//")[0]
        if '"' in code and code.count('"') >= 2:
            # do not mutate inside string literals: blank them for matching
            masked = re.sub(r'"(?:[^"\\]|\\.)*"', lambda m: '"' + "_" * (len(m.group(0)) - 2) + '"', code)
        else:
            masked = code
        for rx, rep, name in OPS:
            for m in re.finditer(rx, masked):
                if name in ("lt->le", "gt->ge", "le->lt", "ge->gt") and re.search(r"(->|=>|<[A-Z&'\w]|impl<|fn \w+<|::<|Vec<|Option<|Result<|Arc<|Box<|Sender<|Receiver<|Mutex<|where|dyn |&'|<T|<F|<M|<S|<P|<A)", code):
                    continue
                if name == "int+1":
                    v = int(m.group(1))
                    new = str(1 if v == 0 else (0 if v == 1 else v + 1))
                else:
                    new = rep
                mutated = code[:m.start()] + new + code[m.end():] + (("//" + l.split("//", 1)[1]) if "//" in l else "")
                if mutated != l:
                    out.append((i, name, l, mutated))
        # statement deletion: a call or assignment on self that stands alone on its line
        if re.match(r"\s*self\.[\w.]+(\(.*\)|\s*[+\-]?=\s*[^=].*);\s*$", code) and "let " not in code:
            out.append((i, "delete-stmt", l, re.sub(r"\S.*$", "// (statement deleted)", code)))
    return out

def sh(cmd, cwd=None, env=None, timeout=3600):
    e = dict(os.environ, CARGO_NET_OFFLINE="true")
    e.update(env or {})
    try:
        p = subprocess.run(cmd, shell=True, cwd=cwd, env=e, stdout=subprocess.PIPE, stderr=subprocess.STDOUT, timeout=timeout)
        return p.returncode, p.stdout.decode("utf-8", "replace")
    except subprocess.TimeoutExpired:
        return -9, "timeout"

allsites = []
for f in FILES:
    text = open(os.path.join("/repo", f)).read()
    for (i, name, before, after) in sites(f, text):
        allsites.append((f, i, name, before, after))
if "--list" in sys.argv:
    for k, s in enumerate(allsites):
        print(k, s[0], s[1] + 1, s[2], "|", s[3].strip()[:90], "=>", s[4].strip()[:90])
    print(len(allsites), "sites")
    sys.exit(0)

mine = [s for k, s in enumerate(allsites) if k % NSH == SHARD][:MAX]
# set the slot up like tools/iso_eval.sh does
os.makedirs(BASE, exist_ok=True)
if not os.path.isdir(BASE + "/repo"):
    sh("git -C /repo worktree add -q --detach %s/repo HEAD && cp /repo/Cargo.lock %s/repo/" % (BASE, BASE))
sh("rsync -a --delete --exclude target --exclude .git --exclude .run --exclude replays --exclude evidence --exclude mutsweep /verif/ %s/verif/ && mkdir -p %s/verif/evidence" % (BASE, BASE))
sh('sed -i "s#/repo/cadence#%s/repo/cadence#g" %s/verif/harness/Cargo.toml %s/verif/fuzz/Cargo.toml' % (BASE, BASE, BASE))
res_path = "/verif/mutsweep/results-%s.jsonl" % SLOT
done = set()
if os.path.exists(res_path):
    for l in open(res_path):
        try:
            d = json.loads(l)
            done.add((d["file"], d["line"], d["op"], d["after"]))
        except Exception:
            pass
for (f, i, name, before, after) in mine:
    if (f, i + 1, name, after.strip()) in done:
        continue
    sh("git -C %s/repo checkout -q -- ." % BASE)
    path = os.path.join(BASE, "repo", f)
    lines = open(path).read().split("\n")
    if lines[i] != before:
        continue
    lines[i] = after
    open(path, "w").write("\n".join(lines))
    rec = {"file": f, "line": i + 1, "op": name, "before": before.strip(), "after": after.strip(), "time": time.strftime("%FT%TZ", time.gmtime())}
    rc, out = sh("cargo check --workspace --offline 2>&1 | tail -3", cwd=BASE + "/repo", env={"CARGO_TARGET_DIR": BASE + "/repo-target"})
    if "error" in out or rc != 0:
        rec["outcome"] = "does-not-compile"
    else:
        rc, out = sh("/verif/tools/baseline_off.sh %s/repo" % BASE, env={"BASELINE_TARGET_DIR": BASE + "/repo-target"}, timeout=1800)
        if rc != 0:
            rec["outcome"] = "killed-by-suite"
        else:
            rec["outcome"] = "survives-suite"
            rec["checks"] = {}
            for p in REL[f]:
                t0 = time.time()
                rc, out = sh("./check %s --tier quick" % p, cwd=BASE + "/verif", env={"CVH_REPO": BASE + "/repo", "CVH_TARGET_DIR": BASE + "/target"}, timeout=3000)
                m = re.search(r"^%s: (\w+)" % p, out, re.M)
                verdict = m.group(1) if m else ("INCONCLUSIVE" if "INCONCLUSIVE" in out else "?")
                first = re.search(r"rule=(.*)", out)
                rec["checks"][p] = {"verdict": verdict, "seconds": round(time.time() - t0), "first": first.group(1)[:200] if first else ""}
                if verdict == "VIOLATED" and "--all" not in sys.argv:
                    break
            rec["caught"] = [p for p, v in rec["checks"].items() if v["verdict"] == "VIOLATED"]
    # a mutant can make a unit test spin for ever: nextest gives up on it, the test process lives on - end it
    sh("pkill -9 -f '%s/repo-target/debug/dep[s]'" % BASE)
    open(res_path, "a").write(json.dumps(rec) + "\n")
    print(rec["file"], rec["line"], rec["op"], rec["outcome"], rec.get("caught", ""), flush=True)
sh("git -C %s/repo checkout -q -- ." % BASE)
