#!/bin/bash
# process finished round-2 sub-agent worktrees: verify each change, then evaluate the quick check of its property in isolation
cd /verif
for wt in /tmp/wt${ROUND:-2}-C*; do
  p=$(basename $wt | sed "s/wt${ROUND:-2}-//")
  [ -f $wt/NOTES.md ] || continue
  for l in A B C; do
    [ -f $wt/mutant$l.diff ] || continue
    id=$p-${ROUND:-2}$l
    [ -f seeded/$id/results.txt ] && continue
    if [ ! -d seeded/$id ]; then
      if [ -f $wt/.verify_$l ]; then continue; fi
      out=$(tools/seed_verify.sh $wt $l $p ${ROUND:-2} 2>&1 | tail -1); echo "$out" | cut -c1-160
      echo "$out" > $wt/.verify_$l
      if [ ! -d seeded/$id ] && grep -qi "miri" $wt/NOTES.md; then
        out=$(SEED_MIRI=1 tools/seed_verify.sh $wt $l $p ${ROUND:-2} 2>&1 | tail -1); echo "(miri) $out" | cut -c1-160
      fi
    fi
    [ -d seeded/$id ] && tools/iso_eval.sh r${ROUND:-2} $id quick $p 2>&1 | tail -1 | cut -c1-260
  done
done
