#!/usr/bin/env python3
"""Regenerates /verif/MANIFEST.json from lib/plans.py (META/PLAN) so the two never drift apart."""
import json
import os
import subprocess
import sys

HERE = os.path.dirname(os.path.dirname(os.path.abspath(__file__)))
sys.path.insert(0, os.path.join(HERE, "lib"))
import plans  # noqa: E402

ALL = ["C%02d" % i for i in range(1, 21)]

TECHNIQUE = {
    "C01": "runtime monitoring: reference-formatter + independent-parser monitor over randomized calls through every entry point",
    "C02": "runtime monitoring: reference-numeral monitor (u128 duration arithmetic, float round-trip) over boundary/random values; exhaustive 32-bit sweeps in thorough",
    "C03": "runtime monitoring with fault injection: scripted sink outcomes enumerated, per-call oracle over sink log / handler log / result",
    "C04": "runtime monitoring: decoration monitor (tag + container sections vs configured defaults ++ per-call) over random client configurations",
}

LEVEL_TEXT = {}
LEVEL_NOTE = {}

ENGINES = [
    {"name": "fmt_driver", "path": "harness/src/bin/fmt_driver.rs", "serves_properties": ["C01", "C02", "C03", "C04"],
     "kind_free_text": "drives every StatsdClient entry point against a recording/scripted sink; reference formatter, parser, numeral and decoration oracles"},
]


def hook_commits():
    try:
        out = subprocess.run(["git", "-C", "/repo", "log", "--format=%h %s"], stdout=subprocess.PIPE, text=True).stdout
        return [l.split()[0] for l in out.splitlines() if l.split(" ", 1)[1].startswith("verif hook")]
    except Exception:
        return []


def main():
    sys.path.insert(0, os.path.join(HERE, "tools"))
    try:
        import manifest_extra as X  # optional overrides: TECHNIQUE, ENGINES, NOT_APPLICABLE reasons
    except ImportError:
        X = None
    technique = dict(TECHNIQUE)
    engines = list(ENGINES)
    na_reason = {}
    if X:
        technique.update(getattr(X, "TECHNIQUE", {}))
        engines = getattr(X, "ENGINES", engines)
        na_reason = getattr(X, "NOT_APPLICABLE", {})
    checks = []
    for p in ALL:
        if p not in plans.PLAN:
            continue
        m = plans.META[p]
        checks.append({
            "property_id": p,
            "quick_cmd": "./check %s --tier quick" % p,
            "thorough_cmd": "./check %s --tier thorough" % p,
            "evidence_file": "/verif/evidence/%s.json" % p,
            "replay_cmd_template": "./check %s --replay {path}" % p,
            "engine": ",".join(sorted(set(e["name"] for e in engines if p in e["serves_properties"]))),
            "level_claimed": {
                "category": m["level"],
                "text": m.get("level_text") or ("Held / violated on the executions actually produced and observed (counts in the evidence file); " + m["rule"])[:1800],
                "design_ref": "DESIGN.md section 6, " + p,
            },
            "level_note": "; ".join(m["assumptions"]),
            "technique": technique.get(p, "runtime monitoring"),
        })
    not_applicable = [{"property_id": p, "reason": na_reason.get(p, "check not built yet in this revision of /verif (planned, see DESIGN.md section 6); no claim is made")}
                      for p in ALL if p not in plans.PLAN]
    manifest = {
        "version": 1,
        "setup_cmd": "./check --setup",
        "hooks": {
            "guard": "cadence_verif",
            "enable": "RUSTFLAGS=\"--cfg cadence_verif\" (set by ./check for the harness build; path dependencies on /repo/cadence and /repo/cadence-macros)",
            "baseline_off_cmd": "/verif/tools/baseline_off.sh",
            "source_commits": hook_commits(),
            "add_only": True,
        },
        "engines": engines,
        "checks": checks,
        "notes": "Technique family: runtime monitoring and sanitizers. Every verdict is 'held/violated on the executions observed'; "
                 "verdicts are three-valued (exit 0 held, exit 1 + VIOLATION line, exit 3 + INCONCLUSIVE line). VERIF_SEED seeds all random choices. "
                 "Genuine defects found and repaired in /repo are listed in KNOWN_FINDINGS.txt as 'fixed:' lines (they suppress nothing).",
        "not_applicable": not_applicable,
    }
    with open(os.path.join(HERE, "MANIFEST.json"), "w") as f:
        json.dump(manifest, f, indent=1)
        f.write("\n")
    print("MANIFEST.json: %d checks, %d not_applicable" % (len(checks), len(not_applicable)))


if __name__ == "__main__":
    main()
