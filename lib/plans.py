"""Per-property plans: which driver processes to run per tier, and the static metadata of each check
(level, rule, assumptions). Bounds are chosen so that quick stays well under a minute on 16 cores."""
import os
from orchestrate import Job, NCPU, VERIF, TARGET

QUICK, THOROUGH = "quick", "thorough"


def B(bindir, name):
    return os.path.join(bindir, name)


def shards(bindir, binname, prop, seed, n, base_args, timeout, per_shard_args=None):
    jobs = []
    for i in range(n):
        argv = [B(bindir, binname)] + base_args + ["--seed", str(seed), "--shard", str(i), "--shards", str(n), "--out", "{out}"]
        if per_shard_args:
            argv += per_shard_args(i)
        jobs.append(Job("%s-%s-%d" % (prop, binname, i), argv, timeout))
    return jobs


# ---------------------------------------------------------------------------------------------------------
META = {}
PLAN = {}


def meta(prop, **kw):
    META[prop] = kw


def plan(prop):
    def deco(f):
        PLAN[prop] = f
        return f
    return deco


# ---- C01 ----------------------------------------------------------------------------------------------
meta("C01", level="exploration",
     rule="random input tuples (prefix class x key x value(s) x decoration subset/order) each driven through all 73 entry points "
          "(22 built-in kind/value types, 7 kinds x 6 user-defined MetricValue variants + a failing user type, incr, decr) x "
          "{plain, tagged try_send, quiet send}; oracle: independent reference formatter (byte equality, float fields may be any "
          "plain decimal numeral that parses back bit-identically), independent parser on delimiter-free inputs, as_metric_str of the "
          "returned metric, standalone constructors, rejected values never produce a line. distinct = (kind, value type, form, section "
          "mask, prefix class, key class, tag-count class, value class, clean/dirty) signatures; trivial = no optional section and a single value",
     assumptions=["the recording MetricSink sees exactly what a socket sink would be handed (StatsdClient passes the formatted string unchanged)",
                  "strings are sampled (<= 4 KiB, lists <= 300 elements); the macro call form is covered by the C17 check with the same reference formatter"],
     min_evaluations=10000, must_observe={"lines_matched_reference": 1000, "lines_parsed_back": 1000, "standalone_compared": 50})


@plan("C01")
def _c01(bindir, tier, seed):
    if tier == QUICK:
        return shards(bindir, "fmt_driver", "C01", seed, NCPU, ["--mode", "c01", "--cases", "1500"], 240)
    return shards(bindir, "fmt_driver", "C01", seed, NCPU, ["--mode", "c01", "--cases", "60000"], 1800)


# ---- C02 ----------------------------------------------------------------------------------------------
meta("C02", level="exploration",
     rule="boundary tables (0, +-1, MIN/MAX of every width, 2^k+-1, 10^k+-1), bit-width-uniform random integers, finite f64 from uniformly "
          "random bit patterns / subnormals / shortest-repr hard cases, Durations around the exact 64-bit overflow boundaries of the ms and ns "
          "conversions, packed lists with an offending element at a random position, sampling rates; oracle: value field == independent decimal "
          "rendering of the ORIGINAL typed value, float field is a plain decimal numeral parsing back to identical bits, Duration count computed "
          "with u128 arithmetic from secs/subsec_nanos, rejection => InvalidInput and no emit. distinct = (kind, value type, sign, bit-width / "
          "exponent class, single/packed) signatures. thorough adds two exhaustive sweeps: all 2^32 i32 and all 2^32 u32 counter values",
     assumptions=["f64 parse (str::parse::<f64>) of the standard library is correct (it is the independent reader of float fields)",
                  "64-bit integer and f64 and Duration spaces are sampled, only the 32-bit spaces are enumerated (thorough)"],
     min_evaluations=10000, must_observe={"value_fields_checked": 10000, "rejections_checked": 50, "rates_checked": 100})


@plan("C02")
def _c02(bindir, tier, seed):
    if tier == QUICK:
        return shards(bindir, "fmt_driver", "C02", seed, NCPU, ["--mode", "c02", "--cases", "6000"], 240)
    jobs = shards(bindir, "fmt_driver", "C02", seed, NCPU, ["--mode", "c02", "--cases", "400000"], 1800)
    # exhaustive 32-bit sweeps, 32 slices each
    n = 32
    for ty, lo, hi in (("i32", -2**31, 2**31 - 1), ("u32", 0, 2**32 - 1)):
        step = (hi - lo + 1) // n
        for i in range(n):
            a = lo + i * step
            b = hi if i == n - 1 else a + step - 1
            jobs.append(Job("C02-sweep-%s-%d" % (ty, i), [B(bindir, "fmt_driver"), "--mode", "c02-sweep", "--type", ty, "--lo", str(a), "--hi", str(b), "--out", "{out}"], 3600))
    return jobs


# ---- C03 ----------------------------------------------------------------------------------------------
meta("C03", level="fault_enumeration",
     rule="scripted sink: EVERY accept/refuse pattern of length 1..=L (L=6 quick, 10 thorough) for each of the 73 entry points, call forms and "
          "valid/rejected values chosen per step, plus random sequences of length 10-50 over mixed entry points with failure probability 0-90% and "
          "20 io::ErrorKinds; oracle per call over (sink call log, handler log, returned value): emit-count delta (1 valid / 0 rejected), Ok(m) text "
          "== text the sink accepted in that call, Err kind IoError with source() == the injected io::Error (kind + unique message), InvalidInput for "
          "rejected values, quiet form: handler delta 1 with the same error on failure / 0 on success, no unwind. distinct = outcome-signature strings "
          "(accept/refuse/invalid x quiet/non-quiet per step) x entry point x handler present; trivial = all accepted non-quiet",
     assumptions=["sink outcomes are scripted per emit in call order; the sink is a harness MetricSink, not a socket"],
     exhaustive_scope="all accept/refuse outcome sequences up to the stated length for every entry point (values/forms per step are sampled)",
     min_evaluations=10000, must_observe={"enumerated_patterns": 1000})


@plan("C03")
def _c03(bindir, tier, seed):
    if tier == QUICK:
        return shards(bindir, "fmt_driver", "C03", seed, NCPU, ["--mode", "c03", "--maxlen", "6", "--cases", "300"], 240)
    return shards(bindir, "fmt_driver", "C03", seed, NCPU, ["--mode", "c03", "--maxlen", "10", "--cases", "20000"], 1800)


# ---- C04 ----------------------------------------------------------------------------------------------
meta("C04", level="exploration",
     rule="random client configurations (0-5 default tags, key:value and bare, duplicates allowed, with/without default container id, repeated "
          "with_container_id on the builder) x all entry points incl. incr/decr x {plain, tagged, quiet} x per-call tag sequences and container "
          "overrides, followed by an undecorated call (override is for that call only); oracle on delimiter-free strings: tag section == defaults "
          "++ per-call tags in order, container section == per-call else default else absent. distinct = (kind, value type, form, #default class, "
          "default container?, per-call container?, #call tags class); trivial = no defaults and no per-call decoration",
     assumptions=["judged on delimiter-free strings, where the tag and container sections of a line are unambiguous; the macro form is covered by C17"],
     min_evaluations=10000, must_observe={"tag_sections_checked": 5000, "container_sections_checked": 5000})


@plan("C04")
def _c04(bindir, tier, seed):
    if tier == QUICK:
        return shards(bindir, "fmt_driver", "C04", seed, NCPU, ["--mode", "c04", "--cases", "1200"], 240)
    return shards(bindir, "fmt_driver", "C04", seed, NCPU, ["--mode", "c04", "--cases", "60000"], 1800)


# ---- C05 / C06 / C19 (fault-free framing) and C07 (framing under injected write failures) ---------------
FRAME_ASSUME = ["the underlying writer is all-or-nothing (datagram semantics) and its own flush() succeeds, as for the socket adapters",
                "the degenerate triple (capacity 0, empty terminator, empty metric) carries no bytes and is excluded from exactly-once (run for C20)",
                "W2/W5 observe successful writes at the far end of the spy channel; failed attempts are inferred from the Err result there"]

FRAME_RULE = ("real MultiLineWriter / buffered sinks run against a model of pending lines (FIFO of metric++terminator, fill counter); every "
              "underlying write attempt and every result is validated. Workloads: (1) W1 small-scope enumeration on cadence::ext::MultiLineWriter"
              "<ScriptedWriter>: all capacities 0..=C, terminators \\n, \\r\\n, empty, EVERY op sequence of length <= L over {emit(len 0..=cap+2), flush} "
              "+ drop; (2) W1 random long histories (capacity <= 1500, 10-2000 ops, lengths biased to exact-fit / one-short / one-over / oversize); "
              "(3) W2 BufferedSpyMetricSink observed at its channel, incl. default capacity; (4) W5 flush through StatsdClient::flush and "
              "QueuingMetricSink::flush; (5) W3/W4 buffered UDP/Unix sinks observed at an interposed sendto (sock_driver). distinct = outcome signatures "
              "(buffered / pre-flush / bypass / exact-fill write / flush-write / failed-... per call) x capacity class x terminator; whole signature for "
              "short histories, every 3-call window containing a non-trivial outcome for long ones; trivial = only plain buffering")


def frame_jobs(bindir, prop, tier, seed, faults):
    f = "all" if faults else "none"
    jobs = []
    if tier == QUICK:
        en = ["--maxcap", "4", "--maxlen", "4"] if faults else ["--maxcap", "6", "--maxlen", "5"]
        rnd, spy, dele = 400, 300, 30
    else:
        en = ["--maxcap", "5", "--maxlen", "5"] if faults else ["--maxcap", "8", "--maxlen", "6"]
        rnd, spy, dele = 40000, 30000, 1500
    base = ["--property", prop, "--faults", f]
    jobs += shards(bindir, "frame_driver", prop + "-enum", seed, NCPU, base + ["--mode", "enum"] + en, 3000)
    jobs += shards(bindir, "frame_driver", prop + "-random", seed, NCPU, base + ["--mode", "random", "--cases", str(rnd)], 3000)
    jobs += shards(bindir, "frame_driver", prop + "-spy", seed, 8, base + ["--mode", "spy", "--cases", str(spy)], 3000)
    if not faults:
        jobs += shards(bindir, "frame_driver", prop + "-delegate", seed, 8, base + ["--mode", "delegate", "--cases", str(dele)], 3000)
    return jobs


meta("C05", level="exploration", rule="rule F1 (every write is whole pending lines in order, <= capacity, or the oversize metric alone without terminator); " + FRAME_RULE,
     assumptions=FRAME_ASSUME, exhaustive_scope="W1 op-sequence enumeration within the stated small scope (the random / spy / delegate / socket parts are sampled)",
     min_evaluations=20000, must_observe={"underlying_write_attempts": 20000, "enumerated_runs": 10000})
meta("C06", level="exploration", rule="rule F2 (Ok(n) => n == len; in-order exactly-once conservation; flush Ok leaves nothing, second flush writes nothing; nothing lost at drop; oversize written in its own emit; flush delegation through client and queuing sink); " + FRAME_RULE,
     assumptions=FRAME_ASSUME, exhaustive_scope="W1 op-sequence enumeration within the stated small scope (the random / spy / delegate / socket parts are sampled)",
     min_evaluations=20000, must_observe={"metrics_accepted": 20000, "enumerated_runs": 10000, "flush_through_queuing_sink_histories": 10, "flush_through_client_histories": 10})
meta("C19", level="exploration", rule="rule F4 (writes happen only when the next line does not fit in the remaining space - then ALL pending lines go in one datagram -, on the bypass, on flush/drop with data pending, or as the exact-fill write; a line that still fits never triggers a write); " + FRAME_RULE,
     assumptions=FRAME_ASSUME, exhaustive_scope="W1 op-sequence enumeration within the stated small scope (the random / spy / delegate / socket parts are sampled)",
     min_evaluations=20000, must_observe={"datagrams_written": 20000, "enumerated_runs": 10000})
meta("C07", level="fault_enumeration",
     rule="rules F1-F3 under injected write failures: for every enumerated history EVERY ok/fail/interrupted assignment to its first 8 underlying write "
          "attempts (DFS over the attempts that actually occur), plus random histories with failure probability 0-75%, bursts of consecutive failures and "
          "runs of Interrupted, plus BufferedSpyMetricSink with a bounded channel left full as fault injector, plus non-blocking Unix sockets with a full "
          "receive queue and scripted errno at an interposed sendto (sock_driver). Oracle: a call returns Ok or the error of an attempt made in that call "
          "(identity by unique message), an emit that returned Err never shows up in a later write, accepted lines stay pending and leave exactly once, "
          "whole and in order with the next successful write, no duplicates, no unwind. " + FRAME_RULE,
     assumptions=FRAME_ASSUME, exhaustive_scope="all fault assignments to the first 8 write attempts of every enumerated W1 history within the small scope",
     min_evaluations=50000, must_observe={"underlying_write_attempts": 50000, "enumerated_runs": 20000})


@plan("C05")
def _c05(bindir, tier, seed):
    return frame_jobs(bindir, "C05", tier, seed, False)


@plan("C06")
def _c06(bindir, tier, seed):
    return frame_jobs(bindir, "C06", tier, seed, False)


@plan("C19")
def _c19(bindir, tier, seed):
    return frame_jobs(bindir, "C19", tier, seed, False)


@plan("C07")
def _c07(bindir, tier, seed):
    return frame_jobs(bindir, "C07", tier, seed, True)
