"""Per-property plans: which driver processes to run per tier, and the static metadata of each check
(level, rule, assumptions). Bounds are chosen so that quick stays well under a minute on 16 cores."""
import os
from orchestrate import Job, NCPU, VERIF, TARGET

QUICK, THOROUGH = "quick", "thorough"


def B(bindir, name):
    return os.path.join(bindir, name)


def shards(bindir, binname, prop, seed, n, base_args, timeout, per_shard_args=None):
    jobs = []
    for i in range(n):
        argv = [B(bindir, binname)] + base_args + ["--seed", str(seed), "--shard", str(i), "--shards", str(n), "--out", "{out}"]
        if per_shard_args:
            argv += per_shard_args(i)
        jobs.append(Job("%s-%s-%d" % (prop, binname, i), argv, timeout))
    return jobs


HOSTILE_ENV = {"DD_ENTITY_ID": "cvh-entity-é,a:b|c", "DD_ENV": "cvh-env", "DD_SERVICE": "cvh-service", "DD_VERSION": "9.9.9", "DD_TAGS": "cvh:tag,other", "DD_AGENT_HOST": "192.0.2.1",
               "DD_DOGSTATSD_PORT": "9", "DD_DOGSTATSD_URL": "udp://192.0.2.1:9", "DD_DOGSTATSD_SOCKET": "/nonexistent/cvh.sock", "DD_EXTERNAL_ENV": "cvh-ext", "DD_ORIGIN_DETECTION_ENABLED": "true",
               "DD_TELEMETRY_ENABLED": "true", "STATSD_HOST": "192.0.2.1", "STATSD_PORT": "9", "STATSD_PREFIX": "cvhprefix", "STATSD_TAGS": "cvh:tag", "HOSTNAME": "cvh-host", "CADENCE_PREFIX": "cvhprefix",
               "CADENCE_TAGS": "cvh:tag", "CADENCE_DISABLE": "1", "NO_METRICS": "1"}


def hostile_env(jobs, last=4):
    """The last `last` shards of a sharded driver run in a hostile process environment: the usual DogStatsD / StatsD variables
    are set, and the driver's getenv interposer answers EVERY other variable the process asks for as well (modes 1-4 =
    string / "1" / "true" / "8125"). What a client sends is a function of its arguments, not of the environment."""
    for k, j in enumerate(jobs[-last:]):
        j.argv += ["--hostile-env", str(1 + k % 4)]
        j.env = dict(j.env or {}, **HOSTILE_ENV)
        # ... and with a standard error that cannot be written to (/dev/full): a library that starts to print there must
        # not take the caller down with it
        j.stderr_full = True
    return jobs


def fuzz_job(prop, target, driver, seed, seconds, workers=4):
    """Thorough tier: a coverage-guided session (libFuzzer through cargo-fuzz, no sanitizer) whose input bytes drive the
    driver's own case generator and whose executions are judged by the driver's own oracles (tools/fuzz_job.py)."""
    argv = ["python3", os.path.join(VERIF, "tools", "fuzz_job.py"), "--target", target, "--driver", driver, "--property", prop,
            "--seconds", str(seconds), "--workers", str(workers), "--seed", str(seed), "--out", "{out}"]
    j = Job("%s-fuzz-%s" % (prop, target), argv, seconds + 1200, weight=workers)
    j.extra_bins = [driver]
    return j


# ---------------------------------------------------------------------------------------------------------
META = {}
PLAN = {}


# what later rounds of seeded changes added to each check (appended to the rule text of the evidence / manifest)
ADDED = {
    "C18": "; {:?} of the holder is an operation (enumerated next to sets, sampled, in the Miri / TSan stress); macro_miri under Miri races two set_global_default calls against a checker of 'is set => get works'",
    "C15": "; producer 0 of every concurrent history runs on one long-lived thread of the process (veterans next to newcomers)",
    "C14": "; destinations nobody listens at, also on caller-connected sockets (ECONNREFUSED one datagram late); a user-written sink made of ext::MultiLineWriter + ext::SocketStats counting through a cloned handle",
    "C07": "; W1 also through write_all / write_vectored; a fifth of the fault histories answer refused buffer writes with Ok(0)",
    "C02": "; macro form: arguments spelled as call / brace block / identifier / parenthesised / if-match",
    "C05": "; rule F1 is also judged on the histories with injected write failures (random W1 incl. a writer that answers Ok(0), spy, sockets, the fault DFS); W1 histories also go through write_all and write_vectored",
    "C01": "; the standalone constructors are also given the same full name cut at another place; the last four shards run in a hostile process environment (getenv interposer answers every variable asked for, usual DogStatsD variables set); 1 case in 8 builds the client directly on the library's own sinks (Unix, UDP, buffered, spy, nop, each also behind a queuing sink) and reads the line from the returned metric; strings of class 'realistic' (runtime container ids, UUIDs, well-known tag names ...)",
    "C03": "; the last four shards run in a hostile process state (getenv interposer, standard error unwritable: /dev/full); refusal payload shapes (message, typed payload, a cadence error as payload, raw OS error, nested io::Error); one step in six first makes the same builder and drops it unsent (no emit, no handler call); 1 in 40 Vec values renders to 70-200 KB (still one call, one string)",
    "C04": "; the last four shards run in a hostile process environment (getenv interposer answers every variable asked for, usual DogStatsD variables set): a client adds nothing of its own; 1 case in 6 builds the client directly on the library's own sinks (the default container id and tags do not depend on the sink type); realistic strings (64-digit hex container ids ...)",
    "C06": "; W5 flushes also with 1-3 metrics still queued behind the one the queue's thread holds; miri_time (hour-long pauses on Miri's virtual clock) and seven histories with real pauses of 1.3 / 2.6 s; W1 also through write_all / write_vectored; histories with exactly 2^8 / 2^16 / 2^17 lines buffered at the flush",
    "C08": "; composed queuing sinks (a queue feeding a queue, a handler reporting through a queue); miri_time: a wrapped sink that stalls for a virtual hour with metrics accepted behind it - age is no reason to skip a metric; compose: the queue's own thread as a caller of the same queue (follow-ups emitted by the wrapped sink / the handler into a small bounded queue); a library thread that burns 3 s of CPU time without any logged event is a verdict (spinning)",
    "C09": "; miri_time: a backlog behind a sink that needs ten virtual minutes per metric is handed over completely after the last drop, drop itself takes no virtual time, release within a virtual day; miri_queue: last drop at the moment of the last delivery (weak-memory emulation); compose: used / never used sinks around a wrapped sink whose destructor panics or blocks (drop returns at once, does not unwind, the destructor does not run on the caller)",
    "C10": "; miri_time: emit keeps answering by queue room alone while the wrapped sink is inside one call for a virtual hour; unbounded queues with backlogs of 70 000 and 2^20 + 60 000 behind the blocked sink accept everything; emit called on another queuing sink's thread (queue -> queue, handler -> queue) is answered like any caller's; a wrapped sink and handler using 100 KiB of stack; a driver killed by a signal counts; spinning verdict as for C08",
    "C11": "; a queuing sink built and used by a destructor during unwinding reports panics() == 0; miri_time: hours of idling and an emit afterwards leave panics() at 0; a refusal with room in the queue after a panic of the wrapped sink counts here too ('keeps accepting')",
    "C12": "; every other run ends with the drop alone (no final flush); every third UDP run has a socket that refuses a fifth of the datagrams while the threads emit and flush; all threads make their last emit at the same moment; three runs in four end with the drop alone",
    "C13": "; socket file names with special first bytes (@ - ~ # % : blank) as bare relative paths, buffered Unix sinks addressed relatively; address lists whose first entry is of the other family than the socket (first address is the destination, the second stays silent); sockets the caller has connect()ed to another peer; destination port 0; buffered UDP sinks addressed to another host (interposer answers for the kernel)",
    "C16": "; every fourth history runs against a wrapped sink whose flush() fails with an error of its own (only a caller's flush may see it: a handler call carrying it is handler-without-failure); compose: an outer queue with a handler directly around a small blocked inner queue (refusals of the inner queue are failures like any other); a handler that flushes a clone of its own queue",
    "C17": "; macros invoked from a thread-local destructor at thread exit (client set); a process killed by a signal counts; arguments spelled as call / brace block / identifier / parenthesised / if-match; a return inside an argument leaves the caller; unset macros panic before evaluating their arguments",
    "C19": "; rule F4 is also judged on the random W1 / spy / socket histories with injected write failures (every error kind incl. WouldBlock, kernel EAGAIN): a refused write is no reason to write early later; W5: metrics refused by a wrapper in front of the buffered sink give no reason to write; miri_time (hour-long pauses on Miri's virtual clock: direct, behind an idle queue, after dropping one of two handles) and seven histories with real pauses of 1.3 / 2.6 s - nothing is written 'after a while'; buffered UDP sinks addressed to another host with capacities above 1432",
    "C20": "; the format / writer / queue / misc areas are also run against an unoptimised build of the library (opt-level 0); area smallstack: callers with a 64 KiB stack; metrics with tens of thousands of tags; area tls: metrics recorded from thread-local destructors at thread exit (queue, client over queue, buffered spy, client with handler); miri_api: a tour of the whole public API under Miri (UB / data races of the paths reached, lines compared with literals); Unix socket paths of 98-5000 bytes, with an interior NUL, empty; the last shard of each area runs with an unwritable standard error",
}


# round 11
UNW = "; every third native job makes every third guarded call of each thread from a destructor that runs while the thread unwinds (thread::panicking() is true inside the library)"
ADDED11 = {
    "C03": "; a client with a handler on a handler-less queuing sink over a refusing sink (the client's handler hears nothing); a handler that panics once (the next failing quiet sends are reported)",
    "C05": "; the public writer over std::io::BufWriter / LineWriter with small buffers (byte-stream oracle)",
    "C06": "; the public writer over std's own writers; flushes made by the queue's own thread from its error handler; a wrapper that panics over a metric behind a queue",
    "C07": "; spy histories whose receiver goes away midway (every later write fails and says so); sinks dropped with lines buffered and the channel full while a reader starts 30 ms later",
    "C08": "; 70 000 (thorough: 2^20 + 60 000) queued metrics released at once: one at a time, each producer's order",
    "C09": "; the last handle of a queue let go on another queue's thread; a forced window after the stop signal (the dropper held until the queue's thread is gone): the wrapped sink is never destroyed by the dropping thread; miri_time: a bounded queue idles for a virtual hour before its last drop",
    "C10": "; every third blocked-sink race has another caller stuck in the wrapped sink's blocked flush()",
    "C11": "; every fifth job with an unwritable standard error",
    "C12": "; a quarter of the socket runs with 100-200 threads",
    "C13": "; a stream listener / regular file / dead socket / nothing at a Unix sink's path; the application's own handle of the socket still sends after the sink is gone",
    "C15": "; queues over the crate's own sinks (Nop, spy, buffered spy) and a failing sink, capacities unbounded / 0 / 1 / 3 / 64: submitted = Ok emits, drained = submitted, queued = 0 at rest",
    "C16": "; failures of metrics an error handler itself sent through a queue (second queue, own queue); a handler configured twice",
    "C17": "; tag and key arguments of types that coerce to &str; a rejected global client whose destructor uses the macros",
    "C18": "; values that panic in their destructor when turned down (only that set may unwind); the scheduler leaves a thread alone that the holder blocks for real and reports an all-blocked state",
    "C19": "; W5: a wrapper that panics over a metric on the queue's thread gives the buffered sink no reason to write",
    "C20": "; public Display / Debug types formatted with width, fill, alignment, sign and precision flags",
}
for _p in ["C%02d" % i for i in range(1, 21)]:
    ADDED[_p] = ADDED.get(_p, "") + ADDED11.get(_p, "") + UNW


def meta(prop, **kw):
    if prop in ADDED and "rule" in kw:
        kw["rule"] = kw["rule"] + ADDED[prop]
    META[prop] = kw


NATIVE_DRIVERS = ("fmt_driver", "frame_driver", "sock_driver", "conc_driver", "queue_driver", "queue_conc", "macro_driver", "holder_driver", "hostile_driver")


def unwinding_callers(jobs):
    """"Who calls" includes a thread that is unwinding from a panic of its own (a guard object's destructor reporting a metric,
    flushing or dropping a sink, setting the global client): every third job of the native drivers makes every third guarded
    call of each of its threads from such a destructor (`thread::panicking()` is true inside the library). Nothing in any of
    the properties depends on it, so all oracles stay as they are."""
    k = 0
    for j in jobs:
        if os.path.basename(j.argv[0]) in NATIVE_DRIVERS and "--unwinding-every" not in j.argv:
            k += 1
            if k % 3 == 0:
                j.argv += ["--unwinding-every", "3"]
    return jobs


def plan(prop):
    def deco(f):
        def g(bindir, tier, seed):
            return unwinding_callers(f(bindir, tier, seed))
        PLAN[prop] = g
        return f
    return deco


# ---- C01 ----------------------------------------------------------------------------------------------
meta("C01", level="exploration",
     rule="random input tuples (prefix class x key x value(s) x decoration subset/order) each driven through all 73 entry points "
          "(22 built-in kind/value types, 7 kinds x 6 user-defined MetricValue variants + a failing user type, incr, decr) x "
          "{plain, tagged try_send, quiet send}; oracle: independent reference formatter (byte equality, float fields may be any "
          "plain decimal numeral that parses back bit-identically), independent parser on delimiter-free inputs, as_metric_str of the "
          "returned metric, standalone constructors, rejected values never produce a line. distinct = (kind, value type, form, section "
          "mask, prefix class, key class, tag-count class, value class, clean/dirty) signatures; trivial = no optional section and a single value",
     assumptions=["the recording MetricSink sees exactly what a socket sink would be handed (StatsdClient passes the formatted string unchanged)",
                  "strings are sampled (<= 4 KiB, lists <= 300 elements); the macro call form is covered by the C17 check with the same reference formatter"],
     min_evaluations=10000, must_observe={"lines_matched_reference": 1000, "lines_parsed_back": 1000, "standalone_compared": 50})


@plan("C01")
def _c01(bindir, tier, seed):
    if tier == QUICK:
        return hostile_env(shards(bindir, "fmt_driver", "C01", seed, NCPU, ["--mode", "c01", "--cases", "2000"], 600))
    return hostile_env(shards(bindir, "fmt_driver", "C01", seed, NCPU, ["--mode", "c01", "--cases", "60000"], 7200)) + [fuzz_job("C01", "fz_fmt", "fmt_driver", seed, 120, 8)]


# ---- C02 ----------------------------------------------------------------------------------------------
meta("C02", level="exploration",
     rule="boundary tables (0, +-1, MIN/MAX of every width, 2^k+-1, 10^k+-1), bit-width-uniform random integers, finite f64 from uniformly "
          "random bit patterns / subnormals / shortest-repr hard cases, Durations around the exact 64-bit overflow boundaries of the ms and ns "
          "conversions, packed lists with an offending element at a random position, sampling rates; oracle: value field == independent decimal "
          "rendering of the ORIGINAL typed value, float field is a plain decimal numeral parsing back to identical bits, Duration count computed "
          "with u128 arithmetic from secs/subsec_nanos, rejection => InvalidInput and no emit. distinct = (kind, value type, sign, bit-width / "
          "exponent class, single/packed) signatures. thorough adds two exhaustive sweeps: all 2^32 i32 and all 2^32 u32 counter values",
     assumptions=["f64 parse (str::parse::<f64>) of the standard library is correct (it is the independent reader of float fields)",
                  "64-bit integer and f64 and Duration spaces are sampled, only the 32-bit spaces are enumerated (thorough)"],
     min_evaluations=10000, must_observe={"value_fields_checked": 10000, "rejections_checked": 50, "rates_checked": 100})


def c02_macro_jobs(bindir, tier, seed):
    # the macro call form: the same numerals must reach the wire through statsd_*! (reference formatter on the macro's line)
    n = 6 if tier == QUICK else 100
    return [Job("C02-macro-%d" % i, [B(bindir, "macro_driver"), "--cfg-seed", str(seed * 7919 + i), "--rounds", "6" if tier == QUICK else "20", "--report-as", "C02", "--out", "{out}"], 900) for i in range(n)]


@plan("C02")
def _c02(bindir, tier, seed):
    if tier == QUICK:
        return shards(bindir, "fmt_driver", "C02", seed, NCPU, ["--mode", "c02", "--cases", "20000"], 600) + c02_macro_jobs(bindir, tier, seed)
    jobs = shards(bindir, "fmt_driver", "C02", seed, NCPU, ["--mode", "c02", "--cases", "400000"], 7200) + c02_macro_jobs(bindir, tier, seed)
    # exhaustive 32-bit sweeps, 32 slices each
    n = 32
    for ty, lo, hi in (("i32", -2**31, 2**31 - 1), ("u32", 0, 2**32 - 1)):
        step = (hi - lo + 1) // n
        for i in range(n):
            a = lo + i * step
            b = hi if i == n - 1 else a + step - 1
            jobs.append(Job("C02-sweep-%s-%d" % (ty, i), [B(bindir, "fmt_driver"), "--mode", "c02-sweep", "--type", ty, "--lo", str(a), "--hi", str(b), "--out", "{out}"], 3600))
    jobs.append(fuzz_job("C02", "fz_fmt", "fmt_driver", seed, 120, 8))
    return jobs


# ---- C03 ----------------------------------------------------------------------------------------------
meta("C03", level="fault_enumeration",
     rule="scripted sink: EVERY accept/refuse pattern of length 1..=L (L=6 quick, 10 thorough) for each of the 73 entry points, call forms and "
          "valid/rejected values chosen per step, plus random sequences of length 10-50 over mixed entry points with failure probability 0-90% and "
          "20 io::ErrorKinds; oracle per call over (sink call log, handler log, returned value): emit-count delta (1 valid / 0 rejected), Ok(m) text "
          "== text the sink accepted in that call, Err kind IoError with source() == the injected io::Error (kind + unique message), InvalidInput for "
          "rejected values, quiet form: handler delta 1 with the same error on failure / 0 on success, no unwind; the sink's string equals what the same call produces on a pristine client on a fresh thread (nothing left over from earlier calls; sampled); a third of the sequences use delimiter-laden prefixes / keys / tags; one quiet send in eight is made by a destructor while its thread unwinds. distinct = outcome-signature strings "
          "(accept/refuse/invalid x quiet/non-quiet per step) x entry point x handler present; trivial = all accepted non-quiet",
     assumptions=["sink outcomes are scripted per emit in call order; the sink is a harness MetricSink, not a socket"],
     exhaustive_scope="all accept/refuse outcome sequences up to the stated length for every entry point (values/forms per step are sampled)",
     min_evaluations=10000, must_observe={"enumerated_patterns": 1000, "texts_compared_with_a_pristine_client": 1000, "quiet_sends_from_a_destructor_during_unwinding": 100})


@plan("C03")
def _c03(bindir, tier, seed):
    if tier == QUICK:
        return hostile_env(shards(bindir, "fmt_driver", "C03", seed, NCPU, ["--mode", "c03", "--maxlen", "7", "--cases", "3000"], 600))
    return hostile_env(shards(bindir, "fmt_driver", "C03", seed, NCPU, ["--mode", "c03", "--maxlen", "10", "--cases", "20000"], 7200)) + [fuzz_job("C03", "fz_fmt", "fmt_driver", seed, 120, 8)]


# ---- C04 ----------------------------------------------------------------------------------------------
meta("C04", level="exploration",
     rule="random client configurations (0-5 default tags, key:value and bare, duplicates allowed, with/without default container id, repeated "
          "with_container_id on the builder) x all entry points incl. incr/decr x {plain, tagged, quiet} x per-call tag sequences and container "
          "overrides, followed by an undecorated call (override is for that call only); oracle on delimiter-free strings: tag section == defaults "
          "++ per-call tags in order, container section == per-call else default else absent. distinct = (kind, value type, form, #default class, "
          "default container?, per-call container?, #call tags class); trivial = no defaults and no per-call decoration",
     assumptions=["judged on delimiter-free strings, where the tag and container sections of a line are unambiguous; the macro form is covered by C17"],
     min_evaluations=10000, must_observe={"tag_sections_checked": 5000, "container_sections_checked": 5000})


@plan("C04")
def _c04(bindir, tier, seed):
    if tier == QUICK:
        return hostile_env(shards(bindir, "fmt_driver", "C04", seed, NCPU, ["--mode", "c04", "--cases", "4000"], 600))
    return hostile_env(shards(bindir, "fmt_driver", "C04", seed, NCPU, ["--mode", "c04", "--cases", "60000"], 7200)) + [fuzz_job("C04", "fz_fmt", "fmt_driver", seed, 120, 8)]


# ---- C05 / C06 / C19 (fault-free framing) and C07 (framing under injected write failures) ---------------
FRAME_ASSUME = ["the underlying writer is all-or-nothing (datagram semantics) and its own flush() succeeds, as for the socket adapters",
                "the degenerate triple (capacity 0, empty terminator, empty metric) carries no bytes and is excluded from exactly-once (run for C20)",
                "W2/W5 observe successful writes at the far end of the spy channel; failed attempts are inferred from the Err result there"]

FRAME_RULE = ("real MultiLineWriter / buffered sinks run against a model of pending lines (FIFO of metric++terminator, fill counter); every "
              "underlying write attempt and every result is validated. Workloads: (1) W1 small-scope enumeration on cadence::ext::MultiLineWriter"
              "<ScriptedWriter>: all capacities 0..=C, terminators \\n, \\r\\n, empty, EVERY op sequence of length <= L over {emit(len 0..=cap+2), flush} "
              "+ drop; (2) W1 random long histories (capacity <= 1500, 10-2000 ops, lengths biased to exact-fit / one-short / one-over / oversize) and big-capacity histories (8191..200000, around std's 8 KiB BufWriter default and the 64 KiB mark: thousands of short metrics until the buffer has wrapped, single metrics at the power-of-two marks and just below the capacity); "
              "(3) W2 BufferedSpyMetricSink observed at its channel, incl. default capacity; (4) W5 flush through StatsdClient::flush and "
              "QueuingMetricSink::flush; (5) W3/W4 buffered UDP/Unix sinks observed at an interposed sendto (sock_driver). distinct = outcome signatures "
              "(buffered / pre-flush / bypass / exact-fill write / flush-write / failed-... per call) x capacity class x terminator; whole signature for "
              "short histories, every 3-call window containing a non-trivial outcome for long ones; trivial = only plain buffering")


def frame_jobs(bindir, prop, tier, seed, faults):
    f = "all" if faults else "none"
    jobs = []
    if tier == QUICK:
        en = ["--maxcap", "5", "--maxlen", "4"] if faults else ["--maxcap", "8", "--maxlen", "5"]
        rnd, spy, dele = 3000, 2500, 150
    else:
        en = ["--maxcap", "5", "--maxlen", "5"] if faults else ["--maxcap", "8", "--maxlen", "6"]
        rnd, spy, dele = 40000, 30000, 1500
    base = ["--property", prop, "--faults", f]
    jobs += shards(bindir, "frame_driver", prop + "-enum", seed, NCPU, base + ["--mode", "enum"] + en, 3000)
    jobs += shards(bindir, "frame_driver", prop + "-random", seed, NCPU, base + ["--mode", "random", "--cases", str(rnd)], 3000)
    jobs += shards(bindir, "frame_driver", prop + "-big", seed, 8, base + ["--mode", "random-big", "--cases", "12" if tier == QUICK else "400"], 3000)
    jobs += shards(bindir, "frame_driver", prop + "-spy", seed, 8, base + ["--mode", "spy", "--cases", str(spy)], 3000)
    if not faults:
        jobs += shards(bindir, "frame_driver", prop + "-delegate", seed, 8, base + ["--mode", "delegate", "--cases", str(dele)], 3000)
    else:
        # flush / drop through client and queuing sink while the buffered sink's writes fail now and then
        jobs += shards(bindir, "frame_driver", prop + "-delegatefaults", seed, 4, base + ["--mode", "delegate-faults", "--cases", "400" if tier == QUICK else "6000"], 3000)
    # W3/W4: the buffered UDP / Unix sinks on real sockets, observed at the interposed sendto
    jobs += shards(bindir, "sock_driver", prop + "-sockets", seed, 4, ["--property", prop, "--mode", "buffered", "--cases", "800" if tier == QUICK else "5000"], 3000)
    if not faults and prop in ("C19", "C06"):
        # pauses of an hour between calls on Miri's virtual clock: nothing is written "after a while"
        jobs.append(miri_time_job(prop, seed, 4 if tier == QUICK else 64, 1500 if tier == QUICK else 7200))
        # ... and real pauses of 1.3 / 2.6 s (seven histories side by side)
        jobs += shards(bindir, "frame_driver", prop + "-pauses", seed, 1 if tier == QUICK else 4, base + ["--mode", "pauses", "--rounds", "1" if tier == QUICK else "6"], 3000)
    if tier != QUICK and (faults or prop != "C06"):
        # (C06 builds its job list from two calls: the session is added once, by the fault-injected half)
        jobs.append(fuzz_job(prop, "fz_frame", "frame_driver", seed, 90, 8))
    return jobs


meta("C05", level="exploration", rule="rule F1 (every write is whole pending lines in order, <= capacity, or the oversize metric alone without terminator); " + FRAME_RULE,
     assumptions=FRAME_ASSUME, exhaustive_scope="W1 op-sequence enumeration within the stated small scope (the random / spy / delegate / socket parts are sampled)",
     min_evaluations=20000, must_observe={"underlying_write_attempts": 20000, "enumerated_runs": 10000})
meta("C06", level="exploration", rule="rule F2 (Ok(n) => n == len; in-order exactly-once conservation; flush Ok leaves nothing, second flush writes nothing; nothing lost at drop; oversize written in its own emit; flush delegation through client and queuing sink); the two clauses 'a flush that returns Ok leaves nothing buffered' and 'a dropped sink has written what it accepted' are also judged on the fault-injected histories of the C07 workload (all fault assignments, random bursts, full spy channel, scripted errno); ; delegate runs also flush while the queue's thread holds a taken metric it has not handed over yet; slow-server histories on a blocking Unix socket (receive queue full, server drains with pauses): no send fails and everything arrives, incl. the final flush at drop" + FRAME_RULE,
     assumptions=FRAME_ASSUME, exhaustive_scope="W1 op-sequence enumeration within the stated small scope (the random / spy / delegate / socket parts are sampled)",
     min_evaluations=20000, must_observe={"metrics_accepted": 20000, "enumerated_runs": 10000, "flush_through_queuing_sink_histories": 10, "flush_through_client_histories": 10, "slow_server_histories": 20, "flushes_while_the_queue_thread_held_a_taken_metric": 50, "ok_flushes_after_earlier_failures": 50})
meta("C19", level="exploration", rule="rule F4 (writes happen only when the next line does not fit in the remaining space - then ALL pending lines go in one datagram -, on the bypass, on flush/drop with data pending, or as the exact-fill write; a line that still fits never triggers a write); " + FRAME_RULE,
     assumptions=FRAME_ASSUME, exhaustive_scope="W1 op-sequence enumeration within the stated small scope (the random / spy / delegate / socket parts are sampled)",
     min_evaluations=20000, must_observe={"datagrams_written": 20000, "enumerated_runs": 10000})
meta("C07", level="fault_enumeration",
     rule="rules F1-F3 under injected write failures: for every enumerated history EVERY ok/fail/interrupted assignment to its first 8 underlying write "
          "attempts (DFS over the attempts that actually occur), plus random histories with failure probability 0-75%, bursts of consecutive failures and "
          "runs of Interrupted, plus BufferedSpyMetricSink with a bounded channel left full as fault injector, plus non-blocking Unix sockets with a full "
          "receive queue and scripted errno at an interposed sendto (sock_driver). Oracle: a call returns Ok or the error of an attempt made in that call "
          "(identity by unique message), an emit that returned Err never shows up in a later write, accepted lines stay pending and leave exactly once, "
          "whole and in order with the next successful write, no duplicates, no unwind. " + FRAME_RULE,
     assumptions=FRAME_ASSUME, exhaustive_scope="all fault assignments to the first 8 write attempts of every enumerated W1 history within the small scope",
     min_evaluations=50000, must_observe={"underlying_write_attempts": 50000, "enumerated_runs": 20000})


@plan("C06")
def _c06(bindir, tier, seed):
    # C06's statement does not depend on what failed earlier: "flush returned Ok => nothing left" and "dropped => written"
    # are also judged on histories with injected write failures
    jobs = frame_jobs(bindir, "C06", tier, seed, False)
    faulty = frame_jobs(bindir, "C06", tier, seed, True)
    for j in faulty:
        j.name = j.name.replace("C06-", "C06-faulty-")
    return jobs + faulty


@plan("C05")
def _c05(bindir, tier, seed):
    # the shape of a write (rule F1) is also judged on the histories with injected write failures
    jobs = frame_jobs(bindir, "C05", tier, seed, False)
    faulty = [j for j in frame_jobs(bindir, "C05", tier, seed, True) if "fuzz" not in j.name and "delegatefaults" not in j.name]
    for j in faulty:
        j.name = j.name.replace("C05-", "C05-faulty-")
    return jobs + faulty


@plan("C19")
def _c19(bindir, tier, seed):
    # "writes only when it must" does not depend on what failed earlier either: a refused write (whatever its error kind)
    # is no reason to write early later on - rule F4 is also judged on the random / spy / socket histories with injected
    # write failures and on the enumerated fault DFS
    jobs = frame_jobs(bindir, "C19", tier, seed, False)
    faulty = [j for j in frame_jobs(bindir, "C19", tier, seed, True) if "fuzz" not in j.name and "delegatefaults" not in j.name]
    for j in faulty:
        j.name = j.name.replace("C19-", "C19-faulty-")
    return jobs + faulty


@plan("C07")
def _c07(bindir, tier, seed):
    return frame_jobs(bindir, "C07", tier, seed, True)


# ---- C08 C09 C10 C11 C15 C16: the queuing sink -------------------------------------------------------------
Q_ASSUME = ["'eventually' is restated as bounded progress: success is signalled by the wrapped sink's own events; failure is decided by logical evidence "
            "(no library thread left, or every library thread in state S with unchanged context-switch counters over >= 150 samples / 1.5 s while the "
            "harness holds nothing that could wake it); a 120 s watchdog yields INCONCLUSIVE, never a violation",
            "sequential histories are exact because the wrapped sink is gated and the worker's rest points are known (schedule point queuing.run.wait of hook H2); "
            "concurrent schedules are sampled from the OS scheduler, forced windows come from hook H2",
            "crossbeam-channel is trusted to be a correct MPSC FIFO"]

Q_SEQ = ("sequential histories on the real QueuingMetricSink with a gated, scripted wrapped sink: small-scope enumeration of EVERY valid sequence of length <= L over "
         "{emit(handle, ok|err|panic), clone, drop(handle), release one gated call} (<= 2 handles, capacities unbounded/1/2/3), random sequences of length <= 40 with up to 6 "
         "handles and capacities 0..8, ")
Q_CONC = ("concurrent histories (2-8 producers on own clones or one shared handle, handle churn on another thread, bounded and unbounded queues, wrapped sink with micro-sleeps, "
          "errors and panics, a sampler thread), and forced windows through schedule points (hook H2). distinct = history shape (capacity, handler, op codes with accept/refuse) "
          "for sequential runs, (capacity, #producers, producer-id trigram in delivery order) for concurrent runs, (window, capacity, counter triple) for forced windows")


def q_jobs(bindir, prop, tier, seed, seq_enum=True, caps="unbounded,1,2,3", drop_matrix=False, outcomes=None, focus="mixed", windows=True, seq_random=True, conc=True, miri=False, blocked=False, droprace=False, storm=False):
    quick = tier == QUICK
    jobs = []
    base = ["--property", prop]
    if seq_enum:
        jobs += shards(bindir, "queue_driver", prop + "-seqenum", seed, NCPU, base + ["--mode", "seq-enum", "--maxlen", "5" if quick else "6", "--caps", caps, "--max-handles", "2"], 3400)
    if drop_matrix:
        jobs += shards(bindir, "queue_driver", prop + "-dropmatrix", seed, 8, base + ["--mode", "drop-matrix", "--maxpat", "3" if quick else "5"], 3400)
    if outcomes:
        alpha, nq, nt = outcomes
        jobs += shards(bindir, "queue_driver", prop + "-outcomes", seed, NCPU, base + ["--mode", "outcomes", "--alphabet", alpha, "--n", str(nq if quick else nt)], 3400)
    if seq_random:
        jobs += shards(bindir, "queue_driver", prop + "-seqrandom", seed, NCPU, base + ["--mode", "seq-random", "--focus", focus, "--cases", "1200" if quick else "12000"], 3400)
    if conc:
        jobs += shards(bindir, "queue_conc", prop + "-conc", seed, NCPU, base + ["--mode", "conc", "--focus", focus, "--cases", "40" if quick else "1200"], 3400)
    if windows:
        jobs += shards(bindir, "queue_conc", prop + "-windows", seed, 2 if quick else 8, base + ["--mode", "windows", "--cases", "12" if quick else "200"], 3400)
    if storm:
        jobs += shards(bindir, "queue_driver", prop + "-panicstorm", seed, 1, base + ["--mode", "panic-storm"] + ([] if quick else ["--big"]), 3400)
    if drop_matrix:
        jobs += shards(bindir, "queue_driver", prop + "-slowdrop", seed, 1, base + ["--mode", "slow-drop"], 3400)
    if prop in ("C08", "C09", "C10", "C15", "C16"):
        jobs += shards(bindir, "queue_driver", prop + "-compose", seed, 1 if quick else 4, base + ["--mode", "compose"], 3400)
    # every fifth job of the native drivers so far runs with a standard error that cannot be written to (/dev/full): whatever
    # the library feels like reporting there while it handles an error or a panic of the wrapped sink must not cost anything
    for k, j in enumerate(jobs):
        if k % 5 == 4:
            j.stderr_full = True
    if droprace:
        jobs += shards(bindir, "queue_conc", prop + "-droprace", seed, NCPU, base + ["--mode", "droprace", "--cases", "400" if quick else "30000"], 3400)
    if blocked:
        jobs += shards(bindir, "queue_conc", prop + "-blocked", seed, NCPU, base + ["--mode", "blocked", "--cases", "60" if quick else "4000"] + ([] if quick else ["--big"]), 3400,
                       per_shard_args=lambda i: ["--huge-first"] if i == 0 or (not quick and i < 4) else [])
    if prop in ("C09", "C08", "C10", "C11", "C16"):
        # a backlog behind a sink that takes ten (virtual) minutes per metric, hour-long idle periods: Miri's virtual clock
        jobs.append(miri_time_job(prop, seed, 4 if quick else 64, 1500 if quick else 7200))
    # Miri: compact histories under a random preemptive scheduler, hooks off; virtual-time quiescence
    if miri:
        if quick:
            jobs.append(miri_job(prop + "-miri-queue", prop, "miri_queue", ["a"], 8, seed, 1500, fail_marker="QUEUE-ORACLE-FAILED"))
        else:
            for k, st in enumerate(["a", "b", "c"]):
                jobs.append(miri_job(prop + "-miri-queue-" + st, prop, "miri_queue", [st], 64, seed + 31 * k, 7200, fail_marker="QUEUE-ORACLE-FAILED"))
    return jobs


meta("C08", level="exploration",
     rule="rules R1 (multiset of wrapped-sink calls == accepted emits, nothing refused/unknown/duplicated delivered), R2 (delivery order == acceptance order; per producer and by "
          "real-time precedence RET(a) < CALL(b) => ENTER(a) < ENTER(b) under concurrency), R3 (calls into the wrapped sink strictly alternate ENTER/EXIT across thread restarts); "
          + Q_SEQ + Q_CONC,
     assumptions=Q_ASSUME, exhaustive_scope="the sequential op-sequence enumeration up to the stated length (random, concurrent and window parts are sampled)",
     min_evaluations=2000, must_observe={"sink_calls_observed": 2000, "enumerated_histories": 500, "deliveries_observed": 1000, "real_time_precedence_pairs_checked": 1000, "handle_clone_drop_pairs_during_run": 100})
meta("C09", level="exploration",
     rule="rule R4: after the last handle is dropped every accepted metric is still handed over, then SINK_DROP is observed (the wrapped sink is released), then no library thread is left; "
          "drop returns while the gate is closed and never unwinds, and it does not wait either: with a backlog of 400 behind a sink that lets one metric through per 10 ms for as long as the drop has not returned, the dropping thread must not be found waiting or spinning inside drop (call watchdog, /proc state and CPU time). Drop matrix: capacities unbounded/0/1/2/3/8 x EVERY occupancy 0..=capacity at the last drop (incl. completely full) x "
          "worker busy/idle x every ok/err/panic pattern of the remaining metrics x clone dropped first; forced windows C1-C7 park the worker just before it waits (also with entries queued behind its back) and the dropper between "
          "'flag set' and 'wake-up'; drop races: the last 2-4 handles are dropped at the same moment on as many threads (spin barrier), with 0-3 metrics queued, some of the handles dropped by a guard while their thread unwinds from a panic; histories without caller-side flushes run against a wrapped sink whose flush() waits for an emit in progress like the library's buffered sinks; " + Q_SEQ + Q_CONC,
     assumptions=Q_ASSUME, exhaustive_scope="the drop matrix and the sequential op-sequence enumeration up to the stated bounds",
     min_evaluations=2000, must_observe={"sink_drops_observed": 2000, "last_drop_with_full_queue": 20, "last_drop_while_sink_blocked": 100, "forced_stop_windows": 20, "concurrent_last_drop_races": 1000, "entries_queued_behind_parked_worker": 10, "handles_dropped_during_unwinding": 50})
meta("C10", level="exploration",
     rule="rule R5: sequential and exact with the worker parked inside the gated sink: emit returns Ok iff accepted - handed_over < capacity (distinguishes capacity c from c+-1), always Ok when "
          "unbounded, Ok(n) => n == len, emit returns while the gate is closed (a call that blocks for good, a call found waiting - state S in >= 90% of >= 25 samples over >= 700 ms - and a call that burns >= 300 ms of CPU time are detected from the calling thread's /proc entries), ENTER never on a caller thread, no "
          "wrapped-sink error text or panic in any emit result; under concurrency the tolerant bounds of DESIGN.md appendix C (definite over-acceptance / definite false refusal); a forced window "
          "parks the worker after taking one entry and probes that exactly `capacity` further metrics are accepted; blocked-sink races: with the worker parked inside the closed gate, 2-16 "
          "producers released by a barrier hammer emit (also with 200 KB metrics) - every emit must return while the gate stays closed (else the producers' /proc state is the verdict) and "
          "exactly `capacity` are accepted; " + Q_SEQ + Q_CONC,
     # a caller process taken down by something the wrapped sink did on the queue's thread was not isolated from it
     abort_is_violation=True,
     assumptions=Q_ASSUME, exhaustive_scope="the sequential op-sequence enumeration up to the stated length",
     min_evaluations=2000, must_observe={"emits_refused": 500, "emits_accepted": 2000, "capacity_bound_checks": 500, "capacity_probes_with_worker_parked": 2, "blocked_sink_races": 100, "exact_capacity_under_race_checks": 100})
meta("C11", level="fault_enumeration",
     rule="rule R6: EVERY assignment of {ok, err, panic} to n <= N queued metrics (N=6 quick, 9 thorough) in three arrangements (all queued before any outcome happens; one at a time; queued, "
          "released one by one, then a further metric accepted after the panics), random panic-heavy sequential histories, concurrent producers with panicking wrapped sink; R1-R3 must hold for "
          "all metrics (each panicking metric is handed over exactly once, never again), the sink keeps accepting, panics() at rest == number of EXIT(panic) (read after every panicked thread is gone); "
          + Q_CONC,
     assumptions=Q_ASSUME, exhaustive_scope="all ok/err/panic assignments up to the stated length in the three arrangements",
     # a process that dies while a panic of the wrapped sink is being handled (abort in the sentinel) did not survive it
     abort_is_violation=True,
     min_evaluations=1000, must_observe={"scripted_panics": 500, "panic_counts_checked": 200})
meta("C15", level="exploration",
     rule="rule R7: at every rest point of every sequential history submitted == #Ok emits, drained == #ENTER, queued == difference (refused emits counted nowhere); under concurrency a sampler "
          "thread reads queued() and THEN submitted() (monotone, so a sound upper bound) ~10^6 times per second; forced windows A (producer parked between try_send and its bookkeeping while the "
          "worker hands the entry over: drained=1, submitted=0, queued must be 0, not 2^64-1 and not an overflow panic) and B (worker parked between receive and its bookkeeping); " + Q_SEQ + Q_CONC,
     assumptions=Q_ASSUME, exhaustive_scope="the sequential op-sequence enumeration up to the stated length",
     min_evaluations=2000, must_observe={"counter_rest_points_checked": 5000, "sampler_reads": 100000, "forced_window_A_samples": 2, "forced_window_B_samples": 2})
meta("C16", level="fault_enumeration",
     rule="rule R8: EVERY {ok, err(kind a), err(kind b)} pattern over n <= N queued metrics (N=7 quick, 10 thorough), with and without with_error_handler, random error-heavy sequential and "
          "concurrent histories mixed with panics; each EXIT(err e) is followed - before the next ENTER - by exactly one HANDLER(e) (identity by io::ErrorKind + unique message) on the same "
          "(library) thread, no HANDLER without such an EXIT, and without a handler deliveries simply continue; forced window D parks the worker after it took an entry, queues failing metrics behind it and lets a caller flush / read stats and counters: neither the wrapped sink nor the handler may run on the caller's thread; " + Q_CONC,
     assumptions=Q_ASSUME, exhaustive_scope="all ok/err patterns up to the stated length, with and without handler",
     min_evaluations=1000, must_observe={"scripted_errors": 1000, "handler_calls": 500, "forced_window_D_caller_calls": 4})


@plan("C08")
def _c08(bindir, tier, seed):
    jobs = q_jobs(bindir, "C08", tier, seed, miri=True, storm=True)
    # backlogs of 70 000 (and, in the first shard, 2^20 + 60 000) metrics behind a blocked sink, then released: handed over
    # one at a time, every producer's own order kept - whatever the library does about a large backlog
    quick = tier == QUICK
    jobs += shards(bindir, "queue_conc", "C08-blocked", seed, 4 if quick else NCPU, ["--property", "C08", "--mode", "blocked", "--cases", "6" if quick else "400", "--backlogs"], 3400,
                   per_shard_args=lambda i: ["--huge-first"] if (i == 0 and not quick) else [])
    return jobs


@plan("C09")
def _c09(bindir, tier, seed):
    return q_jobs(bindir, "C09", tier, seed, caps="unbounded,0,1,2", drop_matrix=True, focus="drop", miri=True, droprace=True)


@plan("C10")
def _c10(bindir, tier, seed):
    return q_jobs(bindir, "C10", tier, seed, blocked=True, storm=True)


@plan("C11")
def _c11(bindir, tier, seed):
    return q_jobs(bindir, "C11", tier, seed, seq_enum=False, outcomes=("oep", 6, 9), focus="panic", miri=(tier != QUICK))


@plan("C15")
def _c15(bindir, tier, seed):
    return q_jobs(bindir, "C15", tier, seed, miri=(tier != QUICK))


@plan("C16")
def _c16(bindir, tier, seed):
    return q_jobs(bindir, "C16", tier, seed, seq_enum=False, outcomes=("oe", 7, 10), focus="error", storm=True)


# ---- C18 ---------------------------------------------------------------------------------------------------
meta("C18", level="exploration",
     rule="observer 1 (decider in quick): real threads run real SingletonHolder operations under a token-passing scheduler fed by the tracing shim of hook H1; a DFS over the scheduler's "
          "choices enumerates every interleaving (single atomic/cell access granularity, invocation is a scheduling point too) of all multisets of 2-3 threads x 1 op and 2 threads x <= 2 ops "
          "over {set(v), get, is_set}, plus two racing setters with a double reader (thorough adds 3 threads with a 2-op thread); beyond that scope, sampled schedules (uniform, sticky and priority-with-change-points strategies) of random configurations with 2-4 threads and up to 4 operations per thread. Each trace is judged by a set-once-register value oracle over "
          "operation intervals (one winner, same fully constructed Arc everywhere, winner not preceded by a completed set, nothing visible before any set, visible after the winning set "
          "completed, payload dropped exactly once) and by a FastTrack-style vector-clock race check using the orderings actually passed (release store/RMW publishes, relaxed store resets, "
          "RMW continues a release sequence, failed CAS = load with the failure ordering). Observer 2: Miri (-Zmiri-many-seeds, weak-memory emulation, data-race detector, UB checks on the "
          "cell) on holder_stress with hooks off; holders are built alternately with new() and default(). Observer 3 (thorough): ThreadSanitizer build of holder_stress. distinct = (configuration, schedule) pairs",
     assumptions=["DRF argument: only one atomic location exists, so if no enumerated SC interleaving has a happens-before race, weak-memory executions of these configurations add no behaviour; Miri's weak-memory emulation is the independent check of this",
                  "configurations with 4 threads or >= 3 operations per thread are sampled, not enumerated; more than 4 threads or 4 operations per thread are not explored; configurations whose interleavings exceed the per-configuration schedule cap are truncated (reported, exhaustive then false)",
                  "if state.rs synchronises through a primitive the shim does not route, the vector-clock observer switches itself off and Miri/TSan decide race freedom"],
     exhaustive_scope="all SC interleavings of the listed configurations (only when no configuration was truncated)",
     min_evaluations=2000, must_observe={"cell_accesses_checked": 1000, "hb_edges_established": 500, "schedules_with_reader_overlapping_LOADING": 100, "configurations_explored": 30, "miri_seeds_completed": 8, "schedules_on_default_constructed_holder": 500})


def miri_job(name, prop, binname, prog_args, seeds, seed, timeout, extra_flags="", ok_marker=" ok ", fail_marker="ORACLE-FAILED", what="executions"):
    """A `cargo +nightly miri run` of a harness binary with hooks off, -Zmiri-many-seeds. The parser turns Miri's own
    diagnostics (data race / UB / deadlock) and the program's oracle line into a report."""
    lo = (seed * 1000) % 100000
    flags = "-Zmiri-many-seeds=%d..%d -Zmiri-preemption-rate=0.2 %s" % (lo, lo + seeds, extra_flags)
    argv = ["cargo", "+nightly", "miri", "run", "--offline", "--manifest-path", os.path.join(VERIF, "harness", "Cargo.toml"), "--bin", binname, "--"] + prog_args
    env = {"MIRIFLAGS": flags.strip(), "CARGO_TARGET_DIR": os.path.join(TARGET, "miri")}

    def parse(job):
        import re
        out = job.output
        oks = [l for l in out.splitlines() if ok_marker in l and binname in l]
        viols = []
        m = re.search(r"error: Undefined Behavior: ([^\n]*)", out)
        if m:
            where = re.search(r"-->\s*(\S+)", out[m.start():])
            cls = "data-race" if "Data race" in m.group(1) else "undefined-behaviour"
            viols.append({"property": prop, "rule": "miri", "class": cls, "detail": "Miri: %s at %s" % (m.group(1)[:300], where.group(1) if where else "?"),
                          "replay_args": [], "trace": {"miri_output_tail": out[-3000:], "MIRIFLAGS": flags}})
        elif "the evaluated program deadlocked" in out:
            viols.append({"property": prop, "rule": "miri", "class": "deadlock", "detail": "Miri: the evaluated program deadlocked (a wait that can never be satisfied)",
                          "replay_args": [], "trace": {"miri_output_tail": out[-3000:], "MIRIFLAGS": flags}})
        elif fail_marker in out:
            line = [l for l in out.splitlines() if fail_marker in l][0]
            # the queue program names what failed; map it to the property it belongs to
            targets = [prop]
            cls = "oracle-failed-under-miri"
            if binname == "miri_queue":
                table = [("phase=delivery", ["C08"], "accepted-never-delivered"), ("phase=release", ["C09"], "worker-or-sink-not-released"), ("counters at rest", ["C15"], "final-counters"),
                         ("overlapped", ["C08"], "overlapping-sink-calls"), ("producer ", ["C08", "C11"], "out-of-order"), ("handler calls", ["C16"], "handler-count"),
                         ("surfaced", ["C10"], "wrapped-error-surfaced"), ("emit returned Ok(", ["C10"], "return-count"), ("accepted,", ["C08", "C11"], "accepted-never-delivered")]
                for key, props, c in table:
                    if key in line:
                        targets, cls = props, c
                        break
            if binname != "miri_queue":
                pm = re.search(r"property=(C\d\d)", line)
                if pm:
                    targets, cls = [pm.group(1)], ("oracle-failed-under-miri-virtual-time" if binname == "miri_time" else "oracle-failed-under-miri")
            for t in targets:
                viols.append({"property": t, "rule": "miri-history-oracle", "class": cls, "detail": "under Miri (random preemptive scheduler): " + line[:400], "replay_args": [], "trace": {"MIRIFLAGS": flags}})
        rep = {"evaluations": len(oks), "distinct": ["miri-%s-%s" % (binname, l.split(" ok ", 1)[-1]) for l in oks], "distinct_count": len(set(oks)), "trivial": 0,
               "samples": [{"miri": binname, "flags": flags, "program_output": l} for l in oks[:2]], "violations": viols, "violation_count": len(viols),
               "obs": {"miri_seeds_completed": len(oks)}, "notes": [], "inconclusive": []}
        if not viols and (job.rc != 0 or len(oks) == 0):
            rep["inconclusive"].append("miri run of %s exited with %s and %d completed seeds: %s" % (binname, job.rc, len(oks), out[-500:].replace("\n", " | ")))
        return rep

    return Job(name, argv, timeout, env=env, parser=parse, cwd=os.path.join(VERIF, "harness"))


def tsan_job(name, prop, binname, prog_args, timeout, runs=1):
    """Runs a binary from the ThreadSanitizer build (built on demand by ./check). Reports are de-duplicated by their first in-repo frame."""
    tsan_bin = os.path.join(TARGET, "tsan", "x86_64-unknown-linux-gnu", "release", binname)
    argv = ["/bin/sh", "-c", "for i in $(seq %d); do %s %s || echo EXIT=$?; done" % (runs, tsan_bin, " ".join(prog_args))]
    env = {"TSAN_OPTIONS": "halt_on_error=0 report_signal_unsafe=0 exitcode=66"}

    def parse(job):
        import re
        out = job.output
        oks = [l for l in out.splitlines() if " ok " in l and binname in l]
        blocks = re.findall(r"WARNING: ThreadSanitizer: ([^\n]*)\n(.*?)(?=\n==================|\Z)", out, re.S)
        viols = []
        seen = set()
        for title, body in blocks:
            frames = re.findall(r"#\d+ (\S+) ([^\s]+/(?:repo|cadence[^/]*)/[^\s:]+:\d+)", body)
            key = (title.split("(")[0].strip(), frames[0][1] if frames else body[:80])
            if key in seen:
                continue
            seen.add(key)
            viols.append({"property": prop, "rule": "tsan", "class": "data-race" if "data race" in title else "tsan-report", "detail": "ThreadSanitizer: %s; first in-repo frame %s" % (title[:200], key[1]),
                          "replay_args": [], "trace": {"report": body[:3000]}})
        rep = {"evaluations": len(oks), "distinct": ["tsan-%s-%d" % (binname, i) for i in range(len(oks))], "distinct_count": len(oks), "trivial": 0,
               "samples": [{"tsan": binname, "program_output": l} for l in oks[:2]], "violations": viols, "violation_count": len(viols),
               "obs": {"tsan_runs_completed": len(oks), "tsan_reports": len(blocks)}, "notes": [], "inconclusive": []}
        if "ORACLE-FAILED" in out:
            rep["violations"].append({"property": prop, "rule": "value-oracle", "class": "oracle-failed-under-tsan", "detail": [l for l in out.splitlines() if "ORACLE-FAILED" in l][0][:400], "replay_args": [], "trace": {}})
            rep["violation_count"] += 1
        if not rep["violations"] and len(oks) < runs:
            rep["inconclusive"].append("tsan run of %s completed %d of %d runs: %s" % (binname, len(oks), runs, out[-500:].replace("\n", " | ")))
        return rep

    j = Job(name, argv, timeout, env=env, parser=parse)
    j.needs_tsan = True
    j.tsan_bin = binname
    return j


def miri_time_job(prop, seed, seeds, timeout=1500):
    """miri_time: histories with hour-long pauses on Miri's virtual clock (linger timers, idle flushes, grace periods)."""
    return miri_job(prop + "-miri-time", prop, "miri_time", [], seeds, seed, timeout, fail_marker="TIME-ORACLE-FAILED")


@plan("C18")
def _c18(bindir, tier, seed):
    if tier == QUICK:
        jobs = shards(bindir, "holder_driver", "C18", seed, NCPU - 2, ["--level", "core", "--max-schedules", "8000"], 1200)
        jobs.append(miri_job("C18-miri-holder", "C18", "holder_stress", ["3", "2", "2", "3"], 16, seed, 1500))
        # the global functions on top of the holder: two racing set_global_default, a thread checking that 'is set' implies 'get works'
        jobs.append(miri_job("C18-miri-globals", "C18", "macro_miri", ["2", "1"], 16, seed, 1500, fail_marker="MACRO-ORACLE-FAILED"))
        jobs.append(native_stress_job("C18-native-stress", "C18", bindir, "holder_stress", ["8000", "2", "3", "6"], 900, runs=4))
        # sampled schedules of configurations beyond the enumerated scope (2-4 threads, up to 4 operations per thread)
        jobs += shards(bindir, "holder_driver", "C18s", seed, 2, ["--mode", "sample", "--runs", "2500"], 1200)
        return jobs
    jobs = shards(bindir, "holder_driver", "C18", seed, NCPU, ["--level", "full", "--max-schedules", "400000"], 7200)
    for k in range(4):
        jobs.append(miri_job("C18-miri-holder-%d" % k, "C18", "holder_stress", [["4", "2", "2", "3"], ["3", "3", "2", "2"], ["3", "2", "3", "4"], ["6", "1", "3", "3"]][k], 64, seed + 17 * k, 7200))
    jobs += shards(bindir, "holder_driver", "C18s", seed, NCPU, ["--mode", "sample", "--runs", "150000", "--schedules-per-config", "150"], 7200)
    jobs.append(miri_job("C18-miri-globals", "C18", "macro_miri", ["2", "1"], 128, seed, 7200, fail_marker="MACRO-ORACLE-FAILED"))
    jobs.append(tsan_job("C18-tsan-holder", "C18", "holder_stress", ["2000", "2", "3", "6"], 7200, runs=10))
    jobs.append(native_stress_job("C18-native-stress", "C18", bindir, "holder_stress", ["200000", "3", "3", "6"], 7200, runs=16))
    return jobs


# ---- C17 ---------------------------------------------------------------------------------------------------
meta("C17", level="exploration",
     rule="one fresh process per global-client configuration (prefix class x default tags x default container x sink behaviour accept/refuse/alternate x handler present x UNSET); inside, "
          "all 7 macros x all 22 accepted value types x tag arities 0,1,2,3,6 with run-time random strings; every argument is a block expression bumping its own counter and taking an order stamp (arguments must be evaluated once each, in the order key, value, tag pairs left to right, as the explicit chain does); a macro used from inside the client's own error handler must send. Oracle: "
          "differential against the explicit chain get_global_default().unwrap().<kind>_with_tags(k, v).with_tag(..)...send() run back to back on the same client (same line, one emit each, "
          "same handler traffic; the reference formatter of C01 only counts here, how a line is formatted is not C17's business), every argument evaluated exactly once, failures only in the handler log (same error), panic iff "
          "no client set - including macros tried BEFORE the set on the main thread and on another thread (they must panic, and the same threads must work after the set), and macros on threads "
          "spawned after the set -, a second set_global_default is ignored. Second observer: macro_miri (global client set once, a second set ignored, all 7 macros from 1-4 threads, lines equal to the explicit chains) under Miri with 16 (quick) / 4x64 (thorough) seeds: spurious compare-exchange failures, weak memory, data races and UB on the set-once path. distinct = (macro, value type, tag arity, sink behaviour, handler, set/unset)",
     assumptions=["tag arities above 6 are not driven (the macro repetition is uniform)", "the global can be set once per process, hence one process per configuration"],
     # a process with a client set that dies by a signal while macros run (a panic inside a destructor at thread exit ...) did panic
     abort_is_violation=True,
     min_evaluations=2000, must_observe={"macro_vs_chain_pairs_equal": 1500, "argument_evaluations_checked": 5000, "unset_macros_panicked": 100, "handler_deliveries_checked": 100, "second_set_ignored_checks": 4, "miri_seeds_completed": 8, "threads_that_tried_a_macro_before_set": 4, "macros_on_fresh_threads": 4, "argument_order_checks": 1000, "macro_inside_handler_checks": 4})


@plan("C17")
def _c17(bindir, tier, seed):
    n = 48 if tier == QUICK else 600
    rounds = "3" if tier == QUICK else "6"
    jobs = []
    for i in range(n):
        argv = [B(bindir, "macro_driver"), "--cfg-seed", str(seed * 100003 + i), "--rounds", rounds, "--out", "{out}"]
        argv += ["--sink", ["accept", "refuse", "alternate"][i % 3]]
        if i % 4 == 3:
            argv += ["--no-handler"]
        if i % 6 == 5:
            argv += ["--unset"]
        elif i % 2 == 0:
            argv += ["--late-set"]
        if i % 4 != 3 and i % 6 != 5:
            argv += ["--reentrant-handler"]
        j = Job("C17-macro-%d" % i, argv, 600)
        if i % 5 == 4:
            # hostile process state: the usual DogStatsD variables set, standard error unwritable
            j.env = dict(HOSTILE_ENV)
            j.stderr_full = True
        jobs.append(j)
    # second observer: the macros on a set global client under Miri (spurious CAS failures, weak memory, races, UB)
    if tier == QUICK:
        jobs.append(miri_job("C17-miri-macros", "C17", "macro_miri", ["2", "2"], 16, seed, 1500))
    else:
        for k in range(4):
            jobs.append(miri_job("C17-miri-macros-%d" % k, "C17", "macro_miri", [["2", "3"], ["3", "2"], ["4", "1"], ["1", "4"]][k], 64, seed + 13 * k, 7200))
    return jobs


# ---- C12 ---------------------------------------------------------------------------------------------------
meta("C12", level="exploration",
     rule="T in {2,3,4,8,16,32} threads released by a barrier emit in tight loops through ONE shared Arc<StatsdClient> into a buffered sink (capacities 16/24/64/512(default)/1432), "
          "metric keys carry (thread, sequence) and random padding (some oversize => bypass), up to 2 threads also flush at random. Sinks: BufferedSpyMetricSink (channel), the same behind a QueuingMetricSink (emit and flush race with the background thread), "
          "BufferedUnixMetricSink with a draining receiver, BufferedUdpMetricSink observed at the interposed sendto. Oracle over the combined datagram stream: every datagram is whole "
          "acknowledged metrics each followed by \\n and <= capacity, or one oversize metric alone without terminator (F1); every Ok-acknowledged metric appears exactly once (F2); each "
          "thread's buffered metrics appear in program order. A run in which no datagram mixes two threads' lines is trivial. distinct = (sink, T, capacity, thread-id trigram in stream order)",
     assumptions=["schedules are sampled from the OS scheduler under stress (no controlled scheduler inside the sink's mutex: nothing interleaves there)",
                  "loop-back UDP may drop at the receiver under load, therefore the interposer log (payload copies at sendto) is taken as the wire for UDP"],
     min_evaluations=20, must_observe={"datagrams_mixing_lines_of_several_threads": 1000, "thread_switches_in_stream": 5000, "acknowledged_metrics_checked": 100000, "runs_spy": 5, "runs_unix": 3, "runs_udp": 3, "runs_queue-spy": 3})


@plan("C12")
def _c12(bindir, tier, seed):
    q = tier == QUICK
    jobs = shards(bindir, "conc_driver", "C12-spy", seed, 8, ["--sink", "spy", "--cases", "20" if q else "150"], 3000)
    jobs += shards(bindir, "conc_driver", "C12-queue-spy", seed, 4, ["--sink", "queue-spy", "--cases", "10" if q else "100"], 3000)
    jobs += shards(bindir, "conc_driver", "C12-unix", seed, 4, ["--sink", "unix", "--cases", "10" if q else "100"], 3000)
    jobs += shards(bindir, "conc_driver", "C12-udp", seed, 4, ["--sink", "udp", "--cases", "10" if q else "100"], 3000)
    return jobs


# ---- C13 / C14: socket sinks at the syscall boundary ----------------------------------------------------------
SOCK_ASSUME = ["loop-back UDP and Unix datagram sockets of this kernel; errno values that were scripted at the interposed sendto (EAGAIN, ENOBUFS, ECONNREFUSED, EPERM, ENETUNREACH, EINTR) or provoked from the kernel (EMSGSIZE for 65508-byte UDP payloads, EAGAIN on a non-blocking Unix socket with a full receive queue)",
               "the sendto interposer (a #[no_mangle] definition in the driver binary that std links against) records every call of the process; a scripted failure never enters the kernel (all-or-nothing datagram semantics)",
               "other platforms, real networks and IPv6 are not exercised"]
meta("C13", level="exploration",
     rule="unbuffered UdpMetricSink / UnixMetricSink, blocking and non-blocking: random UTF-8 metrics (multi-byte, embedded delimiters/NUL/newlines, lengths 0, 1, 1472, 1473, 65507, 65508, "
          "8-60 KB) - per emit exactly one sendto, payload == the metric's bytes, destination sockaddr == the constructed address/path (first of several resolved addresses; empty list => "
          "InvalidInput), result == bytes sent or the socket's errno (scripted or kernel-made), the datagram received on the addressed socket equals the metric and a decoy socket stays "
          "empty; buffered UDP/Unix sinks (capacities 0,1,8,40,100,512(default),1432,9000): the framing model F1 with a single newline terminator and 'what remains is sent on flush/drop' "
          "over the interposer log, capacities up to 100000 incl. UDP above one datagram; Unix sinks also addressed by a relative path from a working directory whose absolute form exceeds sun_path; slow-server histories (blocking Unix socket, receive queue full, server draining with pauses: no send may fail, the server receives exactly the bytes sent, incl. the final flush at drop). distinct = (sink, blocking mode, length class, result) and outcome-window signatures for the buffered sinks",
     assumptions=SOCK_ASSUME, min_evaluations=50,
     must_observe={"unbuffered_emits_checked": 1000, "datagrams_received_and_compared": 500, "scripted_socket_errors_checked": 50, "kernel_socket_errors_checked": 5, "sendto_attempts_observed": 1000, "empty_address_list_rejected": 3, "unix_sinks_addressed_by_relative_path": 20, "slow_server_histories": 20})
meta("C14", level="exploration",
     rule="all four socket sinks; at every quiescent point (all emitting threads joined, and behind a QueuingMetricSink the queue drained) stats() is compared with totals computed from the "
          "interposer log restricted to the sink's socket: packets_sent + packets_dropped == send attempts, packets/bytes sent == accepted datagrams and their sizes, packets/bytes dropped == "
          "refused ones; for the unbuffered sinks also == counts/lengths of Ok/Err emits; identical figures through the queuing wrapper. Faults: EVERY accept/refuse pattern of length <= L "
          "(L=6 quick, 10 thorough) per sink kind, random per-call failures (5-70%) with 1-16 concurrently emitting threads, kernel EMSGSIZE, empty metric strings (an unbuffered sink sends an empty datagram), all four ways of building the queuing wrapper; contention runs: 4-16 threads x 8-30 k emits on ONE unbuffered sink while every send fails in a lock-free fast path of the interposer, so that only the sink's own counters are contended. distinct = (sink, #threads, through queue, refusal class, pattern)",
     assumptions=SOCK_ASSUME, exhaustive_scope="all accept/refuse patterns of the underlying sendto up to the stated length, per sink kind, single emitter (the concurrent part is sampled)",
     min_evaluations=100,
     must_observe={"quiescent_stat_comparisons": 100, "refused_datagrams_observed": 500, "comparisons_with_concurrent_emitters": 20, "comparisons_through_queuing_sink": 20, "kernel_refusals_observed": 5, "contention_runs": 3, "contended_updates": 100000})


@plan("C13")
def _c13(bindir, tier, seed):
    q = tier == QUICK
    jobs = shards(bindir, "sock_driver", "C13-unbuffered", seed, 8, ["--property", "C13", "--mode", "unbuffered", "--cases", "250" if q else "2500"], 3000)
    jobs += shards(bindir, "sock_driver", "C13-buffered", seed, 8, ["--property", "C13", "--mode", "buffered", "--cases", "1000" if q else "8000"], 3000)
    if not q:
        for k, mode in enumerate(["unbuffered", "buffered"]):
            jobs.append(strace_job("C13-strace-%s" % mode, "C13", bindir, ["--property", "C13", "--mode", mode, "--seed", str(seed + 7), "--shard", str(90 + k), "--shards", "1", "--cases", "300"], 3000))
    return jobs


@plan("C14")
def _c14(bindir, tier, seed):
    q = tier == QUICK
    jobs = shards(bindir, "sock_driver", "C14-enum", seed, 8, ["--property", "C14", "--mode", "stats-enum", "--maxlen", "7" if q else "10"], 3000)
    jobs += shards(bindir, "sock_driver", "C14-stats", seed, 8, ["--property", "C14", "--mode", "stats", "--cases", "120" if q else "1500"], 3000)
    # one process at a time: the contention runs need the cores for themselves
    jobs += shards(bindir, "sock_driver", "C14-contention", seed, 1, ["--property", "C14", "--mode", "contention", "--cases", "6" if q else "200"], 3000)
    if not q:
        jobs.append(strace_job("C14-strace-stats", "C14", bindir, ["--property", "C14", "--mode", "stats", "--seed", str(seed + 7), "--shard", "90", "--shards", "1", "--cases", "60"], 3000))
    return jobs


# ---- C20 ---------------------------------------------------------------------------------------------------
meta("C20", level="exploration",
     rule="hostile inputs against every public constructor and call, each call under catch_unwind with a recording panic hook, the driver running as a sub-process so that an abort is seen by "
          "the parent: empty / delimiter-only / NUL / 64 KiB / 1 MiB / invisible strings as prefix, key, tag, container id; 0, negative, MIN/MAX, NaN, +-inf, subnormal numbers; Durations at "
          "the 64-bit boundaries; empty packed lists and lists of up to 10^6 elements; timestamps u64::MAX; MultiLineWriter capacities 0, 1, 2, 3, 7, 8, 64, 512, 65536, 2^20 x 5 terminators x "
          "flaky writers (incl. the degenerate capacity-0/empty-terminator/empty-metric triple); buffered and unbuffered sinks with capacity 0, receivers gone / never reading / paths "
          "unlinked, empty address lists; queue capacities 0, 1, 2 with failing and panicking wrapped sinks, clones, counters, Debug; MetricError / MetricValue / SocketStats APIs with extreme "
          "values. Also checked: invalid values are reported as invalid-input errors and everything else reaches the sink exactly once. An overflow canary (255u8 + 1 must panic) proves that "
          "overflow checks are on. distinct = (area, entry point / configuration class) signatures",
     assumptions=["object sizes are capped (<= 64 MiB) so that allocation failure - which aborts and is not the library's fault - cannot occur; if the kernel kills the process the verdict is inconclusive",
                  "cadence::test (doc-hidden test utilities with a documented assert!) is out of scope",
                  "the build is the harness's release profile with overflow-checks and debug-assertions switched ON for cadence itself (proved by the canary at run time)"],
     abort_is_violation=True, min_evaluations=300, must_observe={"guarded_calls": 5000, "overflow_canary_panicked_as_required": 5, "sent_or_reported_checks": 200})


@plan("C20")
def _c20(bindir, tier, seed):
    q = tier == QUICK
    jobs = []
    for area, n, cases_q, cases_t in (("format", 8, 30, 1500), ("writer", 3, 20000, 400000), ("sinks", 2, 1500, 40000), ("queue", 2, 1500, 30000), ("misc", 1, 200, 2000), ("tls", 1, 64, 2000), ("smallstack", 1, 60, 2000)):
        js = shards(bindir, "hostile_driver", "C20-" + area, seed, n, ["--area", area, "--cases", str(cases_q if q else cases_t)], 3400)
        # the last shard of each area runs with an unwritable standard error and the usual DogStatsD variables set
        js[-1].env = dict(HOSTILE_ENV)
        js[-1].stderr_full = True
        jobs += js
    # the same hostile inputs against an UNOPTIMISED build (what `cargo test` gives a user: big frames, no inlining, no
    # tail calls): fewer cases, it is an order of magnitude slower
    for area, cases_q, cases_t in (("format", 6, 120), ("writer", 600, 20000), ("misc", 20, 200), ("queue", 60, 1500)):
        j = Job("C20-unoptimised-%s" % area, [os.path.join(TARGET, "debug", "hostile_driver"), "--area", area, "--cases", str(cases_q if q else cases_t), "--seed", str(seed), "--shard", "0", "--shards", "1", "--out", "{out}"], 3400)
        j.needs_dev_build = True
        jobs.append(j)
    # memory-safety observer: a compact tour of the whole public API under Miri (UB, data races, leaks of the paths reached)
    jobs.append(miri_job("C20-miri-api", "C20", "miri_api", [], 2 if q else 32, seed, 1500 if q else 7200, fail_marker="API-ORACLE-FAILED"))
    if not q:
        jobs.append(fuzz_job("C20", "fz_hostile", "hostile_driver", seed, 180, 8))
    return jobs


def strace_job(name, prop, bindir, drv_args, timeout):
    """Runs sock_driver under `strace -f -e trace=sendto`: an INDEPENDENT observer of the syscall boundary. The number of
    sendto calls the kernel saw, how many it accepted and the bytes it accepted must equal what the in-process interposer
    recorded for the calls it let through (scripted failures never enter the kernel)."""
    trace = os.path.join(VERIF, ".run", "strace-%s.txt" % name)
    argv = ["strace", "-f", "-qq", "-e", "trace=sendto", "-o", trace, B(bindir, "sock_driver")] + drv_args + ["--out", "{out}"]

    def parse(job):
        import json as _json, re
        out_path = [a for a in job.argv if a.endswith(".json")]
        rep = None
        # the report path is the last argv element after substitution by run_job: recompute it the same way
        rp = os.path.join(VERIF, ".run", "%s-thorough" % prop, re.sub(r"[^A-Za-z0-9_.-]", "_", job.name) + ".json")
        if os.path.exists(rp):
            rep = _json.load(open(rp))
        if rep is None:
            return {"evaluations": 0, "violations": [], "violation_count": 0, "inconclusive": ["strace job %s produced no driver report: %s" % (job.name, job.output[-300:])]}
        calls = ok = okb = 0
        if os.path.exists(trace):
            for line in open(trace, errors="replace"):
                if "sendto" not in line:
                    continue
                m = re.search(r"\)\s+= (-?\d+)", line)
                if not m:
                    continue
                calls += 1
                r = int(m.group(1))
                if r >= 0:
                    ok += 1
                    okb += r
            os.remove(trace)
        obs = rep.get("obs", {})
        rep.setdefault("obs", {})["strace_sendto_calls_seen"] = calls
        want = (obs.get("sendto_entered_kernel", -1), obs.get("sendto_kernel_accepted", -1), obs.get("sendto_kernel_accepted_bytes", -1))
        if (calls, ok, okb) != want:
            # the two observers disagree: the in-process log cannot be trusted for this run => no verdict from it
            rep.setdefault("inconclusive", []).append("strace saw (calls, accepted, bytes) = %s but the interposer recorded %s" % ((calls, ok, okb), want))
        else:
            rep["obs"]["strace_agrees_with_interposer_runs"] = 1
        return rep

    return Job(name, argv, timeout, parser=parse)


def native_stress_job(name, prop, bindir, binname, prog_args, timeout, runs=4):
    """Plain native runs of a stress program with its own value oracle (no sanitizer): exit 1 + ORACLE-FAILED line = violation."""
    argv = ["/bin/sh", "-c", "for i in $(seq %d); do %s %s || echo EXIT=$?; done" % (runs, B(bindir, binname), " ".join(prog_args))]

    def parse(job):
        out = job.output
        oks = [l for l in out.splitlines() if " ok " in l and binname in l]
        rep = {"evaluations": len(oks), "distinct": ["native-%s-%s" % (binname, l.split(" ok ", 1)[-1]) for l in oks], "distinct_count": len(oks), "trivial": 0,
               "samples": [{"native_stress": binname, "program_output": l} for l in oks[:1]], "violations": [], "violation_count": 0,
               "obs": {"native_stress_runs_completed": len(oks)}, "notes": [], "inconclusive": []}
        bad = [l for l in out.splitlines() if "ORACLE-FAILED" in l]
        if bad:
            rep["violations"].append({"property": prop, "rule": "value-oracle", "class": "oracle-failed-native-stress", "detail": bad[0][:400], "replay_args": [], "trace": {}})
            rep["violation_count"] = 1
        elif len(oks) < runs:
            rep["inconclusive"].append("native stress %s completed %d of %d runs: %s" % (binname, len(oks), runs, out[-300:].replace("\n", " | ")))
        return rep

    j = Job(name, argv, timeout, parser=parse)
    j.extra_bins = [binname]
    return j
