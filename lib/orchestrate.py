"""Orchestration for the cadence runtime-monitoring checks.

A check = build the harness against /repo's current working tree (hooks on), run a set of driver
processes ("jobs") in parallel, merge their reports, match violations against KNOWN_FINDINGS.txt,
write evidence/<id>.json and print the verdict.

Verdicts are three-valued: held (exit 0), violated (exit 1 + VIOLATION line), inconclusive (exit 3 +
INCONCLUSIVE line). Inconclusive is never folded into the other two.
"""
import json
import os
import re
import shutil
import subprocess
import sys
import time
from concurrent.futures import ThreadPoolExecutor

VERIF = os.path.dirname(os.path.dirname(os.path.abspath(__file__)))
HARNESS = os.path.join(VERIF, "harness")
TARGET = os.environ.get("CVH_TARGET_DIR", os.path.join(VERIF, "target"))
REPO = os.environ.get("CVH_REPO", "/repo")
RUN_DIR = os.path.join(VERIF, ".run")
NCPU = os.cpu_count() or 4


def base_env():
    env = dict(os.environ)
    env["CARGO_NET_OFFLINE"] = "true"
    env["CARGO_TARGET_DIR"] = TARGET
    env.pop("RUSTFLAGS", None)
    return env


def log(msg):
    print(msg, flush=True)


def ensure_lock():
    lock = os.path.join(HARNESS, "Cargo.lock")
    if not os.path.exists(lock) and os.path.exists(os.path.join(REPO, "Cargo.lock")):
        shutil.copy(os.path.join(REPO, "Cargo.lock"), lock)


def build(kind="hooks", bins=None, quiet=True):
    """Build the harness. kind: 'hooks' (release profile with overflow checks + debug assertions,
    --cfg cadence_verif), 'tsan' (nightly, -Zsanitizer=thread, -Zbuild-std, hooks off).
    Returns (ok, path-to-bin-dir, seconds, tail-of-output)."""
    ensure_lock()
    env = base_env()
    t0 = time.time()
    if kind == "hooks":
        env["RUSTFLAGS"] = "--cfg cadence_verif"
        cmd = ["cargo", "build", "--release", "--offline"]
        bindir = os.path.join(TARGET, "release")
    elif kind == "dev":
        # an UNOPTIMISED build (opt-level 0, debug assertions and overflow checks on): what `cargo build` / `cargo test`
        # give a user - frames are large, nothing is inlined, recursion stays recursion
        env["RUSTFLAGS"] = "--cfg cadence_verif"
        env["CARGO_PROFILE_DEV_OPT_LEVEL"] = "0"
        cmd = ["cargo", "build", "--offline"]
        bindir = os.path.join(TARGET, "debug")
    elif kind == "tsan":
        env["RUSTFLAGS"] = "-Zsanitizer=thread"
        env["CARGO_TARGET_DIR"] = os.path.join(TARGET, "tsan")
        cmd = ["cargo", "+nightly", "build", "--release", "--offline", "-Zbuild-std", "--target", "x86_64-unknown-linux-gnu"]
        bindir = os.path.join(TARGET, "tsan", "x86_64-unknown-linux-gnu", "release")
    else:
        raise ValueError(kind)
    if bins:
        for b in bins:
            cmd += ["--bin", b]
    p = subprocess.run(cmd, cwd=HARNESS, env=env, stdout=subprocess.PIPE, stderr=subprocess.STDOUT, text=True)
    dt = time.time() - t0
    tail = "\n".join(l for l in p.stdout.splitlines() if l.startswith("error") or "-->" in l or "panicked" in l)[-4000:]
    return p.returncode == 0, bindir, dt, tail if p.returncode != 0 else ""


class Job:
    def __init__(self, name, argv, timeout, env=None, parser="report", weight=1, cwd=None):
        self.name = name
        self.argv = argv  # full argv; "{out}" replaced by the report path
        self.timeout = timeout
        self.env = env or {}
        self.parser = parser  # "report": JSON report written to {out}; callable(job, proc_result) -> report dict
        self.weight = weight
        self.cwd = cwd
        self.result = None
        self.rc = None
        self.wall = 0.0
        self.output = ""
        self.timed_out = False


def run_job(job, out_dir):
    out = os.path.join(out_dir, re.sub(r"[^A-Za-z0-9_.-]", "_", job.name) + ".json")
    argv = [a.replace("{out}", out) for a in job.argv]
    env = base_env()
    env.update(job.env)
    t0 = time.time()
    try:
        if getattr(job, "stderr_full", False):
            # hostile process state: writes to standard error fail (ENOSPC) - the harness itself never writes there
            with open("/dev/full", "w") as full:
                p = subprocess.run(argv, cwd=job.cwd or VERIF, env=env, stdout=subprocess.PIPE, stderr=full, timeout=job.timeout)
        else:
            p = subprocess.run(argv, cwd=job.cwd or VERIF, env=env, stdout=subprocess.PIPE, stderr=subprocess.STDOUT, timeout=job.timeout)
        job.rc = p.returncode
        job.output = p.stdout.decode("utf-8", "replace")[-20000:]
    except subprocess.TimeoutExpired as e:
        job.timed_out = True
        job.rc = -1
        job.output = (e.stdout or b"").decode("utf-8", "replace")[-20000:]
    job.wall = time.time() - t0
    if callable(job.parser):
        try:
            job.result = job.parser(job)
        except Exception as ex:  # harness problem: inconclusive, never a violation
            job.result = {"evaluations": 0, "inconclusive": ["parser failed for %s: %r" % (job.name, ex)], "violations": [], "violation_count": 0}
    else:
        if os.path.exists(out):
            try:
                job.result = json.load(open(out))
            except Exception as ex:
                job.result = None
                job.output += "\n[unreadable report: %r]" % (ex,)
    return job


def run_jobs(jobs, out_dir, parallel=NCPU):
    os.makedirs(out_dir, exist_ok=True)
    with ThreadPoolExecutor(max_workers=parallel) as ex:
        list(ex.map(lambda j: run_job(j, out_dir), jobs))
    return jobs


def load_known_findings():
    """KNOWN_FINDINGS.txt: lines 'open: property=<id> rule=<rule> class=<class> <text>' suppress exactly that
    (property, rule, class); lines 'fixed: ...' document repaired defects and suppress nothing."""
    path = os.path.join(VERIF, "KNOWN_FINDINGS.txt")
    opens = []
    if os.path.exists(path):
        for line in open(path):
            line = line.strip()
            if not line or line.startswith("#"):
                continue
            if line.startswith("open:"):
                m = re.match(r"open:\s+property=(\S+)\s+rule=(\S+)\s+class=(\S+)\s*(.*)", line)
                if m:
                    opens.append({"property": m.group(1), "rule": m.group(2), "class": m.group(3), "text": m.group(4)})
    return opens


def merge(prop, tier, seed, jobs, meta, t_start, build_info):
    """Merge job reports into a verdict + evidence dict."""
    evaluations = 0
    distinct = set()
    distinct_floor = 0  # for shards that could not list their signatures
    trivial = 0
    samples = []
    violations = []
    vcount = 0
    inconclusive = []
    obs = {}
    notes = []
    exhaustive_flags = []
    runs = []
    extra = {}
    fine = {}
    for j in jobs:
        r = j.result
        runs.append({"job": j.name, "exit": j.rc, "wall_s": round(j.wall, 2), "timed_out": j.timed_out,
                     "evaluations": (r or {}).get("evaluations", 0)})
        if j.timed_out:
            inconclusive.append("job %s hit its %ds watchdog" % (j.name, j.timeout))
        if r is None:
            if not j.timed_out:
                msg = "job %s produced no report (exit %s): %s" % (j.name, j.rc, j.output[-600:].replace("\n", " | "))
                if meta.get("abort_is_violation") and j.rc in (-6, -11, -4, -7, -8):  # ABRT SEGV ILL BUS FPE (a SIGKILL is the OOM killer or an operator: inconclusive)
                    # killed by a signal (SIGABRT from a panic inside a destructor, a double panic, ...): the library took the process down
                    violations.append({"property": prop, "rule": "no-abort", "class": "process-aborted", "detail": msg, "replay_args": j.argv[1:], "trace": {}, "job": j.name, "bin": j.argv[0]})
                    vcount += 1
                else:
                    inconclusive.append(msg)
            continue
        evaluations += r.get("evaluations", 0)
        if r.get("distinct") is not None:
            distinct.update(r["distinct"])
        else:
            distinct_floor = max(distinct_floor, r.get("distinct_count", 0))
        trivial += r.get("trivial", 0)
        if r.get("fine"):
            fine.setdefault(r.get("fine_name", "fine"), set()).update(r["fine"])
        for s in r.get("samples", []):
            if len(samples) < 8:
                samples.append(s)
        for v in r.get("violations", []):
            v = dict(v)
            v["job"] = j.name
            v.setdefault("bin", j.argv[0])
            violations.append(v)
        vcount += r.get("violation_count", 0)
        for w in r.get("inconclusive", []):
            inconclusive.append("%s: %s" % (j.name, w))
        for k, v in r.get("obs", {}).items():
            if k.startswith("max_"):
                obs[k] = max(obs.get(k, 0), v)
            else:
                obs[k] = obs.get(k, 0) + v
        for n in r.get("notes", []):
            if n not in notes:
                notes.append(n)
        if "exhaustive" in r:
            exhaustive_flags.append(bool(r["exhaustive"]))
        for k in r:
            if k not in ("driver", "property", "evaluations", "distinct", "distinct_count", "trivial", "samples", "violations",
                         "violation_count", "obs", "notes", "inconclusive", "exhaustive", "wall_s", "fine", "fine_name"):
                extra.setdefault(k, []).append(r[k])
        # a driver exit code other than 0/1/3 is a crash of the harness or an abort inside the library
        if j.rc not in (0, 1, 3) and not j.timed_out:
            msg = "job %s exited with %s: %s" % (j.name, j.rc, j.output[-400:].replace("\n", " | "))
            if meta.get("abort_is_violation") and j.rc in (-6, -11, -4, -7, -8):  # ABRT SEGV ILL BUS FPE (a SIGKILL is the OOM killer or an operator: inconclusive)
                violations.append({"property": prop, "rule": "no-abort", "class": "process-aborted", "detail": msg, "replay_args": j.argv[1:], "trace": {}, "job": j.name, "bin": j.argv[0]})
                vcount += 1
            else:
                inconclusive.append(msg)

    # only this property's violations count; match against open known findings
    opens = load_known_findings()
    mine = [v for v in violations if v.get("property") == prop]
    others = [v for v in violations if v.get("property") != prop]
    known, fresh = [], []
    for v in mine:
        hit = next((o for o in opens if o["property"] == prop and o["rule"] == v.get("rule") and o["class"] == v.get("class")), None)
        (known if hit else fresh).append(v)
    distinct_n = max(len(distinct), distinct_floor)
    floor = meta.get("min_evaluations", 1)
    if evaluations < floor:
        inconclusive.append("only %d evaluations observed (floor %d)" % (evaluations, floor))
    if distinct_n < 2:
        inconclusive.append("fewer than 2 distinct non-trivial cases observed")
    for key, need in meta.get("must_observe", {}).items():
        if obs.get(key, 0) < need:
            inconclusive.append("observation %s=%d below the floor %d (monitor not reached)" % (key, obs.get(key, 0), need))

    coverage = {
        "evaluations": evaluations,
        "distinct_nontrivial": distinct_n,
        "trivial_cases": trivial,
        "rule": meta["rule"],
        "samples": samples if samples else [{"note": "no sample recorded"}],
        "observations": obs,
        "runs": runs,
        "engines": sorted(set(os.path.basename(j.argv[0]) for j in jobs)),
        "build": build_info,
    }
    for name, st in fine.items():
        coverage["distinct_" + name] = len(st)
    if notes:
        coverage["notes"] = notes
    if exhaustive_flags and all(exhaustive_flags) and meta.get("exhaustive_scope") and not inconclusive:
        coverage["exhaustive"] = True
        coverage["exhaustive_scope"] = meta["exhaustive_scope"]
    for k, v in extra.items():
        coverage[k] = v[:16]
    if known:
        coverage["known_findings_hit"] = [{"rule": v["rule"], "class": v["class"]} for v in known]
    if others:
        coverage["other_property_rule_hits_ignored"] = sorted(set("%s/%s" % (v.get("property"), v.get("rule")) for v in others))
    verdict = "violated" if fresh else ("inconclusive" if inconclusive else "held")
    coverage["verdict"] = verdict
    if inconclusive:
        coverage["inconclusive_reasons"] = inconclusive[:20]
    evidence = {
        "property_id": prop,
        "tier": tier,
        "seed": seed,
        "level": meta["level"],
        "coverage": coverage,
        "assumptions": meta["assumptions"],
        "wall_s": round(time.time() - t_start, 2),
        "violations": len(fresh),
    }
    return verdict, evidence, fresh, known, inconclusive


def write_evidence(prop, evidence):
    d = os.path.join(VERIF, "evidence")
    os.makedirs(d, exist_ok=True)
    tmp = os.path.join(d, prop + ".json.tmp")
    with open(tmp, "w") as f:
        json.dump(evidence, f, indent=1, ensure_ascii=False)
        f.write("\n")
    os.replace(tmp, os.path.join(d, prop + ".json"))


def write_replay(prop, seed, n, v):
    d = os.path.join(VERIF, "replays")
    os.makedirs(d, exist_ok=True)
    path = os.path.join(d, "%s-%s-%d.json" % (prop, seed, n))
    with open(path, "w") as f:
        json.dump({"property": prop, "bin": os.path.basename(v.get("bin", "")), "args": v.get("replay_args", []), "rule": v.get("rule"),
                   "class": v.get("class"), "detail": v.get("detail"), "trace": v.get("trace"), "job": v.get("job")}, f, indent=1, ensure_ascii=False)
    return path


def conclude(prop, verdict, evidence, fresh, known, inconclusive, seed):
    write_evidence(prop, evidence)
    cov = evidence["coverage"]
    log("%s: %s  evaluations=%d distinct_nontrivial=%d wall=%.1fs" % (prop, verdict.upper(), cov["evaluations"], cov["distinct_nontrivial"], evidence["wall_s"]))
    for k, v in sorted(cov.get("observations", {}).items()):
        log("   observed %s = %s" % (k, v))
    for v in known:
        log("KNOWN-FINDING: property=%s rule=%s class=%s %s" % (prop, v.get("rule"), v.get("class"), (v.get("detail") or "")[:200]))
    if fresh:
        seen = set()
        n = 0
        for v in fresh:
            key = (v.get("rule"), v.get("class"))
            if key in seen and n >= 3:
                continue
            seen.add(key)
            path = write_replay(prop, seed, n, v)
            n += 1
            log("   rule=%s class=%s: %s" % (v.get("rule"), v.get("class"), (v.get("detail") or "")[:300]))
            log("VIOLATION property=%s replay=%s" % (prop, path))
        return 1
    if verdict == "inconclusive":
        for w in inconclusive[:10]:
            log("INCONCLUSIVE property=%s reason=%s" % (prop, w[:500]))
        return 3
    return 0
